"""
G3: frame / protocol / data-flow / exception contracts on glue code.

A small symbolic executor over the real AST of object-level functions.  Values are uninterpreted
terms; every feasible syntactic path is enumerated (branches on undecidable tests fork, loop bodies
are executed once with a symbolic element, `try` bodies fork into their handlers); library calls
are events in the path's trace.  A contract is a predicate over *all* traces of a function, so it
holds for all inputs under the stated assumed contracts of the libraries.
"""
import ast
import itertools

from . import extract


class Term:
    """Uninterpreted value.  `text` is a canonical rendering used for equality of data-flow."""

    def __init__(self, text, origin=None):
        self.text = text
        self.origin = origin  # for call results: the call event

    def __repr__(self):
        return f"<{self.text}>"


class Const:
    def __init__(self, v):
        self.v = v

    @property
    def text(self):
        return repr(self.v)

    def __repr__(self):
        return f"Const({self.v!r})"


class DictVal:
    def __init__(self, items=None, open_=False):
        self.items = dict(items or {})
        self.open = open_  # may contain further unknown keys

    @property
    def text(self):
        return "{" + ", ".join(f"{k}: {text_of(v)}" for k, v in self.items.items()) + ("..." if self.open else "") + "}"


class Closure:
    def __init__(self, node, env):
        self.node = node
        self.env = env
        self.text = node.name


def text_of(v):
    if isinstance(v, (Term, Const, DictVal, Closure)):
        return v.text
    if isinstance(v, tuple):
        return "(" + ", ".join(text_of(x) for x in v) + ")"
    return repr(v)


class Path:
    def __init__(self):
        self.env = {}
        self.heap = {}  # attribute text -> value (self.x = ...)
        self.events = []
        self.conds = []  # (text, truth)
        self.status = "running"  # running | return | raise
        self.result = None
        self.truthy = {}  # text -> bool refinements
        self.loop_depth = 0
        self.maybe = 0

    def fork(self):
        p = Path()
        # mutable abstract values (dict literals updated by item stores) must not be shared between the two
        # branches of a fork: copy each DictVal once, keeping aliasing within the path
        memo = {}

        def cp(v):
            if isinstance(v, DictVal):
                if id(v) not in memo:
                    d = DictVal(open_=v.open)
                    memo[id(v)] = d
                    d.items = {k: cp(x) for k, x in v.items.items()}
                return memo[id(v)]
            if isinstance(v, tuple):
                return tuple(cp(x) for x in v)
            return v
        p.env = {k: cp(v) for k, v in self.env.items()}
        p.heap = {k: cp(v) for k, v in self.heap.items()}
        p.events = list(self.events)
        p.conds = list(self.conds)
        p.status = self.status
        p.result = self.result
        p.truthy = dict(self.truthy)
        p.loop_depth = self.loop_depth
        p.maybe = self.maybe
        return p

    def emit(self, kind, **kw):
        ev = {"kind": kind, "in_loop": self.loop_depth > 0, "maybe": self.maybe > 0, **kw}
        self.events.append(ev)
        return ev


class Tracer:
    MAX_PATHS = 3000

    def __init__(self, inline=None, depth=2):
        self.inline = inline or {}  # callee text -> dotted function name in /repo to inline
        self.depth = depth
        self.counter = itertools.count()

    # ------------------------------------------------------------------ entry
    def run(self, dotted, bind=None, self_fields=None):
        fn = extract.get_function(dotted)
        self.fn = fn
        p = Path()
        args = fn.node.args
        names = [a.arg for a in args.args] + [a.arg for a in args.kwonlyargs]
        for n in names:
            p.env[n] = Term(n)
        if args.kwarg:
            p.env[args.kwarg.arg] = DictVal({}, open_=True)
            p.env[args.kwarg.arg].name = args.kwarg.arg
        for k, v in (bind or {}).items():
            p.env[k] = v
        for k, v in (self_fields or {}).items():
            p.heap[f"self.{k}"] = v
        self.params = names
        paths = self.block(fn.node.body, [p])
        for q in paths:
            if q.status == "running":
                q.status = "return"
                q.result = Const(None)
        return paths

    # ------------------------------------------------------------------ statements
    def block(self, stmts, paths):
        for s in stmts:
            nxt = []
            for p in paths:
                if p.status != "running":
                    nxt.append(p)
                else:
                    nxt.extend(self.stmt(s, p))
            paths = nxt
            if len(paths) > self.MAX_PATHS:
                raise RuntimeError(f"G3 path explosion at line {s.lineno}")
        return paths

    def stmt(self, s, p):
        m = getattr(self, "s_" + type(s).__name__, None)
        if m is None:
            p.emit("unsupported", text=type(s).__name__, lineno=s.lineno)
            return [p]
        return m(s, p)

    def s_Pass(self, s, p):
        return [p]

    def s_Expr(self, s, p):
        if isinstance(s.value, ast.Constant):
            return [p]
        self.ev(s.value, p)
        return [p]

    def s_Import(self, s, p):
        return [p]

    s_ImportFrom = s_Import

    def s_FunctionDef(self, s, p):
        p.env[s.name] = Closure(s, p.env)
        return [p]

    def s_Assert(self, s, p):
        p.emit("assert", text=ast.unparse(s.test), lineno=s.lineno)
        return [p]

    def s_Return(self, s, p):
        p.result = self.ev(s.value, p) if s.value is not None else Const(None)
        p.status = "return"
        p.emit("return", value=p.result, lineno=s.lineno)
        return [p]

    def s_Raise(self, s, p):
        name = None
        if s.exc is not None:
            e = s.exc.func if isinstance(s.exc, ast.Call) else s.exc
            name = ast.unparse(e)
        p.emit("raise", exc=name, lineno=s.lineno, text=ast.unparse(s)[:120])
        p.status = "raise"
        p.result = name
        return [p]

    def s_Assign(self, s, p):
        v = self.ev(s.value, p)
        for t in s.targets:
            self.assign(t, v, p, s)
        return [p]

    def s_AnnAssign(self, s, p):
        if s.value is not None:
            self.assign(s.target, self.ev(s.value, p), p, s)
        return [p]

    def s_AugAssign(self, s, p):
        cur = self.ev(s.target, p)
        v = self.ev(s.value, p)
        self.assign(s.target, Term(f"({text_of(cur)} {type(s.op).__name__} {text_of(v)})"), p, s)
        return [p]

    def assign(self, t, v, p, s):
        if isinstance(t, ast.Name):
            p.env[t.id] = v
        elif isinstance(t, (ast.Tuple, ast.List)):
            if isinstance(v, tuple) and len(v) == len(t.elts):
                for a, b in zip(t.elts, v):
                    self.assign(a, b, p, s)
            else:
                for k, a in enumerate(t.elts):
                    self.assign(a, Term(f"{text_of(v)}[{k}]", getattr(v, "origin", None)), p, s)
        elif isinstance(t, ast.Attribute):
            base = self.ev(t.value, p)
            key = f"{text_of(base)}.{t.attr}"
            p.heap[key] = v
            p.emit("store", target=key, base=text_of(base), attr=t.attr, value=v, lineno=s.lineno)
        elif isinstance(t, ast.Subscript):
            base = self.ev(t.value, p)
            idx = self.ev(t.slice, p) if not isinstance(t.slice, ast.Slice) else Term(ast.unparse(t.slice))
            p.emit("store-item", target=text_of(base), index=text_of(idx), value=v, lineno=s.lineno)
            if isinstance(base, DictVal) and isinstance(idx, Const):
                base.items[idx.v] = v
        else:
            p.emit("unsupported", text="assign target", lineno=s.lineno)

    def s_If(self, s, p):
        c = self.ev(s.test, p)
        d = self.decide(c, p)
        if d is True:
            return self.block(s.body, [p])
        if d is False:
            return self.block(s.orelse, [p])
        t, f = p, p.fork()
        self.refine(s.test, True, t)
        self.refine(s.test, False, f)
        t.conds.append((ast.unparse(s.test), True))
        f.conds.append((ast.unparse(s.test), False))
        return self.block(s.body, [t]) + self.block(s.orelse, [f])

    def s_For(self, s, p):
        it = self.ev(s.iter, p)
        p.emit("loop", over=text_of(it), lineno=s.lineno)
        skip = p.fork()
        skip.conds.append((f"for {ast.unparse(s.target)} in {ast.unparse(s.iter)}: zero iterations", True))
        self.assign(s.target, Term(f"elem({text_of(it)})"), p, s)
        p.loop_depth += 1
        out = self.block(s.body, [p])
        for q in out:
            q.loop_depth -= 1
        return out + ([skip] if self.fork_empty_loops else [])

    fork_empty_loops = False

    def s_While(self, s, p):
        self.ev(s.test, p)
        p.loop_depth += 1
        out = self.block(s.body, [p])
        for q in out:
            q.loop_depth -= 1
        return out

    def s_With(self, s, p):
        for item in s.items:
            v = self.ev(item.context_expr, p)
            if item.optional_vars is not None:
                self.assign(item.optional_vars, v, p, s)
        return self.block(s.body, [p])

    def s_Try(self, s, p):
        start = p.fork()
        body = self.block(s.body, [p])
        out = list(body)
        for h in s.handlers:
            # the exception may come from any call of the try body: handler paths start from the
            # state at try entry, with the body's events recorded as 'maybe happened'
            for q in [start.fork()]:
                q.maybe += 1
                bq = self.block(s.body, [q])
                for r in bq:
                    r.maybe -= 1
                    if r.status == "raise":
                        # an explicit raise inside the try body reaching this handler
                        r.status = "running"
                    if r.status != "running" and r.status != "return":
                        continue
                    r.status = "running"
                    r.conds.append((f"except {ast.unparse(h.type) if h.type else ''}", True))
                    r.emit("except", exc=ast.unparse(h.type) if h.type else None, lineno=h.lineno)
                    if h.name:
                        r.env[h.name] = Term(h.name)
                    out.extend(self.block(h.body, [r]))
        if s.finalbody:
            out = self.block(s.finalbody, [q for q in out])
        return out

    # ------------------------------------------------------------------ conditions
    def decide(self, c, p):
        if isinstance(c, Const):
            return bool(c.v)
        if isinstance(c, Term) and c.text in p.truthy:
            return p.truthy[c.text]
        return None

    def refine(self, test, truth, p):
        """Record what a branch teaches: `x is None`, `x is not None`, `x`, `not x`."""
        if isinstance(test, ast.Compare) and len(test.ops) == 1 and isinstance(test.comparators[0], ast.Constant) \
                and test.comparators[0].value is None and isinstance(test.ops[0], (ast.Is, ast.IsNot)):
            is_none = isinstance(test.ops[0], ast.Is) == truth
            if isinstance(test.left, ast.Name):
                if is_none:
                    p.env[test.left.id] = Const(None)
                else:
                    v = p.env.get(test.left.id)
                    if isinstance(v, Term):
                        p.truthy[f"{v.text} is None"] = False
            return
        if isinstance(test, ast.UnaryOp) and isinstance(test.op, ast.Not):
            return self.refine(test.operand, not truth, p)
        if isinstance(test, ast.BoolOp):
            if isinstance(test.op, ast.And) and truth:
                for v in test.values:
                    self.refine(v, True, p)
            if isinstance(test.op, ast.Or) and not truth:
                for v in test.values:
                    self.refine(v, False, p)
            return
        v = self.ev(test, p.fork())
        if isinstance(v, Term):
            p.truthy[v.text] = truth

    # ------------------------------------------------------------------ expressions
    def ev(self, n, p):
        m = getattr(self, "e_" + type(n).__name__, None)
        if m is None:
            return Term(ast.unparse(n))
        return m(n, p)

    def e_Constant(self, n, p):
        return Const(n.value)

    def e_Name(self, n, p):
        if n.id in p.env:
            return p.env[n.id]
        if n.id in ("True", "False", "None"):
            return Const({"True": True, "False": False, "None": None}[n.id])
        return Term(n.id)

    def e_Attribute(self, n, p):
        base = self.ev(n.value, p)
        key = f"{text_of(base)}.{n.attr}"
        if key in p.heap:
            return p.heap[key]
        p.emit("read", base=text_of(base), attr=n.attr, lineno=n.lineno)
        return Term(key)

    def e_Tuple(self, n, p):
        return tuple(self.ev(e, p) for e in n.elts)

    e_List = e_Tuple

    def e_Dict(self, n, p):
        d = DictVal()
        for k, v in zip(n.keys, n.values):
            if k is None:
                d.open = True
                continue
            kk = self.ev(k, p)
            d.items[kk.v if isinstance(kk, Const) else text_of(kk)] = self.ev(v, p)
        return d

    def e_DictComp(self, n, p):
        # {k: v for k, v in locals().items() if k != "self"}  -> the locals dict minus self
        src = n.generators[0].iter
        if isinstance(src, ast.Call) and isinstance(src.func, ast.Attribute) and src.func.attr == "items":
            base = self.ev(src.func.value, p)
            if isinstance(base, DictVal):
                d = DictVal({k: v for k, v in base.items.items() if k != "self"}, base.open)
                return d
        return Term(ast.unparse(n))

    def e_UnaryOp(self, n, p):
        v = self.ev(n.operand, p)
        if isinstance(n.op, ast.Not):
            d = self.decide(v, p)
            if d is not None:
                return Const(not d)
            return Term(f"not {text_of(v)}")
        if isinstance(v, Const) and isinstance(n.op, ast.USub):
            return Const(-v.v)
        return Term(ast.unparse(n))

    def e_BoolOp(self, n, p):
        vals = [self.ev(v, p) for v in n.values]
        ds = [self.decide(v, p) for v in vals]
        if isinstance(n.op, ast.And):
            if any(d is False for d in ds):
                return Const(False)
            if all(d is True for d in ds):
                return Const(True)
        else:
            if any(d is True for d in ds):
                return Const(True)
            if all(d is False for d in ds):
                return Const(False)
        return Term("(" + (" and " if isinstance(n.op, ast.And) else " or ").join(text_of(v) for v in vals) + ")")

    def e_Compare(self, n, p):
        left = self.ev(n.left, p)
        if len(n.ops) == 1:
            right = self.ev(n.comparators[0], p)
            op = n.ops[0]
            if isinstance(op, (ast.Is, ast.IsNot)) and isinstance(right, Const) and right.v is None:
                if isinstance(left, Const):
                    r = left.v is None
                    return Const(r if isinstance(op, ast.Is) else not r)
                key = f"{text_of(left)} is None"
                if key in p.truthy:
                    r = p.truthy[key]
                    return Const(r if isinstance(op, ast.Is) else not r)
                if isinstance(left, (DictVal, tuple, Closure)):
                    return Const(isinstance(op, ast.IsNot))
                return Term(key if isinstance(op, ast.Is) else f"not ({key})")
            if isinstance(left, Const) and isinstance(right, Const):
                try:
                    r = {ast.Eq: left.v == right.v, ast.NotEq: left.v != right.v, ast.Is: left.v is right.v,
                         ast.IsNot: left.v is not right.v}.get(type(op))
                    if r is None:
                        r = {ast.Lt: left.v < right.v, ast.LtE: left.v <= right.v, ast.Gt: left.v > right.v,
                             ast.GtE: left.v >= right.v}[type(op)]
                    return Const(r)
                except Exception:
                    pass
            return Term(f"{text_of(left)} {_OPS.get(type(op), '?')} {text_of(right)}")
        return Term(ast.unparse(n))

    def e_IfExp(self, n, p):
        c = self.ev(n.test, p)
        d = self.decide(c, p)
        if d is True:
            return self.ev(n.body, p)
        if d is False:
            return self.ev(n.orelse, p)
        a, b = self.ev(n.body, p), self.ev(n.orelse, p)
        return Term(f"({text_of(a)} if {text_of(c)} else {text_of(b)})")

    def e_Subscript(self, n, p):
        base = self.ev(n.value, p)
        if isinstance(n.slice, ast.Slice):
            return Term(f"{text_of(base)}[{ast.unparse(n.slice)}]")
        idx = self.ev(n.slice, p)
        if isinstance(base, DictVal) and isinstance(idx, Const) and idx.v in base.items:
            return base.items[idx.v]
        if isinstance(base, tuple) and isinstance(idx, Const) and isinstance(idx.v, int):
            return base[idx.v]
        return Term(f"{text_of(base)}[{text_of(idx)}]")

    def e_BinOp(self, n, p):
        a, b = self.ev(n.left, p), self.ev(n.right, p)
        return Term(f"({text_of(a)} {type(n.op).__name__} {text_of(b)})")

    def e_JoinedStr(self, n, p):
        for v in n.values:
            if isinstance(v, ast.FormattedValue):
                self.ev(v.value, p)
        return Term("<fstring>")

    def e_Lambda(self, n, p):
        return Term(ast.unparse(n))

    def e_GeneratorExp(self, n, p):
        return Term(ast.unparse(n))

    e_ListComp = e_GeneratorExp

    def e_Starred(self, n, p):
        return Term("*" + text_of(self.ev(n.value, p)))

    def e_Call(self, n, p):
        ftext = None
        recv = None
        if isinstance(n.func, ast.Attribute):
            recv = self.ev(n.func.value, p)
            ftext = f"{text_of(recv)}.{n.func.attr}"
        else:
            f = self.ev(n.func, p)
            ftext = text_of(f)
        args = [self.ev(a, p) for a in n.args]
        kwargs = {}
        star = []
        for k in n.keywords:
            v = self.ev(k.value, p)
            if k.arg is None:
                star.append(v)
                if isinstance(v, DictVal):
                    kwargs.update(v.items)
            else:
                kwargs[k.arg] = v
        # builtins with known meaning
        if ftext == "locals" and not args:
            return DictVal({k: v for k, v in p.env.items() if k in self.params or k == "self"})
        if ftext == "dict":
            d = DictVal(kwargs)
            if args and isinstance(args[0], DictVal):
                d.items = {**args[0].items, **d.items}
                d.open = args[0].open
            return d
        if isinstance(recv, DictVal) and isinstance(n.func, ast.Attribute):
            if n.func.attr == "update" and args and isinstance(args[0], DictVal):
                recv.items.update(args[0].items)
                recv.open = recv.open or args[0].open
                return Const(None)
            if n.func.attr == "items":
                return recv
        if ftext == "isinstance":
            return Term(f"isinstance({text_of(args[0])}, {text_of(args[1])})")
        if ftext.startswith("logger.") or ftext.startswith("logging."):
            p.emit("log", level=ftext.split(".")[-1], lineno=n.lineno)
            return Const(None)
        # closures are inlined
        cl = p.env.get(ftext) if not isinstance(n.func, ast.Attribute) else None
        ev = p.emit("call", func=ftext, recv=text_of(recv) if recv is not None else None,
                    method=n.func.attr if isinstance(n.func, ast.Attribute) else None,
                    args=args, kwargs=kwargs, star_kwargs=star, lineno=n.lineno, text=ast.unparse(n)[:160])
        return Term(f"{ftext}(...)#{next(self.counter)}", origin=ev)


_OPS = {ast.Eq: "==", ast.NotEq: "!=", ast.Lt: "<", ast.LtE: "<=", ast.Gt: ">", ast.GtE: ">=", ast.Is: "is",
        ast.IsNot: "is not", ast.In: "in", ast.NotIn: "not in"}


# ---------------------------------------------------------------------- helpers for contracts
def calls(path, pred=None, **match):
    out = []
    for ev in path.events:
        if ev["kind"] != "call":
            continue
        if all(ev.get(k) == v for k, v in match.items()) and (pred is None or pred(ev)):
            out.append(ev)
    return out


def describe_path(path):
    return " & ".join(f"{'' if t else 'not '}({c})" for c, t in path.conds) or "<unconditional>"


def all_raises(module):
    """Every `raise X(...)` statement of a module: (function qualname, exception name, lineno)."""
    tree, _ = extract.module_ast(module)
    out = []

    def walk(node, qual):
        for ch in ast.iter_child_nodes(node):
            q = qual
            if isinstance(ch, (ast.FunctionDef, ast.ClassDef)):
                q = f"{qual}.{ch.name}" if qual else ch.name
            if isinstance(ch, ast.Raise) and ch.exc is not None:
                e = ch.exc.func if isinstance(ch.exc, ast.Call) else ch.exc
                out.append((q, ast.unparse(e), ch.lineno))
            walk(ch, q)
    walk(tree, "")
    return out
