"""Dimension spec strings shared by the G2 checker (python3-vt) and the homogeneity replay (/venv python)."""


def parse_dim(text, basis):
    """'1', 'T', '1/T', 'T^2', '1/(T*L)', 'T^-1*L^-1' -> list of Fractions-as-floats over basis"""
    text = text.replace(" ", "")
    vec = [0] * len(basis)
    sign, i = 1, 0
    stack = []
    while i < len(text):
        ch = text[i]
        if ch == "*":
            sign = stack[-1] if stack else 1
            i += 1
        elif ch == "/":
            sign = -(stack[-1] if stack else 1)
            i += 1
        elif ch == "(":
            stack.append(sign)
            i += 1
        elif ch == ")":
            stack.pop()
            sign = stack[-1] if stack else 1
            i += 1
        elif ch == "1" and (i + 1 == len(text) or text[i + 1] in "*/)"):
            i += 1
        else:
            j = i
            while j < len(text) and (text[j].isalnum() or text[j] == "_"):
                j += 1
            name = text[i:j]
            if name not in basis:
                raise ValueError(f"unknown dimension symbol {name!r} in {text!r}")
            k = 1
            if j < len(text) and text[j] == "^":
                m = j + 1
                while m < len(text) and (text[m].isdigit() or text[m] in "-."):
                    m += 1
                k = float(text[j + 1:m])
                j = m
            vec[basis.index(name)] += sign * k
            i = j
            sign = stack[-1] if stack else 1
    return vec
