"""Verification tooling for tsdate (runs under python3-vt; never imports tsdate)."""
import os

REPO = os.environ.get("VERIF_REPO", "/repo")
VERIF = os.path.dirname(os.path.dirname(os.path.abspath(__file__)))
VENV_PY = "/venv/bin/python"
