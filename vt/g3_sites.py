"""G3 + z3 obligations for util.sites_time_from_ts (C31): the per-mutation update and the min_time clamp of the
REAL loop bodies, symbolically executed over 'maybe-NaN reals' and compared with the rule in the property statement.

    for tree in tree_sequence.trees():
        for site in tree.sites():
            for mutation in site.mutations:      <- body B1: one step of a running maximum of AGE(mutation)
                ...
            ...                                  <- rest  B2: raise to at least min_time (NaN stays NaN)

Specification (from the statement, not from the code):
    AGE = nodes_time[node]                                   if selection == child  or the node is a root in this tree
          nodes_time[parent]                                 if selection == parent
          (nodes_time[node] + nodes_time[parent]) / 2        if selection == arithmetic
          sqrt(nodes_time[node] * nodes_time[parent])        if selection == geometric
    step : cell' == AGE if cell is NaN else max(cell, AGE)   (so after all mutations: the largest AGE; NaN iff none)
    clamp: cell' == cell if cell is NaN else max(cell, min_time)
The induction from `step` to "largest over the site's mutations" is over the list site.mutations (A-TS-API: every
site belongs to exactly one local tree, site.mutations lists exactly its mutations, tree.parent(u) is the node above u
there or tskit.NULL).  Node ages are assumed not NaN (A-TS-API / finite `mn` metadata); sqrt is uninterpreted.

Anything the small evaluator cannot follow gives `does-not-attach` (undecided), never a violation."""
import ast

import z3

from . import extract

FNAME = "util.sites_time_from_ts"
SELECTIONS = ("child", "parent", "arithmetic", "geometric")


class Stuck(Exception):
    pass


class MV:
    """maybe-NaN real"""
    def __init__(self, nan, val):
        self.nan, self.val = nan, val


NT = z3.Function("nodes_time", z3.IntSort(), z3.RealSort())
SQRT = z3.Function("sqrt", z3.RealSort(), z3.RealSort())
NODE, PARENT = z3.Int("mutation_node"), z3.Int("tree_parent_of_mutation_node")
CELL_TXT = "sites_time[site.id]"


def _ev(e, env, sel):
    t = ast.unparse(e)
    if t == CELL_TXT:
        return env["<cell>"]
    if t == "mutation.node":
        return NODE
    if t == "tree.parent(mutation.node)":
        return PARENT
    if t == "tskit.NULL":
        return z3.IntVal(-1)
    if t == "min_time":
        return MV(z3.BoolVal(False), z3.Real("min_time"))
    if isinstance(e, ast.Name):
        if e.id == "node_selection":
            return sel
        if e.id in env:
            return env[e.id]
        raise Stuck(f"unbound name {e.id}")
    if isinstance(e, ast.Constant):
        if isinstance(e.value, str):
            return e.value
        if isinstance(e.value, (int, float)) and not isinstance(e.value, bool):
            return MV(z3.BoolVal(False), z3.RealVal(repr(e.value)))
    if isinstance(e, ast.Subscript) and ast.unparse(e.value) == "nodes_time":
        i = _ev(e.slice, env, sel)
        if not z3.is_int(i):
            raise Stuck(f"nodes_time index {t}")
        return MV(z3.BoolVal(False), NT(i))
    if isinstance(e, ast.BinOp) and isinstance(e.op, (ast.Add, ast.Sub, ast.Mult, ast.Div)):
        a, b = _ev(e.left, env, sel), _ev(e.right, env, sel)
        if not (isinstance(a, MV) and isinstance(b, MV)):
            raise Stuck(f"arithmetic on {t}")
        if isinstance(e.op, ast.Div):
            if not (z3.is_rational_value(b.val) and b.val.as_fraction() != 0):
                raise Stuck(f"division by a non-constant in {t}")
            v = a.val / b.val
        else:
            v = {ast.Add: a.val + b.val, ast.Sub: a.val - b.val, ast.Mult: a.val * b.val}[type(e.op)]
        return MV(z3.Or(a.nan, b.nan), v)
    if isinstance(e, ast.Call) and ast.unparse(e.func) in ("np.sqrt", "math.sqrt") and len(e.args) == 1:
        a = _ev(e.args[0], env, sel)
        if not isinstance(a, MV):
            raise Stuck(t)
        return MV(a.nan, SQRT(a.val))
    if isinstance(e, ast.Call) and ast.unparse(e.func) in ("max", "np.maximum", "min", "np.minimum") and len(e.args) == 2 and not e.keywords:
        # builtin max/min(a, b): the comparison decides; NaN operands make it order dependent -> refuse
        a, b = _ev(e.args[0], env, sel), _ev(e.args[1], env, sel)
        if not (isinstance(a, MV) and isinstance(b, MV)) or not (z3.is_false(z3.simplify(a.nan)) and z3.is_false(z3.simplify(b.nan))):
            raise Stuck(f"max/min with a possibly-NaN operand in {t}")
        big = "max" in ast.unparse(e.func)
        return MV(z3.BoolVal(False), z3.If((a.val >= b.val) if big else (a.val <= b.val), a.val, b.val))
    raise Stuck(f"expression `{t}`")


def _cond(e, env, sel):
    if isinstance(e, ast.BoolOp):
        cs = [_cond(v, env, sel) for v in e.values]
        return z3.Or(*cs) if isinstance(e.op, ast.Or) else z3.And(*cs)
    if isinstance(e, ast.UnaryOp) and isinstance(e.op, ast.Not):
        return z3.Not(_cond(e.operand, env, sel))
    if isinstance(e, ast.Call) and ast.unparse(e.func) in ("np.isnan", "math.isnan") and len(e.args) == 1:
        a = _ev(e.args[0], env, sel)
        if not isinstance(a, MV):
            raise Stuck(ast.unparse(e))
        return a.nan
    if isinstance(e, ast.Compare) and len(e.ops) == 1:
        a, b = _ev(e.left, env, sel), _ev(e.comparators[0], env, sel)
        op = type(e.ops[0])
        if isinstance(a, str) and isinstance(b, str) and op in (ast.Eq, ast.NotEq):
            return z3.BoolVal((a == b) == (op is ast.Eq))
        if not isinstance(a, (MV, str)) and not isinstance(b, (MV, str)) and z3.is_int(a) and z3.is_int(b):
            r = {ast.Eq: a == b, ast.NotEq: a != b, ast.Lt: a < b, ast.LtE: a <= b, ast.Gt: a > b, ast.GtE: a >= b}.get(op)
            if r is not None:
                return r
        if isinstance(a, MV) and isinstance(b, MV):
            r = {ast.Lt: a.val < b.val, ast.LtE: a.val <= b.val, ast.Gt: a.val > b.val, ast.GtE: a.val >= b.val,
                 ast.Eq: a.val == b.val}.get(op)
            if r is not None:  # IEEE: every ordered comparison with a NaN is False
                return z3.And(z3.Not(a.nan), z3.Not(b.nan), r)
            if op is ast.NotEq:
                return z3.Or(a.nan, b.nan, a.val != b.val)
    raise Stuck(f"condition `{ast.unparse(e)}`")


def _block(stmts, states, sel):
    """states: list of (path condition list, env).  Returns the final states."""
    for st in stmts:
        nxt = []
        for pc, env in states:
            if isinstance(st, ast.Assign) and len(st.targets) == 1:
                tgt = ast.unparse(st.targets[0])
                v = _ev(st.value, env, sel)
                env = dict(env)
                if tgt == CELL_TXT:
                    if not isinstance(v, MV):
                        raise Stuck(f"store of a non-number into {CELL_TXT}")
                    env["<cell>"] = v
                elif isinstance(st.targets[0], ast.Name):
                    env[tgt] = v
                else:
                    raise Stuck(f"store into `{tgt}`")
                nxt.append((pc, env))
            elif isinstance(st, ast.If):
                c = z3.simplify(_cond(st.test, env, sel))
                if z3.is_true(c):
                    nxt += _block(st.body, [(pc, env)], sel)
                elif z3.is_false(c):
                    nxt += _block(st.orelse, [(pc, env)], sel)
                else:
                    nxt += _block(st.body, [(pc + [c], env)], sel) + _block(st.orelse, [(pc + [z3.Not(c)], env)], sel)
            elif isinstance(st, ast.Expr) and isinstance(st.value, ast.Constant):
                nxt.append((pc, env))
            elif isinstance(st, ast.Pass):
                nxt.append((pc, env))
            else:
                raise Stuck(f"statement `{ast.unparse(st)[:60]}`")
        states = nxt
    return states


def _spec_age(sel):
    n, p = NT(NODE), NT(PARENT)
    by_sel = {"child": n, "parent": p, "arithmetic": (n + p) / 2, "geometric": SQRT(n * p)}[sel]
    return z3.If(PARENT == -1, n, by_sel)


def _fmt(m, xs):
    return ", ".join(f"{k}={m.eval(v, model_completion=True)}" for k, v in xs)


def site_time_rule(g):
    try:
        fn = extract.get_function(FNAME)
    except LookupError as e:
        g.ob(f"{FNAME}:attach", False, "function exists", str(e), verdict="does-not-attach")
        return
    g.ctx.functions.append({**fn.describe(), "mode": "G3 + z3: symbolic execution of the two real loop bodies over maybe-NaN reals"})
    g.ctx.add_assumption("C31/A-TS-API: tree_sequence.trees() x tree.sites() x site.mutations visits every mutation of every site "
                         "exactly once, in the local tree that covers the site; tree.parent(u) is the node above u there or tskit.NULL")
    g.ctx.add_assumption("C31: node ages (nodes_time, `mn` metadata) are not NaN; sqrt is uninterpreted (A-MATH); A-REAL")
    fors = [n for n in ast.walk(fn.node) if isinstance(n, ast.For)]
    by_iter = {ast.unparse(n.iter): n for n in fors}
    lt, ls, lm = by_iter.get("tree_sequence.trees()"), by_iter.get("tree.sites()"), by_iter.get("site.mutations")
    nest = (lt is not None and ls is not None and lm is not None and ls in lt.body and lm in ls.body
            and len(lt.body) == 1 and ls.body[0] is lm and not lt.orelse and not ls.orelse and not lm.orelse
            and ast.unparse(lt.target) == "tree" and ast.unparse(ls.target) == "site" and ast.unparse(lm.target) == "mutation")
    g.ob(f"{FNAME}:loop-nest-visits-every-mutation-of-every-site", nest,
         "the only loops are  for tree in tree_sequence.trees(): for site in tree.sites(): for mutation in site.mutations: B1; B2  "
         "(no break / continue / else; the mutation loop is the first statement of the site loop)",
         None if nest else f"loops found: {sorted(by_iter)}", verdict=None if nest else "does-not-attach")
    if not nest:
        return
    jumps = [type(n).__name__ for n in ast.walk(lt) if isinstance(n, (ast.Break, ast.Continue, ast.Return))]
    g.ob(f"{FNAME}:no-early-exit-from-the-loops", not jumps, "no break / continue / return inside the loop nest",
         None if not jumps else f"found {jumps}")
    # frame: sites_time is created all-NaN with one cell per site, written only at [site.id] inside the nest, and returned
    top = fn.node.body
    inits = [s for s in top if isinstance(s, ast.Assign) and ast.unparse(s.targets[0]) == "sites_time"]
    ok_init = len(inits) == 1 and ast.unparse(inits[0].value).replace(" ", "") in (
        "np.full(tree_sequence.num_sites,np.nan)", "np.full(tree_sequence.num_sites,np.nan,dtype=np.float64)",
        "np.full(tree_sequence.num_sites,np.nan,dtype=float)")
    g.ob(f"{FNAME}:starts-all-nan-one-cell-per-site", ok_init, "sites_time = np.full(tree_sequence.num_sites, np.nan), assigned once",
         None if ok_init else f"initialisations: {[ast.unparse(s) for s in inits]}")
    stores = [ast.unparse(t) for n in ast.walk(fn.node) if isinstance(n, (ast.Assign, ast.AugAssign))
              for t in (n.targets if isinstance(n, ast.Assign) else [n.target]) if ast.unparse(t).startswith("sites_time[")]
    outside = [ast.unparse(t) for s in top if s is not lt for n in ast.walk(s) if isinstance(n, (ast.Assign, ast.AugAssign))
               for t in (n.targets if isinstance(n, ast.Assign) else [n.target]) if ast.unparse(t).startswith("sites_time[")]
    ok_frame = all(s == CELL_TXT for s in stores) and not outside
    g.ob(f"{FNAME}:writes-only-the-current-site-cell", ok_frame, f"every store into sites_time is `{CELL_TXT} = ...` inside the loop nest",
         None if ok_frame else f"stores: {stores}; outside the nest: {outside}")
    rets = [ast.unparse(n.value) if n.value else "None" for n in ast.walk(fn.node) if isinstance(n, ast.Return)]
    after = top[top.index(lt) + 1:] if lt in top else None
    ok_ret = rets == ["sites_time"] and after is not None and len(after) == 1 and isinstance(after[0], ast.Return)
    g.ob(f"{FNAME}:returns-the-array-unchanged-after-the-loops", ok_ret, "the statement after the loop nest is `return sites_time`",
         None if ok_ret else f"returns: {rets}")
    # node ages: unconstrained -> nodes_time_unconstrained(tree_sequence), else tree_sequence.nodes_time, bound once each
    binds = [(ast.unparse(n.value)) for n in ast.walk(fn.node) if isinstance(n, ast.Assign) and ast.unparse(n.targets[0]) == "nodes_time"]
    sel_if = [n for n in top if isinstance(n, ast.If) and ast.unparse(n.test) == "unconstrained"]
    ok_src = (len(sel_if) == 1 and sorted(binds) == ["nodes_time_unconstrained(tree_sequence)", "tree_sequence.nodes_time"]
              and "nodes_time_unconstrained(tree_sequence)" in ast.unparse(sel_if[0].body[0])
              and [ast.unparse(s) for s in sel_if[0].orelse] == ["nodes_time = tree_sequence.nodes_time"])
    g.ob(f"{FNAME}:ages-come-from-mn-metadata-iff-unconstrained", ok_src,
         "nodes_time = nodes_time_unconstrained(tree_sequence) if unconstrained else tree_sequence.nodes_time, and nothing else binds it",
         None if ok_src else f"bindings of nodes_time: {binds}")

    cell0 = MV(z3.Bool("cell_is_nan"), z3.Real("cell"))
    for sel in SELECTIONS:
        # ---- B1: one mutation
        name = f"{FNAME}:mutation-step-is-running-maximum-of-the-{sel}-age"
        clause = (f"node_selection == '{sel}': forall cell (NaN or real), node, parent-or-NULL, ages:  cell' == AGE if cell is NaN else "
                  f"max(cell, AGE),  AGE = age[node] if parent is NULL else " +
                  {"child": "age[node]", "parent": "age[parent]", "arithmetic": "(age[node] + age[parent]) / 2",
                   "geometric": "sqrt(age[node] * age[parent])"}[sel])
        try:
            finals = _block(lm.body, [([], {"<cell>": cell0})], sel)
        except Stuck as e:
            g.ob(name, False, clause, f"the evaluator cannot follow {e}", verdict="does-not-attach")
            continue
        age = _spec_age(sel)
        want_val = z3.If(cell0.nan, age, z3.If(cell0.val < age, age, cell0.val))
        bad = None
        for pc, env in finals:
            c1 = env["<cell>"]
            s = z3.Solver()
            s.set("timeout", 20000)
            s.add(PARENT >= -1, NODE >= 0, *pc)
            s.add(z3.Or(c1.nan, c1.val != want_val))
            r = s.check()
            if r == z3.sat:
                m = s.model()
                bad = ("counter-model: " + _fmt(m, [("cell_is_nan", cell0.nan), ("cell", cell0.val), ("parent", PARENT),
                                                     ("age[node]", NT(NODE)), ("age[parent]", NT(PARENT)), ("sqrt(age[node]*age[parent])", SQRT(NT(NODE) * NT(PARENT)))])
                       + f"  ->  cell' is_nan={m.eval(c1.nan, True)} value={m.eval(c1.val, True)}, specified {m.eval(want_val, True)}")
                break
            if r == z3.unknown:
                bad = "unknown"
                break
        if bad == "unknown":
            g.ob(name, False, clause, "z3 returned unknown", verdict="unknown")
        else:
            g.ob(name, not bad, clause + f"   [z3, {len(finals)} path(s) of the real body]", bad)
    # ---- B2: clamp (does not depend on node_selection; run with each anyway in case the code starts to)
    name = f"{FNAME}:site-time-raised-to-min-time-and-nan-kept"
    clause = "after the mutation loop: cell' is NaN iff cell is NaN, else cell' == max(cell, min_time)"
    try:
        bad = None
        npaths = 0
        for sel in SELECTIONS:
            finals = _block(ls.body[1:], [([], {"<cell>": cell0})], sel)
            npaths += len(finals)
            M = z3.Real("min_time")
            for pc, env in finals:
                c1 = env["<cell>"]
                s = z3.Solver()
                s.set("timeout", 20000)
                s.add(*pc)
                s.add(z3.Or(c1.nan != cell0.nan, z3.And(z3.Not(cell0.nan), c1.val != z3.If(cell0.val < M, M, cell0.val))))
                r = s.check()
                if r == z3.sat:
                    m = s.model()
                    bad = ("counter-model: " + _fmt(m, [("cell_is_nan", cell0.nan), ("cell", cell0.val), ("min_time", M)])
                           + f"  ->  cell' is_nan={m.eval(c1.nan, True)} value={m.eval(c1.val, True)}")
                    break
                if r == z3.unknown:
                    bad = "unknown"
                    break
            if bad:
                break
        if bad == "unknown":
            g.ob(name, False, clause, "z3 returned unknown", verdict="unknown")
        else:
            g.ob(name, not bad, clause + f"   [z3, {npaths} path(s)]", bad)
    except Stuck as e:
        g.ob(name, False, clause, f"the evaluator cannot follow {e}", verdict="does-not-attach")
