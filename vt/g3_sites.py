"""G3 + z3 obligations for util.sites_time_from_ts (C31): the per-mutation update and the min_time clamp of the
REAL loop bodies, symbolically executed over 'maybe-NaN reals' and compared with the rule in the property statement.

    for tree in tree_sequence.trees():
        for site in tree.sites():
            for mutation in site.mutations:      <- body B1: one step of a running maximum of AGE(mutation)
                ...
            ...                                  <- rest  B2: raise to at least min_time (NaN stays NaN)

Specification (from the statement, not from the code):
    AGE = nodes_time[node]                                   if selection == child  or the node is a root in this tree
          nodes_time[parent]                                 if selection == parent
          (nodes_time[node] + nodes_time[parent]) / 2        if selection == arithmetic
          sqrt(nodes_time[node] * nodes_time[parent])        if selection == geometric
    step : cell' == AGE if cell is NaN else max(cell, AGE)   (so after all mutations: the largest AGE; NaN iff none)
    clamp: cell' == cell if cell is NaN else max(cell, min_time)
The induction from `step` to "largest over the site's mutations" is over the list site.mutations (A-TS-API: every
site belongs to exactly one local tree, site.mutations lists exactly its mutations, tree.parent(u) is the node above u
there or tskit.NULL).  Node ages are assumed not NaN (A-TS-API / finite `mn` metadata); sqrt is uninterpreted.

Anything the small evaluator cannot follow gives `does-not-attach` (undecided), never a violation."""
import ast

import z3

from . import extract

FNAME = "util.sites_time_from_ts"
SELECTIONS = ("child", "parent", "arithmetic", "geometric")


class Stuck(Exception):
    pass


class MV:
    """maybe-NaN real"""
    def __init__(self, nan, val):
        self.nan, self.val = nan, val


NT = z3.Function("nodes_time", z3.IntSort(), z3.RealSort())
SQRT = z3.Function("sqrt", z3.RealSort(), z3.RealSort())
NODE, PARENT = z3.Int("mutation_node"), z3.Int("tree_parent_of_mutation_node")
CELL_TXT = "sites_time[site.id]"


def _ev(e, env, sel):
    t = ast.unparse(e)
    if t == CELL_TXT:
        return env["<cell>"]
    if t == "mutation.node":
        return NODE
    if t == "tree.parent(mutation.node)":
        return PARENT
    if t == "tskit.NULL":
        return z3.IntVal(-1)
    if t == "min_time":
        return MV(z3.BoolVal(False), z3.Real("min_time"))
    if isinstance(e, ast.Name):
        if e.id == "node_selection":
            return sel
        if e.id in env:
            return env[e.id]
        raise Stuck(f"unbound name {e.id}")
    if isinstance(e, ast.Constant):
        if isinstance(e.value, str):
            return e.value
        if isinstance(e.value, (int, float)) and not isinstance(e.value, bool):
            return MV(z3.BoolVal(False), z3.RealVal(repr(e.value)))
    if isinstance(e, ast.Subscript) and ast.unparse(e.value) == "nodes_time":
        i = _ev(e.slice, env, sel)
        if not z3.is_int(i):
            raise Stuck(f"nodes_time index {t}")
        return MV(z3.BoolVal(False), NT(i))
    if isinstance(e, ast.BinOp) and isinstance(e.op, (ast.Add, ast.Sub, ast.Mult, ast.Div)):
        a, b = _ev(e.left, env, sel), _ev(e.right, env, sel)
        if not (isinstance(a, MV) and isinstance(b, MV)):
            raise Stuck(f"arithmetic on {t}")
        if isinstance(e.op, ast.Div):
            if not (z3.is_rational_value(b.val) and b.val.as_fraction() != 0):
                raise Stuck(f"division by a non-constant in {t}")
            v = a.val / b.val
        else:
            v = {ast.Add: a.val + b.val, ast.Sub: a.val - b.val, ast.Mult: a.val * b.val}[type(e.op)]
        return MV(z3.Or(a.nan, b.nan), v)
    if isinstance(e, ast.Call) and ast.unparse(e.func) in ("np.sqrt", "math.sqrt") and len(e.args) == 1:
        a = _ev(e.args[0], env, sel)
        if not isinstance(a, MV):
            raise Stuck(t)
        return MV(a.nan, SQRT(a.val))
    if isinstance(e, ast.Call) and ast.unparse(e.func) in ("max", "np.maximum", "min", "np.minimum") and len(e.args) == 2 and not e.keywords:
        # builtin max/min(a, b): the comparison decides; NaN operands make it order dependent -> refuse
        a, b = _ev(e.args[0], env, sel), _ev(e.args[1], env, sel)
        if not (isinstance(a, MV) and isinstance(b, MV)) or not (z3.is_false(z3.simplify(a.nan)) and z3.is_false(z3.simplify(b.nan))):
            raise Stuck(f"max/min with a possibly-NaN operand in {t}")
        big = "max" in ast.unparse(e.func)
        return MV(z3.BoolVal(False), z3.If((a.val >= b.val) if big else (a.val <= b.val), a.val, b.val))
    raise Stuck(f"expression `{t}`")


def _cond(e, env, sel):
    if isinstance(e, ast.BoolOp):
        cs = [_cond(v, env, sel) for v in e.values]
        return z3.Or(*cs) if isinstance(e.op, ast.Or) else z3.And(*cs)
    if isinstance(e, ast.UnaryOp) and isinstance(e.op, ast.Not):
        return z3.Not(_cond(e.operand, env, sel))
    if isinstance(e, ast.Call) and ast.unparse(e.func) in ("np.isnan", "math.isnan") and len(e.args) == 1:
        a = _ev(e.args[0], env, sel)
        if not isinstance(a, MV):
            raise Stuck(ast.unparse(e))
        return a.nan
    if isinstance(e, ast.Compare) and len(e.ops) == 1:
        a, b = _ev(e.left, env, sel), _ev(e.comparators[0], env, sel)
        op = type(e.ops[0])
        if isinstance(a, str) and isinstance(b, str) and op in (ast.Eq, ast.NotEq):
            return z3.BoolVal((a == b) == (op is ast.Eq))
        if not isinstance(a, (MV, str)) and not isinstance(b, (MV, str)) and z3.is_int(a) and z3.is_int(b):
            r = {ast.Eq: a == b, ast.NotEq: a != b, ast.Lt: a < b, ast.LtE: a <= b, ast.Gt: a > b, ast.GtE: a >= b}.get(op)
            if r is not None:
                return r
        if isinstance(a, MV) and isinstance(b, MV):
            r = {ast.Lt: a.val < b.val, ast.LtE: a.val <= b.val, ast.Gt: a.val > b.val, ast.GtE: a.val >= b.val,
                 ast.Eq: a.val == b.val}.get(op)
            if r is not None:  # IEEE: every ordered comparison with a NaN is False
                return z3.And(z3.Not(a.nan), z3.Not(b.nan), r)
            if op is ast.NotEq:
                return z3.Or(a.nan, b.nan, a.val != b.val)
    raise Stuck(f"condition `{ast.unparse(e)}`")


def _block(stmts, states, sel):
    """states: list of (path condition list, env).  Returns the final states."""
    for st in stmts:
        nxt = []
        for pc, env in states:
            if isinstance(st, ast.Assign) and len(st.targets) == 1:
                tgt = ast.unparse(st.targets[0])
                v = _ev(st.value, env, sel)
                env = dict(env)
                if tgt == CELL_TXT:
                    if not isinstance(v, MV):
                        raise Stuck(f"store of a non-number into {CELL_TXT}")
                    env["<cell>"] = v
                elif isinstance(st.targets[0], ast.Name):
                    env[tgt] = v
                else:
                    raise Stuck(f"store into `{tgt}`")
                nxt.append((pc, env))
            elif isinstance(st, ast.If):
                c = z3.simplify(_cond(st.test, env, sel))
                if z3.is_true(c):
                    nxt += _block(st.body, [(pc, env)], sel)
                elif z3.is_false(c):
                    nxt += _block(st.orelse, [(pc, env)], sel)
                else:
                    nxt += _block(st.body, [(pc + [c], env)], sel) + _block(st.orelse, [(pc + [z3.Not(c)], env)], sel)
            elif isinstance(st, ast.Expr) and isinstance(st.value, ast.Constant):
                nxt.append((pc, env))
            elif isinstance(st, ast.Pass):
                nxt.append((pc, env))
            else:
                raise Stuck(f"statement `{ast.unparse(st)[:60]}`")
        states = nxt
    return states


def _spec_age(sel):
    n, p = NT(NODE), NT(PARENT)
    by_sel = {"child": n, "parent": p, "arithmetic": (n + p) / 2, "geometric": SQRT(n * p)}[sel]
    return z3.If(PARENT == -1, n, by_sel)


def _fmt(m, xs):
    return ", ".join(f"{k}={m.eval(v, model_completion=True)}" for k, v in xs)


def site_time_rule(g):
    try:
        fn = extract.get_function(FNAME)
    except LookupError as e:
        g.ob(f"{FNAME}:attach", False, "function exists", str(e), verdict="does-not-attach")
        return
    g.ctx.functions.append({**fn.describe(), "mode": "G3 + z3: symbolic execution of the two real loop bodies over maybe-NaN reals"})
    g.ctx.add_assumption("C31/A-TS-API: tree_sequence.trees() x tree.sites() x site.mutations visits every mutation of every site "
                         "exactly once, in the local tree that covers the site; tree.parent(u) is the node above u there or tskit.NULL")
    g.ctx.add_assumption("C31: node ages (nodes_time, `mn` metadata) are not NaN; sqrt is uninterpreted (A-MATH); A-REAL")
    fors = [n for n in ast.walk(fn.node) if isinstance(n, ast.For)]
    by_iter = {ast.unparse(n.iter): n for n in fors}
    lt, ls, lm = by_iter.get("tree_sequence.trees()"), by_iter.get("tree.sites()"), by_iter.get("site.mutations")
    nest = (lt is not None and ls is not None and lm is not None and ls in lt.body and lm in ls.body
            and len(lt.body) == 1 and ls.body[0] is lm and not lt.orelse and not ls.orelse and not lm.orelse
            and ast.unparse(lt.target) == "tree" and ast.unparse(ls.target) == "site" and ast.unparse(lm.target) == "mutation")
    g.ob(f"{FNAME}:loop-nest-visits-every-mutation-of-every-site", nest,
         "the only loops are  for tree in tree_sequence.trees(): for site in tree.sites(): for mutation in site.mutations: B1; B2  "
         "(no break / continue / else; the mutation loop is the first statement of the site loop)",
         None if nest else f"loops found: {sorted(by_iter)}", verdict=None if nest else "does-not-attach")
    if not nest:
        return
    jumps = [type(n).__name__ for n in ast.walk(lt) if isinstance(n, (ast.Break, ast.Continue, ast.Return))]
    g.ob(f"{FNAME}:no-early-exit-from-the-loops", not jumps, "no break / continue / return inside the loop nest",
         None if not jumps else f"found {jumps}")
    # frame: sites_time is created all-NaN with one cell per site, written only at [site.id] inside the nest, and returned
    top = fn.node.body
    inits = [s for s in top if isinstance(s, ast.Assign) and ast.unparse(s.targets[0]) == "sites_time"]
    ok_init = len(inits) == 1 and ast.unparse(inits[0].value).replace(" ", "") in (
        "np.full(tree_sequence.num_sites,np.nan)", "np.full(tree_sequence.num_sites,np.nan,dtype=np.float64)",
        "np.full(tree_sequence.num_sites,np.nan,dtype=float)")
    g.ob(f"{FNAME}:starts-all-nan-one-cell-per-site", ok_init, "sites_time = np.full(tree_sequence.num_sites, np.nan), assigned once",
         None if ok_init else f"initialisations: {[ast.unparse(s) for s in inits]}")
    stores = [ast.unparse(t) for n in ast.walk(fn.node) if isinstance(n, (ast.Assign, ast.AugAssign))
              for t in (n.targets if isinstance(n, ast.Assign) else [n.target]) if ast.unparse(t).startswith("sites_time[")]
    outside = [ast.unparse(t) for s in top if s is not lt for n in ast.walk(s) if isinstance(n, (ast.Assign, ast.AugAssign))
               for t in (n.targets if isinstance(n, ast.Assign) else [n.target]) if ast.unparse(t).startswith("sites_time[")]
    ok_frame = all(s == CELL_TXT for s in stores) and not outside
    g.ob(f"{FNAME}:writes-only-the-current-site-cell", ok_frame, f"every store into sites_time is `{CELL_TXT} = ...` inside the loop nest",
         None if ok_frame else f"stores: {stores}; outside the nest: {outside}")
    rets = [ast.unparse(n.value) if n.value else "None" for n in ast.walk(fn.node) if isinstance(n, ast.Return)]
    after = top[top.index(lt) + 1:] if lt in top else None
    ok_ret = rets == ["sites_time"] and after is not None and len(after) == 1 and isinstance(after[0], ast.Return)
    g.ob(f"{FNAME}:returns-the-array-unchanged-after-the-loops", ok_ret, "the statement after the loop nest is `return sites_time`",
         None if ok_ret else f"returns: {rets}")
    # node ages: unconstrained -> nodes_time_unconstrained(tree_sequence), else tree_sequence.nodes_time, bound once each
    binds = [(ast.unparse(n.value)) for n in ast.walk(fn.node) if isinstance(n, ast.Assign) and ast.unparse(n.targets[0]) == "nodes_time"]
    sel_if = [n for n in top if isinstance(n, ast.If) and ast.unparse(n.test) == "unconstrained"]
    ok_src = (len(sel_if) == 1 and sorted(binds) == ["nodes_time_unconstrained(tree_sequence)", "tree_sequence.nodes_time"]
              and "nodes_time_unconstrained(tree_sequence)" in ast.unparse(sel_if[0].body[0])
              and [ast.unparse(s) for s in sel_if[0].orelse] == ["nodes_time = tree_sequence.nodes_time"])
    g.ob(f"{FNAME}:ages-come-from-mn-metadata-iff-unconstrained", ok_src,
         "nodes_time = nodes_time_unconstrained(tree_sequence) if unconstrained else tree_sequence.nodes_time, and nothing else binds it",
         None if ok_src else f"bindings of nodes_time: {binds}")

    cell0 = MV(z3.Bool("cell_is_nan"), z3.Real("cell"))
    for sel in SELECTIONS:
        # ---- B1: one mutation
        name = f"{FNAME}:mutation-step-is-running-maximum-of-the-{sel}-age"
        clause = (f"node_selection == '{sel}': forall cell (NaN or real), node, parent-or-NULL, ages:  cell' == AGE if cell is NaN else "
                  f"max(cell, AGE),  AGE = age[node] if parent is NULL else " +
                  {"child": "age[node]", "parent": "age[parent]", "arithmetic": "(age[node] + age[parent]) / 2",
                   "geometric": "sqrt(age[node] * age[parent])"}[sel])
        try:
            finals = _block(lm.body, [([], {"<cell>": cell0})], sel)
        except Stuck as e:
            g.ob(name, False, clause, f"the evaluator cannot follow {e}", verdict="does-not-attach")
            continue
        age = _spec_age(sel)
        want_val = z3.If(cell0.nan, age, z3.If(cell0.val < age, age, cell0.val))
        bad = None
        for pc, env in finals:
            c1 = env["<cell>"]
            s = z3.Solver()
            s.set("timeout", 20000)
            s.add(PARENT >= -1, NODE >= 0, *pc)
            s.add(z3.Or(c1.nan, c1.val != want_val))
            r = s.check()
            if r == z3.sat:
                m = s.model()
                bad = ("counter-model: " + _fmt(m, [("cell_is_nan", cell0.nan), ("cell", cell0.val), ("parent", PARENT),
                                                     ("age[node]", NT(NODE)), ("age[parent]", NT(PARENT)), ("sqrt(age[node]*age[parent])", SQRT(NT(NODE) * NT(PARENT)))])
                       + f"  ->  cell' is_nan={m.eval(c1.nan, True)} value={m.eval(c1.val, True)}, specified {m.eval(want_val, True)}")
                break
            if r == z3.unknown:
                bad = "unknown"
                break
        if bad == "unknown":
            g.ob(name, False, clause, "z3 returned unknown", verdict="unknown")
        else:
            g.ob(name, not bad, clause + f"   [z3, {len(finals)} path(s) of the real body]", bad)
    # ---- B2: clamp (does not depend on node_selection; run with each anyway in case the code starts to)
    name = f"{FNAME}:site-time-raised-to-min-time-and-nan-kept"
    clause = "after the mutation loop: cell' is NaN iff cell is NaN, else cell' == max(cell, min_time)"
    try:
        bad = None
        npaths = 0
        for sel in SELECTIONS:
            finals = _block(ls.body[1:], [([], {"<cell>": cell0})], sel)
            npaths += len(finals)
            M = z3.Real("min_time")
            for pc, env in finals:
                c1 = env["<cell>"]
                s = z3.Solver()
                s.set("timeout", 20000)
                s.add(*pc)
                s.add(z3.Or(c1.nan != cell0.nan, z3.And(z3.Not(cell0.nan), c1.val != z3.If(cell0.val < M, M, cell0.val))))
                r = s.check()
                if r == z3.sat:
                    m = s.model()
                    bad = ("counter-model: " + _fmt(m, [("cell_is_nan", cell0.nan), ("cell", cell0.val), ("min_time", M)])
                           + f"  ->  cell' is_nan={m.eval(c1.nan, True)} value={m.eval(c1.val, True)}")
                    break
                if r == z3.unknown:
                    bad = "unknown"
                    break
            if bad:
                break
        if bad == "unknown":
            g.ob(name, False, clause, "z3 returned unknown", verdict="unknown")
        else:
            g.ob(name, not bad, clause + f"   [z3, {npaths} path(s)]", bad)
    except Stuck as e:
        g.ob(name, False, clause, f"the evaluator cannot follow {e}", verdict="does-not-attach")


# =====================================================================================================================
# variational._rescale_factors: from the real statements to the (formerly only assumed) G1 contract, by z3.
#
# Each statement of the real body is given its numpy meaning (A-NUMPY, broadcasting of an (E,) gather over the last
# axis):   factors.F[:, D] *= factors.scale[IDX, np.newaxis]   ==   forall r, k: F'[r, D, k] = F[r, D, k] * scale[IDX[r]]
# (IDX = factors._x gathers, IDX = `:` is the identity), rows with another second index unchanged;
#          factors.scale[:] = c                                 ==   forall n: scale'[n] = c.
# The statements are composed IN THE ORDER OF THE SOURCE (a body that resets scale first fails), and the ensures
# clauses of contracts/variational.py for `_rescale_factors` (the element-wise ones; the ghost-sum clause S is their
# linear combination and stays A-MATH) are discharged against the composed state.
def rescale_factors_contract_from_body(g):
    name = "variational._rescale_factors"
    try:
        fn = extract.get_function(name)
    except LookupError as e:
        g.ob(f"{name}:attach", False, "function exists", str(e), verdict="does-not-attach")
        return
    I, R = z3.IntSort(), z3.RealSort()
    A3 = z3.ArraySort(I, z3.ArraySort(I, z3.ArraySort(I, R)))
    old = {"edge": z3.Const("edge0", A3), "block": z3.Const("block0", A3), "node": z3.Const("node0", A3),
           "scale": z3.Const("scale0", z3.ArraySort(I, R))}
    idx = {n: z3.Const(n, z3.ArraySort(I, I)) for n in ("_p", "_c", "_j", "_k")}
    DIRS = {"ROOTWARD": 0, "LEAFWARD": 1, "MIXPRIOR": 0, "CONSTRNT": 1}
    try:
        consts = extract.module_constants("variational") if hasattr(extract, "module_constants") else {}
    except Exception:  # noqa: BLE001
        consts = {}
    for k in list(DIRS):
        if k in consts:
            DIRS[k] = int(consts[k])
    cur = dict(old)
    defs = []
    nstate = [0]

    def fresh(field, sort):
        nstate[0] += 1
        return z3.Const(f"{field}_{nstate[0]}", sort)
    r, k, d, n = z3.Ints("r k d n")
    body = [s for s in fn.node.body if not (isinstance(s, ast.Expr) and isinstance(s.value, ast.Constant))]
    why = None
    for s in body:
        t = ast.unparse(s)
        if isinstance(s, ast.AugAssign) and isinstance(s.op, ast.Mult) and isinstance(s.target, ast.Subscript) \
                and ast.unparse(s.target.value) in ("factors.edge", "factors.block", "factors.node") \
                and isinstance(s.target.slice, ast.Tuple) and len(s.target.slice.elts) == 2 \
                and ast.unparse(s.target.slice.elts[0]) == ":" and ast.unparse(s.target.slice.elts[1]) in DIRS \
                and isinstance(s.value, ast.Subscript) and ast.unparse(s.value.value) == "factors.scale" \
                and isinstance(s.value.slice, ast.Tuple) and len(s.value.slice.elts) == 2 \
                and ast.unparse(s.value.slice.elts[1]) == "np.newaxis":
            field = ast.unparse(s.target.value).split(".")[1]
            D = DIRS[ast.unparse(s.target.slice.elts[1])]
            gi = ast.unparse(s.value.slice.elts[0])
            if gi == ":":
                row = r
            elif gi.startswith("factors.") and gi.split(".")[1] in idx:
                row = idx[gi.split(".")[1]][r]
            else:
                why = f"gather index `{gi}` in `{t}`"
                break
            new = fresh(field, A3)
            defs.append(z3.ForAll([r, d, k], new[r][d][k] == z3.If(d == D, cur[field][r][d][k] * cur["scale"][row], cur[field][r][d][k])))
            cur[field] = new
        elif isinstance(s, ast.Assign) and ast.unparse(s.targets[0]) == "factors.scale[:]" and isinstance(s.value, ast.Constant) \
                and isinstance(s.value.value, (int, float)):
            new = fresh("scale", z3.ArraySort(I, R))
            defs.append(z3.ForAll([n], new[n] == z3.RealVal(repr(s.value.value))))
            cur["scale"] = new
        else:
            why = f"statement `{t}`"
            break
    if why:
        g.ob(f"{name}:contract-follows-from-the-real-statements", False, "every statement is an in-place broadcast scaling or scale[:] = c",
             f"the statement semantics does not cover {why}", verdict="does-not-attach")
        return
    g.ctx.add_assumption("A-NUMPY (broadcast): `F[:, D] *= s[IDX, np.newaxis]` multiplies F[r, D, k] by s[IDX[r]] for every r, k and "
                         "writes nothing else; `s[:] = c` sets every element (used to derive the _rescale_factors contract from its body)")
    goals = {
        "scale-is-one-afterwards": cur["scale"][n] == 1,
        "edge-messages-multiplied-by-the-scale-of-their-node": z3.And(
            cur["edge"][r][0][k] == old["edge"][r][0][k] * old["scale"][idx["_p"][r]],
            cur["edge"][r][1][k] == old["edge"][r][1][k] * old["scale"][idx["_c"][r]]),
        "block-messages-multiplied-by-the-scale-of-their-node": z3.And(
            cur["block"][r][0][k] == old["block"][r][0][k] * old["scale"][idx["_j"][r]],
            cur["block"][r][1][k] == old["block"][r][1][k] * old["scale"][idx["_k"][r]]),
        "node-factors-multiplied-by-the-scale-of-their-node": z3.And(
            cur["node"][r][0][k] == old["node"][r][0][k] * old["scale"][r],
            cur["node"][r][1][k] == old["node"][r][1][k] * old["scale"][r]),
        "no-other-direction-written": z3.Implies(z3.And(d != 0, d != 1), z3.And(
            cur["edge"][r][d][k] == old["edge"][r][d][k], cur["block"][r][d][k] == old["block"][r][d][k],
            cur["node"][r][d][k] == old["node"][r][d][k])),
    }
    for gname, goal in goals.items():
        s = z3.Solver()
        s.set("timeout", 30000)
        s.add(*defs)
        s.add(z3.Not(goal))
        res = s.check()
        clause = f"statements of the real body (numpy meaning, source order) |- contract clause `{gname}` for all r, k   [z3]"
        if res == z3.unsat:
            g.ob(f"{name}:contract-from-body:{gname}", True, clause)
        elif res == z3.sat:
            g.ob(f"{name}:contract-from-body:{gname}", False, clause, f"counter-model: {str(s.model())[:300]}")
        else:
            g.ob(f"{name}:contract-from-body:{gname}", False, clause, "z3 returned unknown", verdict="unknown")


# =====================================================================================================================
# C30: unary-node detection.  Data-flow contracts of the wrappers (tracer) + statement-level contracts of the kernel.
def _norm(s):
    return "".join(s.split())


def _z3_bool(e, atoms):
    """Boolean structure of a guard over integer atoms (names / subscripts become z3 Int constants, `x[..]` under `not` or
    as a bare operand becomes a Bool constant).  Raises Stuck on anything else."""
    def iv(x):
        if isinstance(x, ast.Constant) and isinstance(x.value, int) and not isinstance(x.value, bool):
            return z3.IntVal(x.value)
        if isinstance(x, (ast.Name, ast.Subscript, ast.Attribute)):
            return atoms.setdefault(("i", _norm(ast.unparse(x))), z3.Int("i_" + _norm(ast.unparse(x))))
        if isinstance(x, ast.BinOp) and isinstance(x.op, (ast.Add, ast.Sub)):
            return iv(x.left) + iv(x.right) if isinstance(x.op, ast.Add) else iv(x.left) - iv(x.right)
        raise Stuck(ast.unparse(x))
    if isinstance(e, ast.BoolOp):
        cs = [_z3_bool(v, atoms) for v in e.values]
        return z3.Or(*cs) if isinstance(e.op, ast.Or) else z3.And(*cs)
    if isinstance(e, ast.UnaryOp) and isinstance(e.op, ast.Not):
        return z3.Not(_z3_bool(e.operand, atoms))
    if isinstance(e, ast.Compare):
        parts, left = [], e.left
        for op, right in zip(e.ops, e.comparators):
            a, b = iv(left), iv(right)
            r = {ast.Eq: a == b, ast.NotEq: a != b, ast.Lt: a < b, ast.LtE: a <= b, ast.Gt: a > b, ast.GtE: a >= b}.get(type(op))
            if r is None:
                raise Stuck(ast.unparse(e))
            parts.append(r)
            left = right
        return z3.And(*parts)
    if isinstance(e, (ast.Name, ast.Subscript)):
        return atoms.setdefault(("b", _norm(ast.unparse(e))), z3.Bool("b_" + _norm(ast.unparse(e))))
    raise Stuck(ast.unparse(e))


def _equiv(g, obname, clause, test_node, want_src, shape_ok=True, shape_why=""):
    """obligation: the real test is logically equivalent to the contracted one (z3); a shape mismatch around it is undecided."""
    if not shape_ok:
        g.ob(obname, False, clause, shape_why, verdict="does-not-attach")
        return
    atoms = {}
    try:
        real = _z3_bool(test_node, atoms)
        want = _z3_bool(ast.parse(want_src, mode="eval").body, atoms)
    except Stuck as e:
        g.ob(obname, False, clause, f"the guard evaluator cannot follow `{e}`", verdict="does-not-attach")
        return
    s = z3.Solver()
    s.add(real != want)
    r = s.check()
    if r == z3.unsat:
        g.ob(obname, True, clause + f"   [z3: real test `{ast.unparse(test_node)}` <=> `{want_src}`]")
    elif r == z3.sat:
        g.ob(obname, False, clause, f"the real test `{ast.unparse(test_node)}` differs from `{want_src}` at {s.model()}")
    else:
        g.ob(obname, False, clause, "z3 unknown", verdict="unknown")


def unary_detection(g):
    from .flow import text_of
    # ---- util.contains_unary_nodes: mask and tables reach the kernel, the kernel's verdict is returned
    name = "util.contains_unary_nodes"
    paths = g.trace(name)
    if paths is not None:
        def pred(p):
            cs = [ev for ev in p.events if ev["kind"] == "call" and ev["func"] == "_contains_unary_nodes"]
            if len(cs) != 1:
                return f"{len(cs)} kernel calls"
            a = [text_of(x) for x in cs[0]["args"]]
            want = ["ts.edges_parent", "ts.edges_left", "ts.edges_right", "ts.indexes_edge_insertion_order",
                    "ts.indexes_edge_removal_order", "ts.sequence_length", "ts.num_nodes"]
            if a[1:] != want or cs[0]["kwargs"]:
                return f"kernel arguments are {a[1:]}"
            fulls = [ev for ev in p.events if ev["kind"] == "call" and ev["func"] == "np.full"
                     and [text_of(x) for x in ev["args"]] == ["ts.num_nodes", "False"]]
            if len(fulls) != 1 or not a[0].startswith("np.full("):
                return f"the mask handed to the kernel is {a[0]}, not an all-False array with one entry per node"
            st = [(ev["target"], text_of(ev["index"]) if not isinstance(ev["index"], str) else ev["index"], text_of(ev["value"]))
                  for ev in p.events if ev["kind"] == "store-item"]
            skip = ("skip_samples", True) in p.conds
            if skip:
                ok = len(st) == 1 and st[0][0] == a[0] and st[0][2] == "True" and st[0][1].startswith("list(") and any(
                    ev["kind"] == "call" and ev["func"] == "list" and [text_of(x) for x in ev["args"]][0].startswith("ts.samples(")
                    for ev in p.events)
                if not ok:
                    return f"with skip_samples the mask stores are {st}, expected exactly mask[list(ts.samples())] = True"
            elif st:
                return f"without skip_samples the mask is written: {st}"
            rets = [text_of(ev["value"]) for ev in p.events if ev["kind"] == "return"]
            if len(rets) != 1 or not rets[0].startswith("_contains_unary_nodes("):
                return f"returns {rets}, not the kernel's verdict"
            return None
        g.forall_paths(f"{name}:exempts-exactly-the-samples-iff-skip_samples-and-returns-kernel-verdict", paths, pred,
                       "mask = all False, set True exactly at ts.samples() iff skip_samples; kernel gets (mask, edges_parent, edges_left, "
                       "edges_right, insertion order, removal order, sequence_length, num_nodes); its result is returned")
    # ---- variational _check_valid_inputs: reject iff (not allow_unary) and a NON-SAMPLE node is unary
    name = "variational.ExpectationPropagation._check_valid_inputs"
    paths = g.trace(name)
    if paths is not None:
        def pred2(p):
            unary_raise = [ev for ev in p.events if ev["kind"] == "raise" and "unary" in ev["text"]]
            calls = [ev for ev in p.events if ev["kind"] == "call" and ev["func"] == "contains_unary_nodes"]
            for c in calls:
                if [text_of(x) for x in c["args"]] != ["ts"] or c["kwargs"]:
                    return f"contains_unary_nodes called as {c['text']} (the default skip_samples=True is the variational rule)"
            conds = [c for c in p.conds if "unary" in c[0]]
            if any(_norm(c[0]) != _norm("not allow_unary and contains_unary_nodes(ts)") for c in conds):
                return f"the guard is `{conds}`"
            if unary_raise and not (conds and conds[-1][1] is True and unary_raise[0]["exc"] == "ValueError"):
                return "unary ValueError raised without the guard being true"
            if conds and conds[-1][1] is True and not unary_raise:
                return "guard true but no ValueError"
            return None
        g.forall_paths(f"{name}:rejects-iff-not-allow_unary-and-detector-true", paths, pred2,
                       "ValueError('... unary ...') <=> not allow_unary and contains_unary_nodes(ts) [skip_samples default]")
        n_guard = sum(1 for p in paths if any("unary" in c[0] for c in p.conds))
        g.ob(f"{name}:guard-reached", n_guard >= 2, "both outcomes of the unary guard are enumerated (vacuity guard)",
             None if n_guard >= 2 else f"{n_guard} path(s) reach the guard", verdict=None if n_guard >= 2 else "unknown")
    # ---- the kernel: statement-level contracts on the real AST
    name = "util._contains_unary_nodes"
    try:
        fn = extract.get_function(name)
    except LookupError as e:
        g.ob(f"{name}:attach", False, "function exists", str(e), verdict="does-not-attach")
        return
    g.ctx.functions.append({**fn.describe(), "mode": "G3 statement-level contracts (the kernel uses a Python set: outside G1's subset)"})
    g.ctx.add_assumption("C30: the sweep structure of _contains_unary_nodes (edges leave at position_remove == left, enter at "
                         "position_insert == left, `left` advances to the next breakpoint) is pinned statement by statement, but that "
                         "these statements visit every local tree is an argument over tskit's insertion / removal orders (A-TS-API), "
                         "not machine-checked; end to end that part is bounded only (rt/bounded_C30.py)")
    writes = []
    for n in ast.walk(fn.node):
        if isinstance(n, (ast.Assign, ast.AugAssign)):
            for t in (n.targets if isinstance(n, ast.Assign) else [n.target]):
                if ast.unparse(t).startswith("nodes_children"):
                    writes.append(_norm(ast.unparse(n)))
    ok_w = sorted(writes) == sorted([_norm("nodes_children = np.zeros(num_nodes, dtype=np.int32)"), _norm("nodes_children[p] -= 1"),
                                     _norm("nodes_children[p] += 1")])
    g.ob(f"{name}:child-counts-start-at-zero-and-change-by-one-per-edge", ok_w,
         "nodes_children is created all zero and written only by `nodes_children[p] -= 1` / `nodes_children[p] += 1`",
         None if ok_w else f"writes: {writes}", verdict=None if ok_w else "does-not-attach")
    whiles = [n for n in ast.walk(fn.node) if isinstance(n, ast.While)]
    inner = {("out" if "position_remove[b] == left" in ast.unparse(w.test) else "in" if "position_insert[a] == left" in ast.unparse(w.test) else None): w
             for w in whiles}
    ok_io, why = True, ""
    for kind, idx, ctr, delta in (("out", "indexes_remove[b]", "b", "-="), ("in", "indexes_insert[a]", "a", "+=")):
        w = inner.get(kind)
        if w is None:
            ok_io, why = False, f"no `{kind}` loop found"
            break
        body = [_norm(ast.unparse(s)) for s in w.body]
        want = [_norm(f"e = {idx}"), _norm("p = edges_parent[e]"), _norm(f"nodes_children[p] {delta} 1"), _norm("check.add(p)"), _norm(f"{ctr} += 1")]
        if body != want:
            ok_io, why = False, f"the edges-{kind} loop body is {body}"
            break
        guard = _norm(ast.unparse(w.test))
        if guard != _norm(f"{ctr} < num_edges and position_{'remove' if kind == 'out' else 'insert'}[{ctr}] == left"):
            ok_io, why = False, f"the edges-{kind} loop guard is {guard}"
            break
    g.ob(f"{name}:every-parent-whose-count-changes-is-rechecked", ok_io,
         "edges out: p = edges_parent[indexes_remove[b]], count[p] -= 1, check.add(p); edges in: p = edges_parent[indexes_insert[a]], "
         "count[p] += 1, check.add(p); nothing else in either loop", why, verdict=None if ok_io else "does-not-attach")
    outer = [w for w in whiles if any(x in ast.walk(w) and x is not w for x in inner.values() if x is not None)]
    tail = [_norm(ast.unparse(s)) for s in outer[0].body[-4:]] if len(outer) == 1 else []
    shape = (len(outer) == 1
             and tail == [_norm("right = sequence_length"), _norm("if b < num_edges:\n    right = min(right, position_remove[b])"),
                          _norm("if a < num_edges:\n    right = min(right, position_insert[a])"), _norm("left = right")]
             and not [n for n in ast.walk(outer[0]) if isinstance(n, (ast.Break, ast.Continue))])
    _equiv(g, f"{name}:sweep-runs-until-every-edge-has-entered-and-left",
           "outer loop guard <=> a < num_edges or b < num_edges (exit => every insertion and removal was processed); `left` advances "
           "to min(sequence_length, next removal, next insertion); no break / continue",
           outer[0].test if len(outer) == 1 else None, "a < num_edges or b < num_edges", shape,
           f"outer loops: {[ast.unparse(w.test) for w in outer]}; advance statements: {tail}")
    rets = [(ast.unparse(n.value) if n.value else "None") for n in ast.walk(fn.node) if isinstance(n, ast.Return)]
    true_rets = [n for n in ast.walk(fn.node) if isinstance(n, ast.If) and any(isinstance(s, ast.Return) for s in n.body)]
    loops_p = [n for n in ast.walk(fn.node) if isinstance(n, ast.For) and ast.unparse(n.iter) == "check" and ast.unparse(n.target) == "p"
               and len(n.body) == 1 and n.body[0] in true_rets]
    shape = (sorted(rets) == ["False", "True"] and len(true_rets) == 1 and not true_rets[0].orelse and len(true_rets[0].body) == 1
             and isinstance(fn.node.body[-1], ast.Return) and ast.unparse(fn.node.body[-1].value) == "False" and len(loops_p) == 1)
    _equiv(g, f"{name}:true-iff-an-unmasked-rechecked-node-has-exactly-one-child",
           "`return True` occurs only as  for p in check: if <test>: return True  with <test> <=> not nodes_mask[p] and nodes_children[p] == 1; "
           "the function otherwise ends with `return False`",
           true_rets[0].test if len(true_rets) == 1 else None, "not nodes_mask[p] and nodes_children[p] == 1", shape,
           f"returns: {rets}; guarded returns: {[ast.unparse(t.test) for t in true_rets]}")
    # ---- discrete-time side: prior.has_locally_unary_nodes and its call site (every node, samples included)
    name = "prior.has_locally_unary_nodes"
    try:
        fn = extract.get_function(name)
    except LookupError as e:
        g.ob(f"{name}:attach", False, "function exists", str(e), verdict="does-not-attach")
        return
    g.ctx.functions.append({**fn.describe(), "mode": "G3 statement-level contract"})
    src = _norm(ast.unparse(ast.Module(body=[s for s in fn.node.body if not (isinstance(s, ast.Expr) and isinstance(s.value, ast.Constant))], type_ignores=[])))
    want = _norm("for tree, ediff in zip(ts.trees(), ts.edge_diffs()):\n"
                 "    changed = {e.parent for edges in (ediff.edges_out, ediff.edges_in) for e in edges}\n"
                 "    if (tree.num_children_array[list(changed)] == 1).any():\n        return True\nreturn False")
    ok = src == want
    g.ob(f"{name}:true-iff-a-parent-of-a-changed-edge-has-one-child-in-that-tree", ok,
         "per local tree: any(num_children[p] == 1 for p in parents of edges entering or leaving at this tree) — no sample exemption; "
         "a node's child count only changes when one of its edges enters or leaves (A-TS-API), so this covers every node of every tree",
         None if ok else "the body differs from the contracted form (undecided, not a violation)", verdict=None if ok else "does-not-attach")
    name = "prior.SpansBySamples.__init__"
    paths = g.trace(name)
    if paths is not None:
        def pred3(p):
            conds = [c for c in p.conds if "unary" in c[0]]
            unary_raise = [ev for ev in p.events if ev["kind"] == "raise" and "unary" in ev["text"]]
            allow = [c for c in p.conds if _norm(c[0]) == _norm("not allow_unary")]
            if unary_raise:
                if not (allow and allow[-1][1] is True and conds and _norm(conds[-1][0]) == _norm("has_locally_unary_nodes(self.ts)") and conds[-1][1] is True):
                    return f"unary ValueError under conditions {p.conds}"
            elif allow and allow[-1][1] is True and conds and conds[-1][1] is True:
                return "detector true and allow_unary false, but no ValueError"
            if allow and allow[-1][1] is True and not conds and p.status != "raise":
                return "allow_unary false but the detector is not consulted"
            return None
        g.forall_paths(f"{name}:rejects-iff-not-allow_unary-and-detector-true", paths, pred3,
                       "ValueError('... unary nodes ...') <=> not allow_unary and has_locally_unary_nodes(self.ts)")


# =====================================================================================================================
# C14: how ConditionalCoalescentTimes.add assembles a table from the G1-verified pieces, and that the exact/approximate
# choice is a function of the call's arguments only (added after the second C14 seed: the flag survived between calls).
def prior_table_assembly(g):
    import re
    from .flow import text_of
    name = "prior.ConditionalCoalescentTimes.add"
    paths = g.trace(name)
    if paths is None:
        return
    work = [p for p in paths if ("total_tips in self.prior_store", True) not in p.conds]

    def T(x):
        return x if isinstance(x, str) else text_of(x)

    def strip(s):
        return re.sub(r"#\d+", "", s)

    def choice(p):
        st = [T(ev["value"]) for ev in p.events if ev["kind"] == "store" and ev["target"] == "self.approximate"]
        explicit = ("approximate is not None", True) in p.conds
        big = [c[1] for c in p.conds if _norm(c[0]) == _norm("total_tips >= DEFAULT_APPROX_PRIOR_SIZE")]
        want = "approximate" if explicit else (str(big[0]) if big else None)
        if want is None:
            return "approximate is None but the size test total_tips >= DEFAULT_APPROX_PRIOR_SIZE was not taken"
        if st != [want]:
            return (f"on this call self.approximate is {'not assigned (the value left by an EARLIER call is used)' if not st else 'assigned ' + str(st)}"
                    f"; the arguments determine it to be {want}")
        return None
    g.forall_paths(f"{name}:exact-or-approximate-is-decided-by-this-call's-arguments-only", work, choice,
                   "every call that builds a table first sets self.approximate := approximate if given, else (total_tips >= "
                   "DEFAULT_APPROX_PRIOR_SIZE); no path reads a value left by an earlier call", only=lambda p: p.status != "raise" or True)

    def rows(p):
        if p.status == "raise":
            return None
        calls = [ev for ev in p.events if ev["kind"] == "call"]
        varc = [ev for ev in calls if ev["func"] in ("self.tau_var_exact", "self.tau_var_lookup")]
        if len(varc) != 1:
            return f"{len(varc)} variance calls"
        approx_true = ("self.approximate", True) in p.conds
        st = [T(ev["value"]) for ev in p.events if ev["kind"] == "store" and ev["target"] == "self.approximate"]
        if st in (["False"], ["True"]) and (st == ["True"]) != approx_true:
            return None  # infeasible combination enumerated by the tracer (constant flag, contrary branch)
        if (varc[0]["func"] == "self.tau_var_lookup") != approx_true:
            return f"variances come from {varc[0]['func']} although self.approximate is {approx_true}"
        va = [strip(T(x)) for x in varc[0]["args"]]
        if va != ["total_tips", "np.arange(...)"]:
            return f"variance call arguments {va}"
        ar = [ev for ev in calls if ev["func"] == "np.arange"]
        if len(ar) != 1 or [_norm(T(x)) for x in ar[0]["args"]] != ["2", _norm("(total_tips Add 1)")]:
            return f"descendant counts are {[ev['text'] for ev in ar]}, not np.arange(2, total_tips + 1)"
        z = [ev for ev in calls if ev["func"] == "zip"]
        if len(z) != 1 or [strip(T(x)) for x in z[0]["args"]] != [varc[0]["func"] + "(...)", "np.arange(...)"]:
            return f"the row loop runs over {[ev['text'] for ev in z]}"
        inl = [ev for ev in p.events if ev.get("in_loop")]
        te = [ev for ev in inl if ev["kind"] == "call" and ev["func"] == "self.tau_expect"]
        fa = [ev for ev in inl if ev["kind"] == "call" and ev["func"] == "self.func_approx"]
        pp = [ev for ev in inl if ev["kind"] == "call" and ev["func"] == "PriorParams"]
        si = [ev for ev in inl if ev["kind"] == "store-item"]
        if not (len(te) == len(fa) == len(pp) == len(si) == 1):
            return f"row body has {len(te)} tau_expect, {len(fa)} func_approx, {len(pp)} PriorParams, {len(si)} stores"
        if [strip(T(x)) for x in te[0]["args"]] != ["elem(zip(...))[1]", "total_tips"]:
            return f"mean is {te[0]['text']} with {[T(x) for x in te[0]['args']]}"
        if [strip(T(x)) for x in fa[0]["args"]] != ["self.tau_expect(...)", "elem(zip(...))[0]"]:
            return f"parameters are {fa[0]['text']} with {[T(x) for x in fa[0]['args']]}"
        kw = {k: strip(T(v)) for k, v in pp[0]["kwargs"].items()}
        if kw != {"alpha": "self.func_approx(...)[0]", "beta": "self.func_approx(...)[1]", "mean": "self.tau_expect(...)", "var": "elem(zip(...))[0]"} or pp[0]["args"]:
            return f"row is PriorParams({kw})"
        if strip(T(si[0]["index"])) != "elem(zip(...))[1]" or not strip(T(si[0]["value"])).startswith("PriorParams(") or not strip(si[0]["target"]).startswith("np.full("):
            return f"row stored as {si[0]['target']}[{T(si[0]['index'])}] = {T(si[0]['value'])}"
        fin = [ev for ev in p.events if ev["kind"] == "store-item" and ev["target"] == "self.prior_store"]
        if len(fin) != 1 or T(fin[0]["index"]) != "total_tips" or not strip(T(fin[0]["value"])).startswith("np.full("):
            return f"table stored as {[(ev['target'], T(ev['index'])) for ev in fin]}"
        return None
    g.forall_paths(f"{name}:row-k-is-(func_approx(tau_expect(k,n),var_k),tau_expect(k,n),var_k)", work, rows,
                   "for k in 2..n: table[k] = PriorParams(alpha, beta = func_approx(tau_expect(k, n), var_k), mean = tau_expect(k, n), "
                   "var = var_k), var = tau_var_exact(n, 2..n) unless self.approximate; the table is stored under prior_store[n]",
                   only=lambda p: p.status != "raise")
    # func_approx is the transform named by prior_distr; tau_var_exact is conditional_coalescent_variance(n)[k]
    name2 = "prior.ConditionalCoalescentTimes.__init__"
    paths2 = g.trace(name2)
    if paths2 is not None:
        def bind(p):
            st = [T(ev["value"]) for ev in p.events if ev["kind"] == "store" and ev["target"] == "self.func_approx"]
            ln = ("prior_distr == 'lognorm'", True) in p.conds
            ga = ("prior_distr == 'gamma'", True) in p.conds
            if p.status == "raise":
                return None
            want = ["lognorm_approx"] if ln else ["gamma_approx"] if ga else None
            if want is None or st != want:
                return f"func_approx bound to {st} under {[c for c in p.conds if 'prior_distr' in c[0]]}"
            return None
        g.forall_paths(f"{name2}:func_approx-is-the-transform-named-by-prior_distr", paths2, bind,
                       "self.func_approx = lognorm_approx if prior_distr == 'lognorm', gamma_approx if 'gamma' (else ValueError)")
    name3 = "prior.ConditionalCoalescentTimes.tau_var_exact"
    paths3 = g.trace(name3)
    if paths3 is not None:
        def tv(p):
            rets = [strip(T(ev["value"])) for ev in p.events if ev["kind"] == "return"]
            cs = [ev for ev in p.events if ev["kind"] == "call" and ev["func"] == "conditional_coalescent_variance"]
            if len(cs) != 1 or [T(x) for x in cs[0]["args"]] != ["total_tips"] or rets != ["conditional_coalescent_variance(...)[all_tips]"]:
                return f"returns {rets}"
            return None
        g.forall_paths(f"{name3}:is-conditional_coalescent_variance(n)[k]", paths3, tv,
                       "tau_var_exact(n, ks) == conditional_coalescent_variance(n)[ks]")


# =====================================================================================================================
# C21: ExpectationPropagation.propagate_prior keeps the bookkeeping identity  posterior[n] == scale[n] * S[n]
# (S = sum of all messages addressed to n; only the MIXPRIOR node factor is rewritten here).  The vectorised body is
# outside G1's subset, so the statements of the REAL body are given their element-wise meaning for one free row i
# (A-NUMPY: boolean-mask / row indexing and broadcasting act row by row) and the identity is discharged by z3 over the
# reals.  `penalty` (result of the EM while-loop) and `eta` (result of posterior_damping, > 0 by the verified contract of
# _rescale) are arbitrary.  Added after the second C21 seed landed in this formerly assumed callee.
def propagate_prior_bookkeeping(g):
    name = "variational.ExpectationPropagation.propagate_prior"
    ob = f"{name}:C21-posterior-equals-scale-times-sum-of-messages-after-prior-update"
    clause = ("forall free row i, k in {0,1}, penalty, eta > 0, scale[i] > 0: posterior[i,k] == scale[i] * S[i,k] before  ==>  "
              "posterior'[i,k] == scale'[i] * (S[i,k] - node[i,MIXPRIOR,k] + node'[i,MIXPRIOR,k]) after")
    try:
        fn = extract.get_function(name)
    except LookupError as e:
        g.ob(f"{name}:attach", False, "function exists", str(e), verdict="does-not-attach")
        return
    g.ctx.functions.append({**fn.describe(), "mode": "G3 + z3: element-wise meaning of the vectorised statements for one free row"})
    R = z3.Real
    st = {"posterior": [R("post0_0"), R("post0_1")], "factor": [R("fac0_0"), R("fac0_1")], "scale": R("scale0")}
    init = {k: (list(v) if isinstance(v, list) else v) for k, v in st.items()}
    S0 = [R("S0_0"), R("S0_1")]
    hyps = [init["scale"] > 0] + [init["posterior"][k] == init["scale"] * S0[k] for k in (0, 1)]
    cnt = [0]

    def comp(ix):
        t = ast.unparse(ix)
        if t in ("0", "1"):
            return int(t)
        raise Stuck(f"component index {t}")

    def ref(e):
        """-> (kind, base, component or None)"""
        base = ast.unparse(e.value)
        el = list(e.slice.elts) if isinstance(e.slice, ast.Tuple) else [e.slice]
        tx = [ast.unparse(x) for x in el]
        if tx[0] not in ("free", "i", ":"):
            raise Stuck(f"row index `{tx[0]}` in {ast.unparse(e)}")
        if base in ("posterior", "cavity"):
            if len(el) == 1:
                return base, None
            if len(el) == 2:
                return base, comp(el[1])
        if base in ("factor", "factors.node"):
            if len(el) >= 2 and tx[1] == "MIXPRIOR":
                return "factor", (None if len(el) == 2 else comp(el[2]))
            if len(el) >= 2 and tx[1] == "CONSTRNT":
                raise Stuck("write/read of the constraint factor")
        if base in ("scale", "factors.scale"):
            if len(el) == 1 or (len(el) == 2 and tx[1] == "np.newaxis"):
                return "scale", None
        raise Stuck(f"reference {ast.unparse(e)}")

    def ev(e):
        if isinstance(e, ast.Constant) and isinstance(e.value, (int, float)) and not isinstance(e.value, bool):
            return z3.RealVal(repr(e.value))
        if isinstance(e, ast.Name):
            if e.id in st and e.id not in ("posterior", "factor", "scale"):
                return st[e.id]
            if e.id == "posterior":
                return list(st["posterior"])
            raise Stuck(f"name {e.id}")
        if isinstance(e, ast.Subscript):
            kind, c = ref(e)
            v = st[kind]
            return v if kind == "scale" else (list(v) if c is None else v[c])
        if isinstance(e, ast.BinOp) and isinstance(e.op, (ast.Add, ast.Sub, ast.Mult, ast.Div)):
            a, b = ev(e.left), ev(e.right)
            f = {ast.Add: lambda x, y: x + y, ast.Sub: lambda x, y: x - y, ast.Mult: lambda x, y: x * y, ast.Div: lambda x, y: x / y}[type(e.op)]
            if isinstance(a, list) or isinstance(b, list):
                a = a if isinstance(a, list) else [a, a]
                b = b if isinstance(b, list) else [b, b]
                return [f(a[0], b[0]), f(a[1], b[1])]
            return f(a, b)
        if isinstance(e, ast.UnaryOp) and isinstance(e.op, ast.USub):
            a = ev(e.operand)
            return [-a[0], -a[1]] if isinstance(a, list) else -a
        raise Stuck(f"expression `{ast.unparse(e)}`")

    def store(target, v):
        kind, c = ref(target)
        if kind == "cavity":
            raise Stuck("store into cavity")
        if kind == "scale":
            if isinstance(v, list):
                raise Stuck("vector stored into scale")
            st["scale"] = v
        elif c is None:
            st[kind] = list(v) if isinstance(v, list) else [v, v]
        else:
            if isinstance(v, list):
                raise Stuck("vector stored into a component")
            st[kind] = list(st[kind])
            st[kind][c] = v

    def tracked_write(node):
        for n in ast.walk(node):
            if isinstance(n, (ast.Assign, ast.AugAssign)):
                for t in (n.targets if isinstance(n, ast.Assign) else [n.target]):
                    for x in ast.walk(t):
                        if isinstance(x, ast.Subscript) and ast.unparse(x.value) in ("posterior", "factor", "scale", "factors.node", "factors.scale", "factors.edge", "factors.block"):
                            return ast.unparse(n)
                        if isinstance(x, ast.Name) and x.id in ("posterior", "factor", "scale", "cavity") and isinstance(t, ast.Name):
                            return ast.unparse(n)
        return None

    def run(stmts):
        for s in stmts:
            if isinstance(s, (ast.FunctionDef, ast.Assert, ast.Pass)) or (isinstance(s, ast.Expr) and isinstance(s.value, ast.Constant)):
                continue
            if isinstance(s, ast.If) and all(isinstance(x, ast.Return) and x.value is None for x in s.body) and not s.orelse:
                continue  # `if not np.any(free): return` -- nothing written on that path
            if isinstance(s, ast.While):
                w = tracked_write(s)
                if w:
                    raise Stuck(f"the EM loop writes tracked state: {w}")
                continue
            if isinstance(s, ast.For) and _norm(ast.unparse(s.iter)) in (_norm("np.flatnonzero(free)"), _norm("np.where(free)[0]")) and ast.unparse(s.target) == "i":
                run(s.body)
                continue
            if isinstance(s, ast.Assign) and len(s.targets) == 1:
                t = s.targets[0]
                tt, vt_ = ast.unparse(t), _norm(ast.unparse(s.value))
                if isinstance(t, ast.Name):
                    if (tt, vt_) in (("factor", "factors.node"), ("scale", "factors.scale")):
                        continue
                    if tt == "cavity":
                        st["cavity"] = ev(s.value)
                        continue
                    if tt == "eta" and isinstance(s.value, ast.Call) and ast.unparse(s.value.func) == "posterior_damping":
                        cnt[0] += 1
                        st["eta"] = z3.Real(f"eta{cnt[0]}")
                        hyps.append(st["eta"] > 0)
                        continue
                    if tt in ("posterior", "factor", "scale"):
                        raise Stuck(f"rebinding `{ast.unparse(s)}`")
                    if tt == "penalty":
                        st["penalty"] = z3.Real("penalty")
                        continue
                    continue  # other locals (shape, rate, itt, delta): only feed `penalty`, which is arbitrary
                if isinstance(t, ast.Tuple) and all(isinstance(x, ast.Name) and x.id not in ("posterior", "factor", "scale", "cavity") for x in t.elts):
                    continue
                if isinstance(t, ast.Subscript):
                    store(t, ev(s.value))
                    continue
            if isinstance(s, ast.AugAssign) and isinstance(s.target, ast.Subscript) and isinstance(s.op, (ast.Mult, ast.Add, ast.Sub, ast.Div)):
                store(s.target, ev(ast.BinOp(left=s.target, op=s.op, right=s.value)))
                continue
            if isinstance(s, ast.AugAssign) and isinstance(s.target, ast.Name) and s.target.id not in ("posterior", "factor", "scale", "cavity"):
                continue
            raise Stuck(f"statement `{ast.unparse(s)[:70]}`")
    try:
        run(fn.node.body)
    except Stuck as e:
        g.ob(ob, False, clause, f"the element-wise evaluator cannot follow {e}", verdict="does-not-attach")
        return
    g.ctx.add_assumption("C21/A-NUMPY: in propagate_prior, X[free, ...] / X[:, ...] / X[i, ...] statements act row by row with "
                         "broadcasting over the last axis; `penalty` and `eta` (> 0, contract of _rescale) are arbitrary reals; A-REAL")
    bad = None
    for k in (1, 0):
        s = z3.Solver()
        s.set("timeout", 30000)
        s.add(*hyps)
        goal = st["posterior"][k] == st["scale"] * (S0[k] - init["factor"][k] + st["factor"][k])
        s.add(z3.Not(goal))
        r = s.check()
        if r == z3.sat:
            m = s.model()
            bad = (bad + " | " if bad else "") + f"component {k}: counter-model " + ", ".join(
                f"{d.name()}={m[d]}" for d in m.decls() if d.arity() == 0)[:300]
        if r == z3.unknown:
            g.ob(ob, False, clause, "z3 unknown", verdict="unknown")
            return
    g.ob(ob, not bad, clause + "   [z3, real body statement by statement]", bad)
    pos = None
    s = z3.Solver()
    s.add(*hyps)
    s.add(z3.Not(st["scale"] > 0))
    pos = s.check() == z3.unsat
    g.ob(f"{name}:scale-stays-positive", pos, "scale'[i] > 0 (scale[i] > 0, eta > 0)", None if pos else "scale' may be <= 0")


# =====================================================================================================================
# C31 (rest): nodes_time_unconstrained and add_sampledata_times -- data-flow contracts over all enumerated paths.
def site_time_helpers(g):
    import re
    from .flow import text_of

    def T(x):
        return x if isinstance(x, str) else text_of(x)

    def strip(s):
        return re.sub(r"#\d+", "", s)
    name = "util.nodes_time_unconstrained"
    paths = g.trace(name)
    if paths is not None:
        def pred(p):
            copies = [ev for ev in p.events if ev["kind"] == "call" and ev["func"] == "tree_sequence.nodes_time.copy"]
            if len(copies) != 1:
                return "the result does not start as a copy of tree_sequence.nodes_time"
            loops = [strip(ev["over"]) for ev in p.events if ev["kind"] == "loop"]
            unp = [[strip(T(a)) for a in ev["args"]] for ev in p.events if ev["kind"] == "call" and ev["func"] == "tskit.unpack_bytes"]
            if loops != ["enumerate(...)"] or unp != [["tree_sequence.tables.nodes.metadata", "tree_sequence.tables.nodes.metadata_offset"]]:
                return f"the loop is over {loops} of unpack_bytes{unp}, not over (index, metadata row) of the node table"
            st = [ev for ev in p.events if ev["kind"] == "store-item"]
            nons = [c for c in p.conds if _norm(c[0]) == _norm("index not in tree_sequence.samples()")]
            if not nons:
                return "the sample test `index not in tree_sequence.samples()` is not taken"
            if nons[-1][1] is False and st:
                return f"a sample node's time is overwritten: {[(strip(s['target']), strip(T(s['index']))) for s in st]}"
            if nons[-1][1] is True:
                if len(st) != 1:
                    return f"{len(st)} stores for a non-sample node"
                s = st[0]
                if not strip(s["target"]).startswith("tree_sequence.nodes_time.copy(") or strip(T(s["index"])) != "elem(enumerate(...))[0]" \
                        or strip(T(s["value"])) != "json.loads(...)['mn']":
                    return f"non-sample node gets {strip(s['target'])}[{strip(T(s['index']))}] = {strip(T(s['value']))}"
                jl = [[strip(T(a)) for a in ev["args"]] for ev in p.events if ev["kind"] == "call" and ev["func"] == "json.loads"]
                if jl != [["elem(enumerate(...))[1].decode(...)"]]:
                    return f"json.loads is applied to {jl}, not to this node's metadata row"
            if p.status == "return":
                rets = [strip(T(ev["value"])) for ev in p.events if ev["kind"] == "return"]
                if rets != ["tree_sequence.nodes_time.copy(...)"]:
                    return f"returns {rets}"
            elif p.status == "raise":
                rs = [ev["exc"] for ev in p.events if ev["kind"] == "raise"]
                if rs != ["ValueError"]:
                    return f"raises {rs}"
            return None
        if not any(_norm(c[0]) == _norm("index not in tree_sequence.samples()") for p in paths for c in p.conds):
            g.ob(f"{name}:non-sample-ages-are-the-mn-field-sample-ages-are-kept", False, "sample test recognised",
                 "the sample test is not written as `index not in tree_sequence.samples()`; its meaning is not decided here",
                 verdict="does-not-attach")
            paths = None
        g.forall_paths(f"{name}:non-sample-ages-are-the-mn-field-sample-ages-are-kept", paths, pred,
                       "result = copy of nodes_time; for every node id not in samples(): result[id] = json(metadata row id)['mn']; sample "
                       "rows untouched; a row without `mn` / undecodable raises ValueError; the input array is not written")
    name = "util.add_sampledata_times"
    paths = g.trace(name)
    if paths is not None:
        def pred2(p):
            if p.status == "raise":
                ok = ("samples.num_sites != len(sites_time)", True) in p.conds and [ev["exc"] for ev in p.events if ev["kind"] == "raise"] == ["ValueError"]
                return None if ok else f"raises under {p.conds}"
            mx = [[strip(T(a)) for a in ev["args"]] for ev in p.events if ev["kind"] == "call" and ev["func"] in ("np.maximum", "np.fmax")]
            ms = [ev for ev in p.events if ev["kind"] == "call" and ev["func"] == "samples.min_site_times"]
            if len(ms) != 1 or {k: T(v) for k, v in ms[0]["kwargs"].items()} != {"individuals_only": "True"} or ms[0]["args"]:
                return "the bound is not samples.min_site_times(individuals_only=True)"
            if len(mx) != 1 or sorted(mx[0]) != sorted(["sites_time", "samples.min_site_times(...)"]) or any(
                    ev["func"] == "np.fmax" for ev in p.events if ev["kind"] == "call"):
                return f"site times are combined as {mx}, not np.maximum(sites_time, bound)"
            st = [(strip(ev["target"]), T(ev["index"]), strip(T(ev["value"]))) for ev in p.events if ev["kind"] == "store-item"]
            if st != [("samples.copy(...).sites_time", ":", "np.maximum(...)")]:
                return f"stores: {st}"
            rets = [strip(T(ev["value"])) for ev in p.events if ev["kind"] == "return"]
            fin = [ev for ev in p.events if ev["kind"] == "call" and strip(ev["func"]) == "samples.copy(...).finalise"]
            if rets != ["samples.copy(...)"] or len(fin) != 1:
                return f"returns {rets} (finalise calls: {len(fin)})"
            return None
        g.forall_paths(f"{name}:site-time-is-max-of-estimate-and-oldest-historical-carrier", paths, pred2,
                       "copy.sites_time[:] = np.maximum(sites_time, samples.min_site_times(individuals_only=True)) on a copy that is "
                       "finalised and returned; a length mismatch raises ValueError; `samples` itself is not written")


# =====================================================================================================================
# C22: frame of the singleton re-phasing.  Mutation nodes are only ever changed by ExpectationPropagation.infer, only
# at mutations that belong to a singleton block, and only to the child end of one of the two edges of THAT block.
def phase_switch_frame(g):
    import re
    from .flow import text_of

    def T(x):
        return x if isinstance(x, str) else text_of(x)

    def strip(s):
        return re.sub(r"#\d+", "", s)
    cls = "variational.ExpectationPropagation"
    # (a) which methods of the class write self.mutation_nodes at all (AST scan of the real class)
    try:
        fn_init = extract.get_function(f"{cls}.__init__")
        mod = extract.get_module("variational") if hasattr(extract, "get_module") else None
    except LookupError as e:
        g.ob(f"{cls}:attach", False, "class exists", str(e), verdict="does-not-attach")
        return
    import os
    src_path = os.path.join(os.environ.get("VERIF_REPO", "/repo"), "tsdate", "variational.py")
    tree = ast.parse(open(src_path).read())
    writers = set()
    for c in [n for n in tree.body if isinstance(n, ast.ClassDef) and n.name == "ExpectationPropagation"]:
        for m in [n for n in c.body if isinstance(n, ast.FunctionDef)]:
            for n in ast.walk(m):
                if isinstance(n, (ast.Assign, ast.AugAssign)):
                    for t in (n.targets if isinstance(n, ast.Assign) else [n.target]):
                        for x in ast.walk(t):
                            if isinstance(x, ast.Attribute) and x.attr == "mutation_nodes":
                                writers.add(m.name)
                if isinstance(n, ast.Call) and any(isinstance(a, ast.Attribute) and a.attr == "mutation_nodes" for a in n.args):
                    writers.add(m.name + " (passed to " + ast.unparse(n.func) + ")")
    ok = writers == {"__init__", "infer"}
    g.ob(f"{cls}:only-__init__-and-infer-write-mutation_nodes", ok,
         "self.mutation_nodes is assigned only in __init__ and infer and is never handed to a callee that could write it",
         None if ok else f"writers: {sorted(writers)}")
    # (b) __init__: starts as a COPY of the input's mutation nodes; blocks come from block_singletons(ts, ~phased mask)
    paths = g.trace(f"{cls}.__init__")
    if paths is not None:
        def init_pred(p):
            if p.status == "raise":
                return None
            st = [strip(T(ev["value"])) for ev in p.events if ev["kind"] == "store" and ev["target"] == "self.mutation_nodes"]
            if st != ["ts.mutations_node.copy(...)"]:
                return f"self.mutation_nodes initialised as {st}"
            bl = [strip(T(ev["value"])) for ev in p.events if ev["kind"] == "store" and ev["target"] == "self.mutation_blocks"]
            if bl != ["block_singletons(...)[2]"]:
                return f"self.mutation_blocks initialised as {bl}"
            bs = [ev for ev in p.events if ev["kind"] == "call" and ev["func"] == "block_singletons"]
            full = [[T(a) for a in ev["args"]] for ev in p.events if ev["kind"] == "call" and ev["func"] == "np.full"
                    and [T(a) for a in ev["args"]][:1] == ["ts.num_individuals"]]
            if len(bs) != 1 or full != [["ts.num_individuals", "singletons_phased"]]:
                return f"block_singletons calls: {[ev['text'] for ev in bs]}; phased mask: {full}"
            a = [strip(T(x)) for x in bs[0]["args"]]
            if a[0] != "ts" or "Invert" not in a[1] and "~" not in a[1]:
                return f"block_singletons arguments {a} (expected ts and the complement of the phased mask)"
            return None
        g.forall_paths(f"{cls}.__init__:mutation-nodes-start-as-a-copy-and-blocks-come-from-the-unphased-mask", paths, init_pred,
                       "self.mutation_nodes = ts.mutations_node.copy(); self.mutation_blocks = block_singletons(ts, ~np.full(num_individuals, "
                       "singletons_phased))[2]  (so with singletons_phased=True no individual is unphased)")
    # (c) infer: the one store
    paths = g.trace(f"{cls}.infer")
    if paths is not None:
        def inf_pred(p):
            if p.status == "raise":
                return None
            st = [ev for ev in p.events if ev["kind"] == "store-item" and ev["target"] == "self.mutation_nodes"]
            if len(st) != 1:
                return f"{len(st)} stores into self.mutation_nodes"
            if _norm(T(st[0]["index"])) != _norm("self.mutation_blocks != tskit.NULL"):
                return f"mutation nodes written at `{T(st[0]['index'])}`, not exactly at the mutations that belong to a singleton block"
            if strip(T(st[0]["value"])) != "self.edge_children[np.where(...)]":
                return f"new node is {strip(T(st[0]['value']))}, not the child end of the chosen block edge"
            w = [ev for ev in p.events if ev["kind"] == "call" and ev["func"] == "np.where" and len(ev["args"]) == 3]
            if len(w) != 1:
                return f"{len(w)} three-argument np.where calls"
            a = [_norm(strip(T(x))) for x in w[0]["args"]]
            blk = _norm("self.mutation_blocks[self.mutation_blocks != tskit.NULL]")
            e1, e0 = _norm(f"self.block_edges[({blk}, 1)]"), _norm(f"self.block_edges[({blk}, 0)]")
            alt = {a[1].replace("(", "").replace(")", ""), a[2].replace("(", "").replace(")", "")}
            if alt != {e1.replace("(", "").replace(")", ""), e0.replace("(", "").replace(")", "")}:
                return f"the candidate edges are {a[1]} / {a[2]}, not the two edges of the mutation's own block"
            return None
        g.forall_paths(f"{cls}.infer:re-phasing-moves-only-block-singletons-to-a-child-of-their-own-block", paths, inf_pred,
                       "the only write: mutation_nodes[blocks != NULL] = edge_children[where(.., block_edges[block, 1], block_edges[block, 0])] "
                       "with block = mutation_blocks of the same mutation")


# =====================================================================================================================
# C15 (last clause): "each node's mixture prior mean and variance are the span-weighted mixture moments of the
# corresponding coalescent priors" -- ConditionalCoalescentTimes.mixture_expect_and_var.
#
# Specification: over all (N, k) components with weight w, prior mean m and prior variance v,
#       mean = sum(w m) / sum(w),      var = sum(w (v + m^2)) / sum(w) - mean^2            (law of total variance)
# with w = span (default) or log(span + 1) (weight_by_log_span).  The real loop body is executed symbolically for a
# generic dictionary item: every `np.sum(<element-wise expression>)` is classified by proving (z3, for all m, v, w) that
# its element-wise expression equals one of  m w, v w, m^2 w, w, (v + m^2) w ;  each accumulator must then grow by a
# fixed linear combination of these per-item sums (loop invariant: accumulator = that combination of the running
# totals), start at 0, and the statements after the loop must give the specified mean / variance from the totals.
def mixture_moments(g):
    name = "prior.ConditionalCoalescentTimes.mixture_expect_and_var"
    try:
        fn = extract.get_function(name)
    except LookupError as e:
        g.ob(f"{name}:attach", False, "function exists", str(e), verdict="does-not-attach")
        return
    g.ctx.functions.append({**fn.describe(), "mode": "G3 + z3: symbolic execution of the real loop body for a generic mixture component"})
    g.ctx.add_assumption("C15/A-NUMPY: np.sum of an element-wise expression over the component arrays is the sum of that expression; "
                         "self[N][tips, column] reads the stored prior mean / variance of the listed components (A-REAL)")
    m, v, w = z3.Reals("m v w")
    BASIS = {"mw": m * w, "vw": v * w, "mmw": m * m * w, "w": w}
    TOT = {k: z3.Real("total_" + k) for k in BASIS}      # running totals over the items seen so far
    ITEM = {k: z3.Real("item_" + k) for k in BASIS}      # the sums over the current item
    LOGW = z3.Function("log", z3.RealSort(), z3.RealSort())
    loops = [n for n in fn.node.body if isinstance(n, ast.For)]
    if len(loops) != 1 or _norm(ast.unparse(loops[0].iter)) != _norm("mixture.items()"):
        g.ob(f"{name}:mixture-moments", False, "one loop over mixture.items()", f"loops: {[ast.unparse(n.iter) for n in loops]}", verdict="does-not-attach")
        return
    loop = loops[0]
    pre = fn.node.body[:fn.node.body.index(loop)]
    post = fn.node.body[fn.node.body.index(loop) + 1:]

    class El:  # element-wise value: a z3 Real expression over (m, v, w)
        def __init__(self, e):
            self.e = e

    def ev(e, env, flag):
        t = _norm(ast.unparse(e))
        if isinstance(e, ast.Constant) and isinstance(e.value, (int, float)) and not isinstance(e.value, bool):
            return z3.RealVal(repr(e.value))
        if isinstance(e, ast.Name):
            if e.id == "weight_by_log_span":
                return flag
            if e.id in env:
                return env[e.id]
            raise Stuck(f"name {e.id}")
        if t == _norm("self[N][tip_dict['descendant_tips'], self.mean_column]"):
            return El(m)
        if t == _norm("self[N][tip_dict['descendant_tips'], self.var_column]"):
            return El(v)
        if t == _norm("tip_dict['span']"):
            return El(z3.Real("span"))
        if isinstance(e, ast.IfExp):
            c = ev(e.test, env, flag)
            if not isinstance(c, bool):
                raise Stuck(f"condition {t}")
            return ev(e.body if c else e.orelse, env, flag)
        if isinstance(e, ast.Call) and ast.unparse(e.func) == "np.log" and len(e.args) == 1:
            a = ev(e.args[0], env, flag)
            if isinstance(a, El):
                return El(LOGW(a.e))
            raise Stuck(t)
        if isinstance(e, ast.Call) and ast.unparse(e.func) == "np.sum" and len(e.args) == 1 and not e.keywords:
            a = ev(e.args[0], env, flag)
            if not isinstance(a, El):
                raise Stuck(f"np.sum of a non-array {t}")
            # classify: a.e (with the weight symbol substituted) == linear combination of the basis, found by trying basis sums
            cands = {"mw": BASIS["mw"], "vw": BASIS["vw"], "mmw": BASIS["mmw"], "w": BASIS["w"],
                     "vw+mmw": BASIS["vw"] + BASIS["mmw"]}
            for k, b in cands.items():
                s = z3.Solver()
                s.set("timeout", 10000)
                s.add(a.e != b)
                if s.check() == z3.unsat:
                    return ITEM["vw"] + ITEM["mmw"] if k == "vw+mmw" else ITEM[k]
            raise Stuck(f"np.sum({ast.unparse(e.args[0])}) is none of sum(m w), sum(v w), sum(m^2 w), sum(w)")
        if isinstance(e, ast.BinOp) and isinstance(e.op, (ast.Add, ast.Sub, ast.Mult, ast.Div, ast.Pow)):
            a, b = ev(e.left, env, flag), ev(e.right, env, flag)
            ae, be = (a.e if isinstance(a, El) else a), (b.e if isinstance(b, El) else b)
            if isinstance(e.op, ast.Pow):
                if not (z3.is_rational_value(be) and be.as_fraction() == 2):
                    raise Stuck(f"power in {t}")
                r = ae * ae
            else:
                r = {ast.Add: lambda: ae + be, ast.Sub: lambda: ae - be, ast.Mult: lambda: ae * be, ast.Div: lambda: ae / be}[type(e.op)]()
            return El(r) if isinstance(a, El) or isinstance(b, El) else r
        if isinstance(e, ast.Tuple):
            return tuple(ev(x, env, flag) for x in e.elts)
        raise Stuck(f"expression `{ast.unparse(e)}`")

    def run(stmts, env, flag):
        for s in stmts:
            if isinstance(s, ast.Expr) and isinstance(s.value, ast.Constant):
                continue
            if isinstance(s, ast.Assign):
                val = ev(s.value, env, flag)
                for t in s.targets:
                    if isinstance(t, ast.Name):
                        env[t.id] = val
                    elif isinstance(t, ast.Tuple) and isinstance(val, tuple) and len(val) == len(t.elts):
                        for x, y in zip(t.elts, val):
                            env[x.id] = y
                    else:
                        raise Stuck(f"assignment `{ast.unparse(s)}`")
                continue
            if isinstance(s, ast.AugAssign) and isinstance(s.target, ast.Name) and isinstance(s.op, (ast.Add, ast.Sub)):
                a, b = env.get(s.target.id), ev(s.value, env, flag)
                if a is None or isinstance(b, El) or isinstance(a, El):
                    raise Stuck(f"`{ast.unparse(s)}`")
                env[s.target.id] = a + b if isinstance(s.op, ast.Add) else a - b
                continue
            if isinstance(s, ast.Return):
                env["<ret>"] = ev(s.value, env, flag)
                continue
            raise Stuck(f"statement `{ast.unparse(s)[:60]}`")
        return env
    for flag in (False, True):
        ob = f"{name}:mixture-moments-are-the-weighted-moments[weight_by_log_span={flag}]"
        clause = ("mean == sum(w m)/sum(w), var == sum(w (v + m^2))/sum(w) - mean^2 over all components, w = "
                  + ("log(span + 1)" if flag else "span") + "   [z3: accumulators start at 0, grow by the per-item sums, final formulas]")
        try:
            env0 = run(pre, {}, flag)
            accs = [k for k, val in env0.items() if z3.is_expr(val)]
            # the weight must be the specified one: evaluate `w` for this flag and compare with span / log(span+1)
            envb = dict(env0)
            # body with accumulators as opaque symbols
            sym = {a: z3.Real("acc_" + a) for a in accs}
            envb.update(sym)
            # bind the element-wise weight symbol: after executing the body, env['w'] holds the code's weight expression
            probe = run([s for s in loop.body if isinstance(s, ast.Assign)], dict(envb), flag)
            wexpr = probe.get("w")
            span = z3.Real("span")
            want_w = LOGW(span + 1) if flag else span
            s = z3.Solver()
            if not isinstance(wexpr, El):
                raise Stuck("the weight `w` is not an element-wise value")
            s.add(wexpr.e != want_w)
            if s.check() != z3.unsat:
                g.ob(ob, False, clause, f"the weight is {wexpr.e}, specified {want_w}")
                continue
            # now run the body with w as the generic weight symbol
            class _W(ast.NodeTransformer):
                pass
            body_env = dict(envb)
            stmts = []
            for st_ in loop.body:
                if isinstance(st_, ast.Assign) and len(st_.targets) == 1 and ast.unparse(st_.targets[0]) == "w":
                    body_env["w"] = El(w)
                    continue
                stmts.append(st_)
            # execute statements in order, inserting w when its assignment is reached
            env1 = dict(envb)
            for st_ in loop.body:
                if isinstance(st_, ast.Assign) and len(st_.targets) == 1 and ast.unparse(st_.targets[0]) == "w":
                    env1["w"] = El(w)
                else:
                    env1 = run([st_], env1, flag)
            bad = None
            zero = [env0[a] for a in accs]
            sol = z3.Solver()
            sol.add(z3.Or(*[z != 0 for z in zero]) if zero else z3.BoolVal(True))
            if not zero or sol.check() != z3.unsat:
                bad = f"accumulators {accs} do not all start at 0"
            inc = {a: z3.simplify(env1[a] - sym[a]) for a in accs}
            # after the loop: accumulator = increment with item sums replaced by totals (induction over the items)
            sub = [(ITEM[k], TOT[k]) for k in BASIS]
            envp = dict(env0)
            for a in accs:
                envp[a] = z3.substitute(inc[a], *sub)
                if any(str(sym[b]) in str(inc[a]) for b in accs):
                    bad = bad or f"the increment of `{a}` depends on an accumulator: {inc[a]}"
            envp = run(post, envp, flag)
            ret = envp.get("<ret>")
            if not (isinstance(ret, tuple) and len(ret) == 2):
                raise Stuck("the function does not return (mean, var)")
            A, B, C, D = TOT["mw"], TOT["vw"], TOT["mmw"], TOT["w"]
            s = z3.Solver()
            s.set("timeout", 20000)
            s.add(D > 0)
            s.add(z3.Or(ret[0] != A / D, ret[1] != (B + C) / D - (A / D) * (A / D)))
            r = s.check()
            if r == z3.sat and not bad:
                mdl = s.model()
                bad = "counter-model over the totals: " + ", ".join(f"{d.name()}={mdl[d]}" for d in mdl.decls() if d.arity() == 0)
            elif r == z3.unknown and not bad:
                g.ob(ob, False, clause, "z3 unknown", verdict="unknown")
                continue
            g.ob(ob, not bad, clause, bad)
        except Stuck as e:
            g.ob(ob, False, clause, f"the evaluator cannot follow {e}", verdict="does-not-attach")
