"""
Two-tier treatment of IEEE-754 arithmetic in mode fp64.

Tier 1 (VCs): + - * / on doubles are *uninterpreted* functions fadd/fsub/fmul/fdiv over the
Float64 sort; comparisons, constants, negation, NaN/inf tests stay interpreted (cheap).  What a VC
may use about the arithmetic is exactly the lemma instances below, added by pattern.

Tier 2 (this file): every lemma is itself an obligation, discharged bit-precisely by z3's
FloatingPoint theory with the real fp.add / fp.sub / ... (round-nearest-even) on every run.
So nothing about floating point is assumed beyond IEEE-754 conformance of the host.
"""
import z3

F = z3.Float64()
RM = z3.RNE()
UF = {n: z3.Function(n, F, F, F) for n in ("fadd", "fsub", "fmul", "fdiv")}
REAL = {"fadd": lambda a, b: z3.fpAdd(RM, a, b), "fsub": lambda a, b: z3.fpSub(RM, a, b),
        "fmul": lambda a, b: z3.fpMul(RM, a, b), "fdiv": lambda a, b: z3.fpDiv(RM, a, b)}

PINF = z3.FPVal(float("inf"), F)
NINF = z3.FPVal(float("-inf"), F)
ZERO = z3.FPVal(0.0, F)


class Kit:
    """Constants of one IEEE format (lemmas are format-generic; binary64 is what the code uses)."""

    def __init__(self, sort):
        self.F = sort
        self.PINF = z3.FPVal(float("inf"), sort)
        self.NINF = z3.FPVal(float("-inf"), sort)
        self.ZERO = z3.FPVal(0.0, sort)
        self.TWO = z3.FPVal(2.0, sort)


K64 = Kit(F)


def nn(x):
    return z3.Not(z3.fpIsNaN(x))


def fin(x):
    return z3.And(z3.Not(z3.fpIsNaN(x)), z3.Not(z3.fpIsInf(x)))


class Lemma:
    def __init__(self, name, ops, body, doc, hard=False):
        self.hard = hard  # two rounded operations: binary64 is beyond the solvers' budget
        self.name = name
        self.ops = ops  # tuple of op names; the lemma talks about op_k(args_k)
        self.body = body  # body(O, *args) with O = dict of op implementations
        self.doc = doc

    def nargs(self):
        return self.body.__code__.co_argcount - 2


LEMMAS = [
    Lemma("fadd-no-nan", ("fadd",),
          lambda O, K, x, y: z3.Implies(z3.And(nn(x), nn(y), z3.Not(z3.And(x == K.PINF, y == K.NINF)),
                                            z3.Not(z3.And(x == K.NINF, y == K.PINF))), nn(O["fadd"](x, y))),
          "the sum of two non-NaN doubles that are not opposite infinities is not NaN"),
    Lemma("fadd-nonneg-increases", ("fadd",),
          lambda O, K, x, y: z3.Implies(z3.And(nn(x), z3.fpGEQ(y, K.ZERO), z3.Or(z3.fpGT(x, K.NINF), z3.fpLT(y, K.PINF))),
                                     z3.fpGEQ(O["fadd"](x, y), x)),
          "x not NaN, y >= 0, not (-inf + inf)  =>  fl(x + y) >= x  (monotone rounding)"),
    Lemma("fadd-zero-identity", ("fadd",),
          lambda O, K, x, y: z3.Implies(z3.And(nn(x), z3.fpEQ(y, K.ZERO)), z3.fpEQ(O["fadd"](x, y), x)),
          "x + (+-0) == x"),
    Lemma("fadd-finite-pos-finite-or-inf", ("fadd",),
          lambda O, K, x, y: z3.Implies(z3.And(fin(x), fin(y)), nn(O["fadd"](x, y))),
          "finite + finite is never NaN"),
    Lemma("fsub-zero-identity", ("fsub",),
          lambda O, K, x, y: z3.Implies(z3.And(nn(x), z3.fpEQ(y, K.ZERO)), z3.fpEQ(O["fsub"](x, y), x)),
          "x - (+-0) == x"),
    Lemma("fsub-sign", ("fsub",),
          lambda O, K, x, y: z3.Implies(z3.fpLT(x, y), z3.Not(z3.fpGT(O["fsub"](x, y), K.ZERO))),
          "x < y  =>  not (fl(x - y) > 0)"),
    Lemma("fsub-sign-pos", ("fsub",),
          lambda O, K, x, y: z3.Implies(z3.And(fin(x), fin(y), z3.fpGT(O["fsub"](x, y), K.ZERO)), z3.fpGT(x, y)),
          "fl(x - y) > 0 for finite x, y  =>  x > y"),
    Lemma("fsub-gap-vs-fadd", ("fsub", "fadd"),
          lambda O, K, p, c, e: z3.Implies(z3.And(fin(p), fin(c), fin(e), z3.fpGT(e, K.ZERO),
                                               z3.fpGT(O["fsub"](p, c), e)),
                                        z3.And(z3.fpGEQ(p, O["fadd"](c, e)), z3.fpGT(p, c))),
          "fl(p - c) > e > 0  =>  p >= fl(c + e) and p > c   (the early-return test implies both C01 clauses)",
          hard=True),
    # numerically equal operands (fp.eq) are either identical or zeros of different sign; together with
    # congruence of the uninterpreted functions these two facts give "fp.eq operands => fp.eq results"
    Lemma("fadd-zero-left-identity", ("fadd",),
          lambda O, K, x, y: z3.Implies(z3.And(z3.fpIsZero(x), nn(y)), z3.fpEQ(O["fadd"](x, y), y)),
          "(+-0) + y == y"),
    Lemma("fsub-zero-left-negates", ("fsub",),
          lambda O, K, x, y: z3.Implies(z3.And(z3.fpIsZero(x), nn(y)), z3.fpEQ(O["fsub"](x, y), z3.fpNeg(y))),
          "(+-0) - y == -y"),
    Lemma("fdiv-by-two-sign", ("fdiv",),
          lambda O, K, x, y: z3.Implies(z3.And(nn(x), y == K.TWO), nn(O["fdiv"](x, y))),
          "x / 2 is NaN only if x is"),
]

# argument pattern of the multi-op lemma: fsub(p, c) and fadd(c, e) share c
MULTI_SHAPE = {"fsub-gap-vs-fadd": lambda fsub_app, fadd_app: (
    (fsub_app.arg(0), fsub_app.arg(1), fadd_app.arg(1)) if fsub_app.arg(1).eq(fadd_app.arg(0)) else None)}


ASSUMED_NOTE = ("A-FP-MONO: lemma '{name}' (monotonicity of two correctly rounded operations) is proved "
                "bit-precisely for IEEE binary16{b32} on this run; the binary64 instance exceeds the solver "
                "budget (z3 300 s, cvc5 600 s tried) and is ASSUMED")


def real_ops(sort):
    return {"fadd": lambda a, b: z3.fpAdd(RM, a, b), "fsub": lambda a, b: z3.fpSub(RM, a, b),
            "fmul": lambda a, b: z3.fpMul(RM, a, b), "fdiv": lambda a, b: z3.fpDiv(RM, a, b)}


def lemma_obligations(tier="quick"):
    """Bit-precise proof obligations (name, formula-to-refute, doc) and notes on what stays assumed."""
    out, notes = [], []
    for lem in LEMMAS:
        n = lem.nargs()
        if lem.hard:
            fmts = [("binary16", z3.FPSort(5, 11))] + ([("binary32", z3.FPSort(8, 24))] if tier == "thorough" else [])
            for label, srt in fmts:
                xs = [z3.Const(f"x{k}", srt) for k in range(n)]
                out.append((f"fp-lemma:{lem.name}@{label}", z3.Not(lem.body(real_ops(srt), Kit(srt), *xs)), lem.doc))
            notes.append(ASSUMED_NOTE.format(name=lem.name, b32=" and binary32" if tier == "thorough" else ""))
            continue
        xs = [z3.Const(f"x{k}", F) for k in range(n)]
        out.append((f"fp-lemma:{lem.name}", z3.Not(lem.body(REAL, K64, *xs)), lem.doc))
    # successor lemma used by the minimal-push specification (no arithmetic involved)
    x, s, y = z3.Consts("x s y", F)
    nxt = z3.Function("nextafter_up", F, F)
    r = nxt(x)
    ok = z3.And(nn(x), z3.fpLT(x, PINF))
    ax = z3.And(z3.Implies(ok, z3.fpGT(r, x)), z3.Implies(z3.And(ok, z3.fpGT(y, x)), z3.fpGEQ(y, r)))
    m = z3.If(z3.fpGT(r, s), r, s)
    goal = z3.Implies(z3.And(ok, nn(s)), z3.And(z3.fpGT(m, x), z3.fpGEQ(m, s),
                                                 z3.Implies(z3.And(z3.fpGT(y, x), z3.fpGEQ(y, s)), z3.fpGEQ(y, m))))
    out.append(("fp-lemma:least-is-max-of-sum-and-successor", z3.And(ax, z3.Not(goal)),
                "max(s, succ(x)) is the least double that is > x and >= s"))
    return out, notes


def lemma_axioms(ground, inst):
    """Instantiate the lemmas (abstract form) at every matching application in `ground`."""
    from .inst import collect_apps2
    apps = {n: collect_apps2(ground, n) for n in UF}
    out = []
    for lem in LEMMAS:
        if len(lem.ops) == 1:
            for a in apps[lem.ops[0]]:
                out.append(lem.body(UF, K64, a.arg(0), a.arg(1)))
        else:
            shape = MULTI_SHAPE[lem.name]
            if len(apps[lem.ops[0]]) * len(apps[lem.ops[1]]) > 10000:
                continue
            for a in apps[lem.ops[0]]:
                for b in apps[lem.ops[1]]:
                    args = shape(a, b)
                    if args is not None:
                        out.append(lem.body(UF, K64, *args))
    return out
