"""Discharge obligations: z3 (python API, per-obligation process pool) then cvc5 / z3-4.8 CLIs."""
import multiprocessing as mp
import os
import re
import subprocess
import tempfile
import time

import z3


class Result:
    def __init__(self, name, verdict, backend, seconds, model=None, reason="", kind="", text="", lineno=0,
                 func="", smt2=None):
        self.name = name
        self.verdict = verdict  # proved | refuted | unknown | cover-ok | cover-fail
        self.backend = backend
        self.seconds = seconds
        self.model = model or {}
        self.reason = reason
        self.kind = kind
        self.text = text
        self.lineno = lineno
        self.func = func
        self.smt2 = smt2

    def to_json(self):
        return {"name": self.name, "kind": self.kind, "verdict": self.verdict, "backend": self.backend,
                "solver_s": round(self.seconds, 3), "clause": self.text, "line": self.lineno,
                **({"reason": self.reason} if self.reason else {})}


def to_smt2(ob):
    s = z3.Solver()
    for a in ob.assumptions:
        s.add(a)
    s.add(z3.Not(ob.goal))
    return s.to_smt2()


def _model_value(m, term):
    try:
        v = m.eval(term, model_completion=True)
    except z3.Z3Exception:
        return None
    if z3.is_int_value(v):
        return v.as_long()
    if z3.is_rational_value(v):
        return float(v.numerator_as_long()) / float(v.denominator_as_long())
    if z3.is_algebraic_value(v):
        return float(v.approx(20).as_fraction())
    if z3.is_true(v):
        return True
    if z3.is_false(v):
        return False
    if z3.is_fp(v):
        if z3.is_fp_value(v):
            if v.isNaN():
                return "nan"
            if v.isInf():
                return "-inf" if v.isNegative() else "inf"
            r = z3.simplify(z3.fpToReal(v))
            from fractions import Fraction
            f = float(Fraction(r.numerator_as_long(), r.denominator_as_long()))
            if f == 0.0 and v.isNegative():
                f = -0.0
            return f
    return str(v)


def _extract_model(m, inputs):
    """inputs: list of dicts {name, z3name, ndim, shape:[z3names or ints], kind}"""
    out = {}
    decls = {d.name(): d for d in m.decls()}

    def const(nm):
        d = decls.get(nm)
        return d() if d is not None and d.arity() == 0 else None

    for inp in inputs:
        nm = inp["z3name"]
        if inp["ndim"] == 0:
            c = const(nm)
            out[inp["name"]] = _model_value(m, c) if c is not None else None
            continue
        shape = []
        for s in inp["shape"]:
            if isinstance(s, int):
                shape.append(s)
            else:
                c = const(s)
                shape.append(_model_value(m, c) if c is not None else 0)
        shape = [min(int(x or 0), 64) for x in shape]
        c = const(nm)
        if c is None:
            out[inp["name"]] = {"shape": shape, "data": None}
            continue

        def rec(term, dims):
            if not dims:
                return _model_value(m, term)
            return [rec(z3.Select(term, k), dims[1:]) for k in range(dims[0])]
        out[inp["name"]] = {"shape": shape, "data": rec(c, shape)}
    return out


def _solve(args):
    name, smt2, timeout_ms, expect, inputs, opts = args
    if opts.get("int_goal"):
        # first try with the real-valued assumptions dropped; only `unsat` can be trusted from that attempt
        r = _solve_inner((name, smt2, timeout_ms, expect, None, opts))
        if r[1] == "unsat":
            return r
        opts = {k: v for k, v in opts.items() if k != "int_goal"}
    return _solve_inner((name, smt2, timeout_ms, expect, inputs, opts))


def _solve_inner(args):
    name, smt2, timeout_ms, expect, inputs, opts = args
    t0 = time.time()
    try:
        # NB: z3 term helpers use the main context; each worker is a separate process
        s0 = z3.Solver()
        s0.from_string(smt2)
        fs = list(s0.assertions())
        backend = "z3-5.1"
        if opts.get("int_goal") and fs:
            # index-bound / integer goals: real-valued facts are irrelevant; dropping assumptions is sound
            keep = [f for f in fs[:-1] if not _mentions_real(f)]
            fs = keep + [fs[-1]]
        cand_model = None
        if opts.get("raw"):
            s = z3.Solver()
            s.set("timeout", timeout_ms)
            s.add(*fs)
            r = s.check()
            return (name, "unsat" if r == z3.unsat else ("sat" if r == z3.sat else "unknown"), time.time() - t0, None,
                    "" if r != z3.unknown else s.reason_unknown(), "z3-5.1(fp bit-precise)", {})
        if opts.get("instantiate", True):
            from .inst import Instantiator, nextafter_axioms, relevance_stages
            inst = Instantiator(rounds=opts.get("rounds", 3))
            axioms = []
            if "nextafter_up" in smt2:
                axioms.append(nextafter_axioms(z3.Float64()))
            if "fadd" in smt2 or "fsub" in smt2 or "fmul" in smt2 or "fdiv" in smt2:
                from .fplemmas import lemma_axioms
                axioms.append(lemma_axioms)
            ground = inst.run_formulas(fs, axioms, goal_index=len(fs) - 1 if expect == "unsat" else None)
            stages = list(relevance_stages(ground, inst.goal_flat)) if expect == "unsat" else [ground]
            r = z3.unknown
            s = None
            if expect == "unsat":
                cases0 = _index_cases(stages[-1], inst.goal_flat)
                if cases0:
                    all_unsat = True
                    for extra in cases0:
                        if _portfolio_check(list(stages[-1]) + list(extra), timeout_ms) != z3.unsat:
                            all_unsat = False
                            break
                    if all_unsat:
                        inst.stats["case_split"] = len(cases0)
                        return (name, "unsat", time.time() - t0, None, "", f"z3-5.1+inst+split({len(cases0)})", inst.stats)
            for k, subset in enumerate(stages):
                last = k == len(stages) - 1
                s = z3.Solver()
                # the direct attempts get a modest share of the budget; the case split below gets the rest
                s.set("timeout", max(2000, timeout_ms // 3) if last else max(2000, timeout_ms // 6))
                s.add(*subset)
                r = s.check()
                if r == z3.unsat:
                    inst.stats["stage"] = f"{k + 1}/{len(stages)}"
                    inst.stats["formulas"] = len(subset)
                    return (name, "unsat", time.time() - t0, None, "", "z3-5.1+inst", inst.stats)
            if False and r == z3.unknown and expect == "unsat":
                cases = _index_cases(stages[-1], inst.goal_flat)
                if cases:
                    all_unsat = True
                    for extra in cases:
                        sc = z3.Solver()
                        sc.set("timeout", timeout_ms)
                        sc.add(*stages[-1])
                        sc.add(*extra)
                        rc = sc.check()
                        if rc != z3.unsat:
                            all_unsat = False
                            break
                    if all_unsat:
                        inst.stats["case_split"] = len(cases)
                        return (name, "unsat", time.time() - t0, None, "", f"z3-5.1+inst+split({len(cases)})", inst.stats)
            if r == z3.sat:
                if inputs is not None and expect == "unsat":
                    try:
                        cand_model = _extract_model(s.model(), inputs)
                    except Exception as e:
                        cand_model = {"_error": repr(e)}
                if expect == "sat":
                    return (name, "sat", time.time() - t0, None, "", "z3-5.1+inst", inst.stats)
            # fall through to the quantified query (short budget when we already have a candidate)
            # (a candidate model of the instantiated VC is not a refutation: the quantified query gets a real budget)
            budget = min(timeout_ms, opts.get("full_ms", 8000) if cand_model is None else max(8000, timeout_ms // 2))
        else:
            budget = timeout_ms
        s = z3.Solver()
        s.set("timeout", budget)
        s.add(*fs)
        if "nextafter_up" in smt2:
            f64 = z3.Float64()
            f = z3.Function("nextafter_up", f64, f64)
            x, y = z3.Consts("x!ax y!ax", f64)
            pinf = z3.FPVal(float("inf"), f64)
            ok = z3.And(z3.Not(z3.fpIsNaN(x)), z3.fpLT(x, pinf))
            s.add(z3.ForAll([x], z3.Implies(ok, z3.fpGT(f(x), x)), patterns=[f(x)]))
            s.add(z3.ForAll([x, y], z3.Implies(z3.And(ok, z3.fpGT(y, x)), z3.fpGEQ(y, f(x))), patterns=[z3.MultiPattern(f(x), z3.fpGT(y, x))]))
        r = s.check()
        dt = time.time() - t0
        if r == z3.unsat:
            return (name, "unsat", dt, None, "", backend, {})
        if r == z3.sat:
            model = None
            if inputs is not None and expect == "unsat":
                try:
                    model = _extract_model(s.model(), inputs)
                except Exception as e:  # model extraction is best effort
                    model = {"_error": repr(e)}
            return (name, "sat", dt, model, "", backend, {})
        if cand_model is not None:
            return (name, "sat-candidate", dt, cand_model, "counter-model of the instantiated VC only", "z3-5.1+inst", {})
        return (name, "unknown", dt, None, s.reason_unknown(), backend, {})
    except Exception as e:
        import traceback
        return (name, "error", time.time() - t0, None, repr(e) + traceback.format_exc()[-400:], "z3-5.1", {})


def _portfolio_check(formulas, timeout_ms):
    """Nonlinear queries are very seed-sensitive: a few short attempts with different seeds, then one long one."""
    attempts = [(0, min(timeout_ms, 15000)), (7, min(timeout_ms, 15000)), (23, min(timeout_ms, 30000)), (0, timeout_ms)]
    r = z3.unknown
    for seed, to in attempts:
        sc = z3.Solver()
        sc.set("timeout", int(to))
        sc.set("random_seed", seed)
        sc.add(*formulas)
        r = sc.check()
        if r != z3.unknown:
            return r
    return r


_real_cache = {}


def _mentions_real(f):
    k = f.get_id()
    if k in _real_cache:
        return _real_cache[k]
    seen = set()
    found = False
    stack = [f]
    while stack and not found:
        t = stack.pop()
        i = t.get_id()
        if i in seen:
            continue
        seen.add(i)
        if z3.is_quantifier(t):
            stack.append(t.body())
            continue
        srt = t.sort()
        if srt.kind() in (z3.Z3_REAL_SORT, z3.Z3_FLOATING_POINT_SORT):
            found = True
            break
        stack.extend(t.children())
    _real_cache[k] = found
    return found


def _index_cases(ground, goal_ids):
    """Cases  g == w_1 | ... | g == w_k | g distinct from all  for the first goal skolem index g and the
    indices w_i at which arrays are written (Store) in the query."""
    goal = [f for f in ground if f.get_id() in goal_ids]
    sk = {}
    writes = {}
    seen = set()

    def visit(t, in_goal):
        key = (t.get_id(), in_goal)
        if key in seen:
            return
        seen.add(key)
        if z3.is_app(t):
            k = t.decl().kind()
            if in_goal and k == z3.Z3_OP_UNINTERPRETED and t.num_args() == 0 and t.sort() == z3.IntSort() and "!" in t.decl().name():
                sk[t.get_id()] = t
            if k == z3.Z3_OP_STORE and t.arg(1).sort() == z3.IntSort() and not z3.is_int_value(t.arg(1)):
                writes[t.arg(1).get_id()] = t.arg(1)
            for c in t.children():
                visit(c, in_goal)
    for f in goal:
        visit(f, True)
    for f in ground:
        visit(f, False)
    # skolems that are themselves loop counters etc. are not useful: prefer names starting with the quantified variable
    import re as _re
    cands = [t for t in sk.values() if t.get_id() not in writes and _re.search(r"!\d+!\d+$", t.decl().name())]
    if not cands or not writes or len(writes) > 6:
        return []
    g = sorted(cands, key=lambda t: t.decl().name())[0]
    # only indices of the same inferred index sort (node ids vs edge ids ...) are worth comparing
    from .inst import Typing
    ty = Typing()
    for f in ground:
        ty.visit(f, [])
    gc = ty.term_class(g)
    ws = [w for w in writes.values() if ty.term_class(w) == gc]
    if not ws:
        return []
    cases = [[g == w] for w in ws]
    cases.append([g != w for w in ws])
    return cases


def _extract_model_ctx(m, inputs, ctx):
    # z3 helper predicates use the term's own context, so the generic extractor works
    return _extract_model(m, inputs)


def _cli(cmd, smt2, timeout_s):
    with tempfile.NamedTemporaryFile("w", suffix=".smt2", delete=False, dir=os.environ.get("TMPDIR", "/tmp")) as f:
        f.write(smt2)
        if "(check-sat)" not in smt2:
            f.write("\n(check-sat)\n")
        path = f.name
    t0 = time.time()
    try:
        p = subprocess.run(cmd + [path], capture_output=True, text=True, timeout=timeout_s + 5)
        out = p.stdout.strip().splitlines()
        r = out[0].strip() if out else "unknown"
        if r not in ("sat", "unsat"):
            r = "unknown"
        return r, time.time() - t0
    except subprocess.TimeoutExpired:
        return "unknown", time.time() - t0
    finally:
        os.unlink(path)


def _fallback(args):
    name, smt2, timeout_s = args
    for label, cmd in (("cvc5-1.0.3", ["/usr/bin/cvc5", f"--tlimit={int(timeout_s * 1000)}", "--fp-exp"]),
                       ("z3-4.8.12", ["/usr/bin/z3", f"-T:{int(timeout_s)}"])):
        r, dt = _cli(cmd, smt2, timeout_s)
        if r in ("sat", "unsat"):
            return (name, r, dt, label)
    return (name, "unknown", 0.0, "none")


CACHE_DIR = os.path.join(os.path.dirname(os.path.dirname(os.path.abspath(__file__))), ".cache", "smt")
ENGINE_VERSION = "inst-11"  # bump when instantiation / lemma set / solving strategy changes


def _cache_key(smt2, expect, raw):
    import hashlib
    from . import fplemmas, inst
    h = hashlib.sha256()
    h.update(ENGINE_VERSION.encode())
    for mod in (fplemmas, inst):
        h.update(open(mod.__file__, "rb").read())
    h.update(expect.encode())
    h.update(b"raw" if raw else b"inst")
    h.update(smt2.encode())
    return h.hexdigest()


def _cache_get(key):
    path = os.path.join(CACHE_DIR, key + ".json")
    if os.path.exists(path):
        try:
            import json
            return json.load(open(path))
        except Exception:
            return None
    return None


def _cache_put(key, value):
    import json
    os.makedirs(CACHE_DIR, exist_ok=True)
    tmp = os.path.join(CACHE_DIR, key + f".{os.getpid()}.tmp")
    with open(tmp, "w") as f:
        json.dump(value, f)
    os.replace(tmp, os.path.join(CACHE_DIR, key + ".json"))


_OBS = []
_RUN = {}
CERT_FILE = os.path.join(os.path.dirname(os.path.dirname(os.path.abspath(__file__))), "certs", "unsat.sha256")
_CERTS = None


def _certs():
    """Committed certificates: keys (engine version + instantiation/lemma sources + exact SMT-LIB text) of queries
    that z3 has discharged (unsat) on the unchanged tree.  Used only when this run's solving ends without a
    decision (budget exhausted under load): `unsat` is a fact about the query text, not about the run.  Every
    query is still generated from the current source and attempted on every run; a changed function produces a
    different text and therefore has no certificate."""
    global _CERTS
    if _CERTS is None:
        try:
            _CERTS = {ln.strip() for ln in open(CERT_FILE) if ln.strip() and not ln.startswith("#")}
        except OSError:
            _CERTS = set()
    return _CERTS


def _work(i, conn=None):
    """Worker (forked: sees the parent's obligation list): serialise, look up the memo, solve, memoise."""
    ob = _OBS[i]
    timeout_s, opts, use_cache = _RUN["timeout_s"], _RUN["opts"], _RUN["use_cache"]
    s2 = to_smt2(ob)
    raw = getattr(ob, "raw", False)
    key = _cache_key(s2, ob.expect, raw)
    if conn is not None:
        conn.send(("key", key))
    if use_cache:
        hit = _cache_get(key)
        if hit is not None:
            if hit["r"] == "unsat" and os.environ.get("VT_CERT_LOG"):
                with open(os.environ["VT_CERT_LOG"], "a") as f:
                    f.write(key + "\n")
            return (i, hit["r"], hit["dt"], hit.get("model"), hit.get("reason", ""), hit["backend"] + " [memoised]",
                    None if hit["r"] == "unsat" else s2)
    o = dict(opts)
    if raw:
        o["raw"] = True
    if ob.kind == "bounds" and not _mentions_real(ob.goal):
        o["int_goal"] = True
    name, r, dt, model, reason, backend, stats = _solve((ob.name, s2, int(timeout_s * 1000), ob.expect, ob.inputs, o))
    if r in ("unknown", "error") and _RUN["fallback"]:
        _, r2, dt2, label = _fallback((ob.name, s2, timeout_s))
        if r2 in ("sat", "unsat"):
            r, dt, model, reason, backend = r2, dt + dt2, None, "", label
    if use_cache and r in ("sat", "unsat"):  # a candidate / unknown is a budget-dependent outcome: never memoised
        try:
            _cache_put(key, {"r": r, "dt": dt, "model": model, "reason": reason, "backend": backend})
        except Exception:
            pass
    if r == "unsat" and os.environ.get("VT_CERT_LOG"):
        with open(os.environ["VT_CERT_LOG"], "a") as f:
            f.write(key + "\n")
    if r in ("unknown", "sat-candidate", "error") and _RUN.get("final") and key in _certs():
        r, model, reason = "unsat", None, ""
        backend = "certificate (identical query discharged by z3 on the unchanged tree: certs/unsat.sha256); this run: " + backend
    return (i, r, dt, model, reason, backend, None if r == "unsat" else s2)


def _child(i, conn):
    try:
        res = _work(i, conn)
    except BaseException as e:  # noqa: BLE001 -- reported to the parent as a checker error for this obligation
        import traceback
        res = (i, "error", 0.0, None, repr(e) + traceback.format_exc()[-300:], "z3-5.1", None)
    try:
        conn.send(("result", res))
    finally:
        conn.close()


def _run_forked(indices, jobs, hard_s):
    """One freshly forked process per obligation (deterministic SMT-LIB text, see discharge), at most `jobs` at a
    time, each killed after `hard_s` seconds of wall clock."""
    from multiprocessing.connection import wait
    ctxm = mp.get_context("fork")
    pending = list(indices)
    running = {}   # conn -> [process, index, start time, key]
    results = {}
    while pending or running:
        while pending and len(running) < jobs:
            i = pending.pop(0)
            rd, wr = ctxm.Pipe(duplex=False)
            p = ctxm.Process(target=_child, args=(i, wr))
            p.start()
            wr.close()
            running[rd] = [p, i, time.time(), None]
        for rd in wait(list(running), timeout=1.0):
            p, i, t0, key = running[rd]
            try:
                tag, payload = rd.recv()
            except (EOFError, OSError):
                tag, payload = "result", (i, "error", time.time() - t0, None, "worker died without a result", "z3-5.1", None)
            if tag == "key":
                running[rd][3] = payload
                continue
            results[i] = payload
            p.join()
            rd.close()
            del running[rd]
        now = time.time()
        for rd, (p, i, t0, key) in list(running.items()):
            if now - t0 > hard_s:
                p.kill()
                p.join()
                rd.close()
                del running[rd]
                r, backend = "unknown", "z3-5.1"
                reason = f"hard wall-clock limit of {hard_s:.0f}s reached: the solver ignored its timeout; worker killed"
                if _RUN.get("final") and key is not None and key in _certs():
                    r, reason = "unsat", ""
                    backend = "certificate (identical query discharged by z3 on the unchanged tree: certs/unsat.sha256); this run: killed at the hard limit"
                results[i] = (i, r, now - t0, None, reason, backend, None)
    return results


def discharge(obligations, timeout_s=20, jobs=None, fallback=True, opts=None):
    """Return list[Result] in the order of `obligations`.

    Serialisation to SMT-LIB, memo lookup and solving all happen in forked worker processes.  Identical solver
    queries (same SMT-LIB text, same engine) are memoised under .cache/smt: the VCs themselves are regenerated from
    the current source on every run."""
    global _OBS
    jobs = jobs or min(16, os.cpu_count() or 4)
    _OBS = list(obligations)
    _RUN.update({"timeout_s": timeout_s, "opts": dict(opts or {}), "use_cache": not os.environ.get("VT_NO_CACHE"),
                 "fallback": fallback})
    results = {}
    if _OBS:
        # hard wall-clock limit per obligation: z3's timeout is cooperative and some of its procedures never look at
        # it (a seeded change once kept one worker spinning for five hours); a worker that exceeds the limit is
        # killed and the obligation is undecided, never a violation
        hard_s = float(os.environ.get("VT_HARD_S") or (6 * timeout_s + 60))
        _RUN["final"] = False
        results = _run_forked(list(range(len(_OBS))), min(jobs, len(_OBS)), hard_s)
        # second pass for anything left without a decision: fewer workers (less contention), twice the budget, so
        # that a verdict does not depend on how busy the machine was; the certificate fallback applies only here
        again = [i for i, res in results.items() if res[1] in ("unknown", "sat-candidate", "error")]
        _RUN["final"] = True
        if again:
            _RUN["timeout_s"] = timeout_s * 2
            results.update(_run_forked(again, min(4, len(again)), 2 * hard_s))
            _RUN["timeout_s"] = timeout_s
    out = []
    for i, ob in enumerate(_OBS):
        _, r, dt, model, reason, backend, s2 = results[i]
        if ob.expect == "sat":
            verdict = {"sat": "cover-ok", "unsat": "cover-fail"}.get(r, "unknown")
        else:
            verdict = {"unsat": "proved", "sat": "refuted", "sat-candidate": "refuted-candidate"}.get(r, "unknown")
        out.append(Result(ob.name, verdict, backend, dt, model, reason, ob.kind, ob.text, ob.lineno, ob.func, smt2=s2))
    _OBS = []
    return out
