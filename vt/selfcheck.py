"""setup_cmd: sanity of the tool chain (no build step is needed)."""
import shutil
import subprocess
import sys


def main():
    import z3
    ok = True
    print("z3", z3.get_version_string())
    for exe in ("/usr/bin/cvc5", "/usr/bin/z3", "/venv/bin/python"):
        if not shutil.which(exe):
            print("missing", exe)
            ok = False
    # engine smoke test: one tiny obligation end to end
    x = z3.Real("x")
    s = z3.Solver()
    s.add(x > 1, z3.Not(x * x > 1))
    if s.check() != z3.unsat:
        ok = False
    r = subprocess.run(["/venv/bin/python", "-c", "import numpy, tskit, msprime; print('venv ok')"], capture_output=True, text=True)
    print(r.stdout.strip() or r.stderr.strip()[-200:])
    ok = ok and r.returncode == 0
    return 0 if ok else 1


if __name__ == "__main__":
    sys.exit(main())
