"""setup_cmd: sanity of the tool chain (no build step is needed)."""
import shutil
import subprocess
import sys


def main():
    import z3
    ok = True
    print("z3", z3.get_version_string())
    for exe in ("/usr/bin/cvc5", "/usr/bin/z3", "/venv/bin/python"):
        if not shutil.which(exe):
            print("missing", exe)
            ok = False
    # engine smoke test: one tiny obligation end to end
    x = z3.Real("x")
    s = z3.Solver()
    s.add(x > 1, z3.Not(x * x > 1))
    if s.check() != z3.unsat:
        ok = False
    r = subprocess.run(["/venv/bin/python", "-c", "import numpy, tskit, msprime; print('venv ok')"], capture_output=True, text=True)
    print(r.stdout.strip() or r.stderr.strip()[-200:])
    ok = ok and r.returncode == 0
    ok = engine_regressions("--fast" in sys.argv) and ok
    return 0 if ok else 1


def _scratch_repo(edit):
    """copy of the source SNAPSHOT vt/selfcheck_src/tsdate (tsdate at /repo 67c51f9, used by these engine
    regressions only -- every check reads $VERIF_REPO) under a temporary directory, changed by edit(dir)"""
    import os
    import tempfile
    d = tempfile.mkdtemp(prefix="vt_selfcheck_")
    shutil.copytree(os.path.join(os.path.dirname(os.path.abspath(__file__)), "selfcheck_src", "tsdate"),
                    os.path.join(d, "tsdate"))
    if edit is not None:
        edit(d)
    return d


def engine_regressions(fast):
    """Deliberately broken bodies must FAIL their obligations (an engine that proves everything proves nothing):
    each generator is run on the unchanged source (must pass) and on a scratch copy with a known property-breaking
    change (must report the named obligation)."""
    import os
    from . import VERIF
    ok = True
    saved = os.environ.get("VERIF_REPO")

    def with_repo(d, f):
        os.environ["VERIF_REPO"] = d
        try:
            return f()
        finally:
            if saved is None:
                os.environ.pop("VERIF_REPO", None)
            else:
                os.environ["VERIF_REPO"] = saved

    # ---- G2: an absolute tolerance added to a variance must be a failed dimensional obligation
    import contracts.dims  # noqa: F401
    from . import dim

    def g2(name):
        r = dim.check(dim.DIM_REGISTRY[name])
        return r.error, [o for o in r.obligations if o["verdict"] != "proved"], len(r.obligations)
    d0 = _scratch_repo(None)
    err, bad, n = with_repo(d0, lambda: g2("approx.approximate_gamma_mom"))
    good = err is None and not bad and n > 0
    print(f"G2 unchanged approximate_gamma_mom: {n} obligations, {len(bad)} failed, error={err}")

    def edit_mom(d):
        p = os.path.join(d, "tsdate", "approx.py")
        s = open(p).read()
        assert "shape = mean**2 / variance" in s
        open(p, "w").write(s.replace("shape = mean**2 / variance", "shape = mean**2 / (variance + 1e-12)"))
    d = _scratch_repo(edit_mom)
    err, bad, n = with_repo(d, lambda: g2("approx.approximate_gamma_mom"))
    shutil.rmtree(d)
    caught = err is None and any(o["kind"] == "add" for o in bad)
    print(f"G2 broken approximate_gamma_mom (variance + 1e-12): {len(bad)} failed -> {'caught' if caught else 'MISSED'}")
    ok = ok and good and caught

    # ---- G3: the seeded C34 change (options forwarded only when truthy) must fail option-*-reaches-api
    patch = os.path.join(VERIF, "seeded", "C34", "patch.diff")
    if os.path.exists(patch):
        from . import g3, runner

        def g3run():
            ctx = runner.Ctx("C34", "quick", 0)
            g3.cli_contract(g3.G3(ctx))
            return {o.name: o.verdict for o in ctx.obs}
        base = with_repo(d0, g3run)
        good = base.get("cli.run_date:option-max_iterations-reaches-api") == "proved"

        def edit_cli(d):
            subprocess.run(["patch", "-p1", "-s", "--no-backup-if-mismatch", "-i", patch], cwd=d, check=True)
        d = _scratch_repo(edit_cli)
        seeded = with_repo(d, g3run)
        shutil.rmtree(d)
        caught = seeded.get("cli.run_date:option-max_iterations-reaches-api") == "refuted"
        print(f"G3 cli.run_date option forwarding: unchanged {'proved' if good else 'NOT proved'}; seeded C34 -> "
              f"{'caught' if caught else 'MISSED'}")
        ok = ok and good and caught
    # ---- vt/g3_sites.py (z3-backed statement contracts): unchanged source proved, second-round seeds refuted
    from . import g3 as g3m, g3_sites, runner as rn
    for seed, pid, fn, obname in (
            ("C21b", "C21", g3_sites.propagate_prior_bookkeeping,
             "variational.ExpectationPropagation.propagate_prior:C21-posterior-equals-scale-times-sum-of-messages-after-prior-update"),
            ("C31b", "C31", g3_sites.site_time_rule, "util.sites_time_from_ts:no-early-exit-from-the-loops"),
            ("C14b", "C14", g3_sites.prior_table_assembly,
             "prior.ConditionalCoalescentTimes.add:exact-or-approximate-is-decided-by-this-call's-arguments-only"),
            ("C30", "C30", g3_sites.unary_detection, "util._contains_unary_nodes:sweep-runs-until-every-edge-has-entered-and-left")):
        patch = os.path.join(VERIF, "seeded", seed, "patch.diff")
        if not os.path.exists(patch):
            continue

        def run_(fn=fn, pid=pid):
            ctx = rn.Ctx(pid, "quick", 0)
            fn(g3m.G3(ctx))
            return {o.name: o.verdict for o in ctx.obs}
        base = with_repo(d0, run_)
        good = bool(base) and all(v == "proved" for v in base.values())

        def edit_(d, patch=patch):
            subprocess.run(["patch", "-p1", "-s", "--no-backup-if-mismatch", "-i", patch], cwd=d, check=True)
        d = _scratch_repo(edit_)
        seeded = with_repo(d, run_)
        shutil.rmtree(d)
        caught = seeded.get(obname) == "refuted"
        print(f"g3_sites {fn.__name__}: unchanged {len(base)} obligation(s) {'all proved' if good else 'NOT all proved'}; "
              f"seeded {seed} -> {'caught' if caught else 'MISSED'}")
        ok = ok and good and caught
    shutil.rmtree(d0)
    if fast:
        return ok

    # ---- G1 (slow, not part of setup): the seeded C01 change must leave an obligation of _constrain_ages undischarged
    patch = os.path.join(VERIF, "seeded", "C01", "patch.diff")
    if os.path.exists(patch):
        from . import runner

        def g1run():
            ctx = runner.Ctx("C01", "quick", 0)
            runner.run_g1(ctx, ["util._constrain_ages"])
            return [o for o in ctx.obs if o.verdict not in runner.PROVED]

        def edit_util(d):
            subprocess.run(["patch", "-p1", "-s", "--no-backup-if-mismatch", "-i", patch], cwd=d, check=True)
        d = _scratch_repo(edit_util)
        bad = with_repo(d, g1run)
        shutil.rmtree(d)
        print(f"G1 seeded C01 on _constrain_ages: {len(bad)} obligation(s) not discharged -> {'caught' if bad else 'MISSED'}")
        ok = ok and bool(bad)
    return ok


if __name__ == "__main__":
    sys.exit(main())
