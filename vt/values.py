"""Symbolic values used by the VC generator (G1)."""
import itertools

import z3

_fresh = itertools.count()


def fresh_name(base):
    return f"{base}!{next(_fresh)}"


class Mode:
    """Numeric encoding of float64: 'real' (mathematical reals) or 'fp64' (IEEE-754 binary64)."""

    def __init__(self, name):
        assert name in ("real", "fp64")
        self.name = name
        self.fp = name == "fp64"
        self.fsort = z3.Float64() if self.fp else z3.RealSort()
        self.rm = z3.RNE()

    def sort(self, kind):
        return {"int": z3.IntSort(), "float": self.fsort, "bool": z3.BoolSort()}[kind]

    def fconst(self, v):
        if self.fp:
            return z3.FPVal(v, z3.Float64())
        if v == float("-inf") and getattr(self, "neg_inf_sentinel", False):
            # -inf as a distinguished real constant: contracts using it state that every other value is greater
            return z3.Real("NINF")
        if v != v and getattr(self, "nan_sentinel", False):
            # NaN as an opaque real constant: only ever returned / stored, never compared by the verified code
            return z3.Real("NAN")
        if v == float("inf") or v == float("-inf") or v != v:
            raise Unsupported(f"non-finite literal {v} in real mode")
        if isinstance(v, float):
            return z3.RealVal(repr(v))
        return z3.RealVal(v)


class Unsupported(Exception):
    """A construct outside the generator's subset: the obligation does-not-attach."""


class Cell:
    """Heap cell of an n-d array: nested z3 arrays + shape."""

    def __init__(self, term, shape, kind):
        self.term = term
        self.shape = list(shape)  # python ints or z3 Ints
        self.kind = kind

    @property
    def ndim(self):
        return len(self.shape)


class Ref:
    """Reference to a heap array, possibly a view fixing the leading indices."""

    def __init__(self, loc, prefix=()):
        self.loc = loc
        self.prefix = tuple(prefix)

    def __repr__(self):
        return f"Ref({self.loc},{self.prefix})"


class Vec:
    """Immutable lazily-evaluated 1-d vector value: length n, element at(i)."""

    def __init__(self, n, at, kind):
        self.n = n
        self.at = at
        self.kind = kind


class Obj:
    """Record value (EPFactors): fields -> values."""

    def __init__(self, fields):
        self.fields = dict(fields)


class Closure:
    def __init__(self, node):
        self.node = node


class NoneVal:
    pass


def array_sort(mode, kind, ndim):
    s = mode.sort(kind)
    for _ in range(ndim):
        s = z3.ArraySort(z3.IntSort(), s)
    return s


def is_z3(v):
    return isinstance(v, z3.ExprRef)


def kind_of(v, mode):
    if isinstance(v, bool):
        return "bool"
    if isinstance(v, int):
        return "int"
    if isinstance(v, float):
        return "float"
    if is_z3(v):
        s = v.sort()
        if s == z3.IntSort():
            return "int"
        if s == z3.BoolSort():
            return "bool"
        if s == mode.fsort:
            return "float"
    raise Unsupported(f"kind_of({v!r})")
