"""G3 obligations (frame / protocol / data-flow / exception contracts), built on vt.flow traces."""
import ast

from . import extract, flow
from .flow import Const, DictVal, Term, text_of
from .runner import Ob


class G3:
    def __init__(self, ctx):
        self.ctx = ctx
        self.funcs = set()
        ctx.add_trusted("G3 path enumeration of vt/flow.py: branches on undecided tests fork, loop bodies are executed "
                        "once with a symbolic element, try bodies fork into their handlers; values are uninterpreted terms")

    def trace(self, dotted, **kw):
        tr = flow.Tracer()
        try:
            paths = tr.run(dotted, **kw)
        except (LookupError, FileNotFoundError, RuntimeError) as e:
            self.ob(f"{dotted}:attach", False, f"does-not-attach: {e}", verdict="does-not-attach")
            return None
        if dotted not in self.funcs:
            self.funcs.add(dotted)
            fn = extract.get_function(dotted)
            self.ctx.functions.append({**fn.describe(), "mode": "G3 path enumeration", "paths": len(paths)})
        return paths

    def ob(self, name, ok, clause, detail=None, verdict=None, func=""):
        v = verdict or ("proved" if ok else "refuted")
        o = Ob(name, "G3", "flow", v, backend="vt.flow path enumeration", clause=clause, func=func or name.split(":")[0],
               reason="" if ok else (detail or "")[:400], detail=detail)
        self.ctx.obs.append(o)
        return ok

    def forall_paths(self, name, paths, pred, clause, only=None):
        """pred(path) -> None if fine, else a description of the offence."""
        if paths is None:
            return
        sel = [p for p in paths if only is None or only(p)]
        if not sel:
            self.ob(name, False, clause, "vacuous: no path to check", verdict="unknown")
            return
        for p in sel:
            bad = pred(p)
            if bad:
                self.ob(name, False, clause, f"on path [{flow.describe_path(p)}]: {bad}")
                return
        self.ob(name, True, clause + f"   [{len(sel)} path(s)]")


# ---------------------------------------------------------------------------------------------
def table_events(p, root):
    """Events that write through `root` (a tables object text): stores and method calls."""
    out = []
    for ev in p.events:
        if ev["kind"] == "store" and ev["target"].startswith(root):
            out.append(("store", ev["target"][len(root):].lstrip("."), ev))
        elif ev["kind"] == "store-item" and ev["target"].startswith(root):
            out.append(("store-item", ev["target"][len(root):].lstrip("."), ev))
        elif ev["kind"] == "call" and ev.get("recv") and ev["recv"].startswith(root) and ev.get("method"):
            out.append(("call", (ev["recv"][len(root):].lstrip(".") + "." + ev["method"]).lstrip("."), ev))
        elif ev["kind"] == "call" and any(text_of(a).startswith(root) for a in ev.get("args", [])):
            out.append(("passed", ev["func"], ev))
    return out


def get_modified_ts(g, pid):
    """Protocol + frame + data-flow contract of EstimationMethod.get_modified_ts (C01, C02, C04, C33)."""
    name = "core.EstimationMethod.get_modified_ts"
    paths = g.trace(name)
    if paths is None:
        return
    root = None
    for ev in paths[0].events:
        if ev["kind"] == "call" and ev.get("method") == "dump_tables":
            root = ev["func"] + "(...)#"
            break
    if root is None:
        g.ob(f"{name}:attach", False, "tables = ts.dump_tables()", "no dump_tables() call", verdict="does-not-attach")
        return

    def tbl(p):
        for ev in p.events:
            if ev["kind"] == "call" and ev.get("method") == "dump_tables":
                # the Term text of the result
                for e2 in p.events:
                    if e2["kind"] == "store" and e2["base"].startswith(ev["func"] + "(...)#"):
                        return e2["base"].split(".nodes")[0].split(".mutations")[0]
        return None

    if pid in ("C01", "C03", "C27"):
        def nodes_time(p):
            t = tbl(p)
            st = [ev for ev in p.events if ev["kind"] == "store" and ev["target"] == f"{t}.nodes.time"]
            if len(st) != 1:
                return f"{len(st)} assignments to nodes.time"
            v = st[0]["value"]
            o = getattr(v, "origin", None)
            if o is None or o["func"] != "util.constrain_ages":
                return f"nodes.time is assigned {text_of(v)}, not the result of util.constrain_ages"
            a = [text_of(x) for x in o["args"]]
            want = ["self.ts", "result.posterior_mean", "self.min_branch_length", "self.constr_iterations"]
            if a != want or o["kwargs"]:
                return f"constrain_ages called with {a} {list(o['kwargs'])}, contract wants {want}"
            return None
        g.forall_paths(f"{name}:nodes-time-is-constrain-ages-of-posterior-mean", paths, nodes_time,
                       "nodes.time := util.constrain_ages(self.ts, result.posterior_mean, self.min_branch_length, "
                       "self.constr_iterations), assigned exactly once", only=lambda p: p.status == "return")

    if pid in ("C01",):
        def protocol(p):
            t = tbl(p)
            seq = [(k, what) for k, what, ev in table_events(p, t)]
            calls = [w for k, w in seq if k == "call"]
            want = ["sort", "build_index", "compute_mutation_parents", "compute_mutation_times", "tree_sequence"]
            got = [c for c in calls if c in want]
            if got != want:
                return f"table finalisation calls are {got}, contract wants {want}"
            # nothing is stored into the tables after sort() except provenance
            after = False
            for k, w, ev in table_events(p, t):
                if k == "call" and w == "sort":
                    after = True
                elif after and k in ("store", "store-item"):
                    return f"store to {w} after tables.sort()"
            st = {w: ev for k, w, ev in table_events(p, t) if k == "store"}
            mt = st.get("mutations.time")
            if mt is None or "tskit.UNKNOWN_TIME" not in text_of(getattr(mt["value"], "origin", {}).get("args", [None, Term("?")])[1]):
                return "mutations.time is not reset to tskit.UNKNOWN_TIME before compute_mutation_times()"
            mp = st.get("mutations.parent")
            if mp is None or "tskit.NULL" not in text_of(getattr(mp["value"], "origin", {}).get("args", [None, Term("?")])[1]):
                return "mutations.parent is not reset to tskit.NULL before compute_mutation_parents()"
            if not text_of(p.result).startswith(f"{t}.tree_sequence("):
                return f"returns {text_of(p.result)}, not tables.tree_sequence()"
            return None
        g.forall_paths(f"{name}:finalisation-protocol", paths, protocol,
                       "mutations.time := UNKNOWN, mutations.parent := NULL; then sort -> build_index -> "
                       "compute_mutation_parents -> compute_mutation_times -> tree_sequence() is returned "
                       "(A-TS-API: these give each mutation a time between its node and the node above and "
                       "validate the result)", only=lambda p: p.status == "return")

    if pid in ("C02", "C08"):
        allowed_store = {"time_units", "nodes.time", "mutations.node", "mutations.time", "mutations.parent"}
        allowed_call = {"sort", "build_index", "compute_mutation_parents", "compute_mutation_times", "tree_sequence"}
        allowed_pass = {"self.set_time_metadata", "provenance.record_provenance", "np.full_like", "np.sum", "len"}

        def frame(p):
            t = tbl(p)
            for k, w, ev in table_events(p, t):
                if k in ("store", "store-item") and w not in allowed_store:
                    return f"writes {w} (line {ev['lineno']})"
                if k == "call" and w not in allowed_call:
                    return f"calls tables.{w}() (line {ev['lineno']})"
                if k == "passed" and w not in allowed_pass:
                    return f"passes the tables to {w} (line {ev['lineno']})"
            return None
        g.forall_paths(f"{name}:assigns", paths, frame,
                       "assigns (tables) <= {time_units, nodes.time, mutations.node, mutations.time, mutations.parent} "
                       "+ set_time_metadata(nodes|mutations) + record_provenance + sort/build_index/compute_*")

        def mutnode(p):
            t = tbl(p)
            st = [ev for ev in p.events if ev["kind"] == "store" and ev["target"] == f"{t}.mutations.node"]
            if len(st) != 1 or text_of(st[0]["value"]) != "result.mutation_node":
                return "mutations.node is not assigned result.mutation_node exactly once"
            return None
        g.forall_paths(f"{name}:mutation-node-is-results-mutation-node", paths, mutnode,
                       "mutations.node := result.mutation_node")

    if pid in ("C04", "C32"):
        def md(p):
            t = tbl(p)
            cs = [ev for ev in p.events if ev["kind"] == "call" and ev["func"] == "self.set_time_metadata"]
            got = [[text_of(a) for a in ev["args"]] for ev in cs]
            want = [[f"{t}.nodes", "result.posterior_mean", "result.posterior_var", "schemas.default_node_schema"],
                    [f"{t}.mutations", "result.mutation_mean", "result.mutation_var", "schemas.default_mutation_schema"]]
            if got != want:
                return f"set_time_metadata calls are {got}"
            return None
        g.forall_paths(f"{name}:metadata-arrays-are-the-results-moments", paths, md,
                       "set_time_metadata(nodes, result.posterior_mean, result.posterior_var, node schema) and "
                       "set_time_metadata(mutations, result.mutation_mean, result.mutation_var, mutation schema)")

    if pid in ("C33",):
        def prov(p):
            cs = [ev for ev in p.events if ev["kind"] == "call" and ev["func"] == "provenance.record_provenance"]
            has = ("self.provenance_params is not None", True) in p.conds
            if has and len(cs) != 1:
                return f"{len(cs)} provenance records although recording is on"
            if not has and cs:
                return "provenance recorded although recording is off"
            if has:
                a = [text_of(x) for x in cs[0]["args"]]
                t = tbl(p)
                if a[:2] != [t, "self.name"] or [text_of(s) for s in cs[0]["star_kwargs"]] != ["self.provenance_params"]:
                    return f"record_provenance called with {a}"
                if cs[0]["in_loop"]:
                    return "record_provenance inside a loop"
            return None
        g.forall_paths(f"{name}:exactly-one-provenance-record-iff-recording", paths, prov,
                       "record_provenance(tables, self.name, self.start_time, **self.provenance_params) exactly once "
                       "iff self.provenance_params is not None")


def set_time_metadata(g, pid):
    """Decision table of EstimationMethod.set_time_metadata (C32, C04, C02)."""
    name = "core.EstimationMethod.set_time_metadata"
    paths = g.trace(name)
    if paths is None:
        return

    def tev(p):
        return table_events(p, "table")

    def off(p):
        for k, w, ev in tev(p):
            return f"touches table.{w} although nothing should be written"
        return None
    g.forall_paths(f"{name}:nothing-written-when-disabled-or-no-variance", paths, off,
                   "set_metadata is False or var is None  =>  no write and no call on the table",
                   only=lambda p: any(c[0].startswith("(self.set_metadata is False") or "var is None" in c[0] for c in p.conds if c[1]))

    allowed_call = {"packset_metadata", "drop_metadata"}
    allowed_store = {"metadata_schema"}

    def frame(p):
        for k, w, ev in tev(p):
            if k in ("store", "store-item") and w not in allowed_store:
                return f"writes table.{w}"
            if k == "call" and w not in allowed_call:
                return f"calls table.{w}()"
            if k == "passed" and ev["func"] not in ("_time_md_array", "type", "len"):
                return f"passes the table to {ev['func']}"
        return None
    g.forall_paths(f"{name}:assigns", paths, frame,
                   "assigns(table) <= {metadata (packset_metadata), metadata_schema, drop_metadata()}")

    def packset_arg(p):
        for ev in p.events:
            if ev["kind"] == "call" and ev.get("method") == "packset_metadata":
                a = ev["args"][0] if ev["args"] else None
                o = getattr(a, "origin", None)
                if o is None or o["func"] != "_time_md_array" or [text_of(x) for x in o["args"]] != ["table", "mean", "var"]:
                    return f"packset_metadata argument is {text_of(a)}, not _time_md_array(table, mean, var)"
        return None
    g.forall_paths(f"{name}:rows-come-from-time-md-array", paths, packset_arg,
                   "every packset_metadata argument is the complete list _time_md_array(table, mean, var) "
                   "(evaluated before the write: no partial write)")

    def none_policy(p):
        # handler path, existing metadata or schema, set_metadata not truthy -> warning, return, nothing after except
        evs = p.events
        k = max((i for i, ev in enumerate(evs) if ev["kind"] == "except"), default=None)
        if k is None:
            return "no except handler on this path"
        after = evs[k:]
        if not any(ev["kind"] == "log" and ev["level"] == "warning" for ev in after):
            return "no warning is logged"
        for ev in after:
            if ev["kind"] in ("store", "store-item") or (ev["kind"] == "call" and ev.get("recv") == "table"
                                                          and ev.get("method") in ("packset_metadata", "drop_metadata")):
                return f"table modified after the failed attempt ({ev.get('target') or ev.get('method')})"
        return None
    g.forall_paths(f"{name}:none-policy-warns-and-leaves-table", paths, none_policy,
                   "encoding failed, table has metadata or a schema, set_metadata is None  =>  warning logged and "
                   "table left untouched",
                   only=lambda p: ("not self.set_metadata", True) in p.conds)

    def true_policy(p):
        evs = p.events
        k = max((i for i, ev in enumerate(evs) if ev["kind"] == "except"), default=None)
        after = evs[k:]
        names = [("drop" if ev.get("method") == "drop_metadata" else "pack" if ev.get("method") == "packset_metadata"
                  else "schema" if ev["kind"] == "store" and ev.get("attr") == "metadata_schema" else None) for ev in after]
        names = [n for n in names if n]
        need_drop = any(c[0].startswith("(len(table.metadata)") or "len(table.metadata" in c[0] for c in p.conds if c[1])
        want = (["drop"] if need_drop else []) + ["schema", "pack"]
        if names != want:
            return f"after the failed attempt the table operations are {names}, contract wants {want}"
        st = [ev for ev in after if ev["kind"] == "store" and ev.get("attr") == "metadata_schema"]
        if text_of(st[0]["value"]) != "default_schema":
            return "installed schema is not default_schema"
        return None
    g.forall_paths(f"{name}:force-policy-clears-installs-default-schema-and-writes", paths, true_policy,
                   "encoding failed and (set_metadata is True or table has neither metadata nor schema)  =>  "
                   "[drop_metadata if there was any], metadata_schema := default_schema, packset_metadata(all rows)",
                   only=lambda p: any(ev["kind"] == "except" for ev in p.events) and p.status == "return"
                   and ("not self.set_metadata", True) not in p.conds)

    def drop_only_when_forced(p):
        for i, ev in enumerate(p.events):
            if ev["kind"] == "call" and ev.get("method") == "drop_metadata":
                if ("not self.set_metadata", False) not in p.conds:
                    return "drop_metadata reachable without set_metadata being true"
        return None
    g.forall_paths(f"{name}:drop-only-when-forced", paths, drop_only_when_forced,
                   "drop_metadata() is reached only when set_metadata is truthy")

    # the row builder
    fn = extract.get_function(name)
    inner = [n for n in ast.walk(fn.node) if isinstance(n, ast.FunctionDef) and n.name == "_time_md_array"]
    ok, why = False, "nested function _time_md_array not found"
    if inner:
        src = ast.unparse(inner[0])
        loops = [n for n in ast.walk(inner[0]) if isinstance(n, ast.For)]
        why = "row loop not found"
        for lp in loops:
            if ast.unparse(lp.iter) == "zip(md_iter, mean, var)" and ast.unparse(lp.target) == "(metadata_dict, mn, vr)":
                body = [ast.unparse(b) for b in lp.body]
                want = ["metadata_dict.update((('mn', mn), ('vr', vr)))",
                        "metadata_array.append(schema.validate_and_encode_row(metadata_dict))"]
                # an optional leading guard that only raises (rejecting non-mapping rows) is allowed
                if body and isinstance(lp.body[0], ast.If) and all(isinstance(x, ast.Raise) for x in lp.body[0].body) \
                        and not lp.body[0].orelse:
                    body = body[1:]
                ok = body == want
                why = f"loop body is {body}"
        if ok and "return metadata_array" not in src:
            ok, why = False, "does not return metadata_array"
        if ok and "schema.schema is None" not in src:
            ok, why = False, "missing 'no schema set' rejection"
    g.ob(f"{name}:row-i-is-existing-fields-plus-mn-vr", ok,
         "row i := encode(existing metadata_i updated with mn=mean[i], vr=var[i]) for every i of zip(rows, mean, var); "
         "other fields kept; every row carries mn and vr", None if ok else why)


# ---------------------------------------------------------------------------------------------
def kw_flow(g, dotted, callee, wanted, name, clause, positional=None, only=None):
    """Data-flow: every call of `callee` in `dotted` passes keyword k as the term wanted[k]."""
    paths = g.trace(dotted)
    if paths is None:
        return

    def pred(p):
        cs = [ev for ev in p.events if ev["kind"] == "call" and _is_callee(ev, callee)]
        if not cs and p.status == "return":
            return f"{callee} is never called"
        for ev in cs:
            for k, want in wanted.items():
                got = ev["kwargs"].get(k)
                if got is None:
                    return f"{callee}(...) at line {ev['lineno']} does not pass `{k}`"
                if text_of(got) != want:
                    return f"{callee}(..., {k}={text_of(got)}) at line {ev['lineno']}: contract wants {k}={want}"
            for i, want in (positional or {}).items():
                if i >= len(ev["args"]) or text_of(ev["args"][i]) != want:
                    got = text_of(ev["args"][i]) if i < len(ev["args"]) else "<missing>"
                    return f"{callee} positional argument {i} is {got}, contract wants {want}"
        return None
    g.forall_paths(f"{dotted}:{name}", paths, pred, clause, only=only or (lambda p: p.status == "return"))


def _is_callee(ev, callee):
    if callee.startswith("*."):
        return ev.get("method") == callee[2:]
    return ev["func"] == callee


def max_shape_chain(g):
    """The caller's max_shape reaches every kernel that caps a posterior (C05, C25)."""
    kw_flow(g, "core.variational_gamma", "*.run", {"max_shape": "max_shape"}, "max-shape-reaches-run",
            "variational_gamma(max_shape=s) calls run(max_shape=s') with s' = s (or 1000 when s is None)",
            only=lambda p: p.status == "return" and ("max_shape is None", True) not in p.conds and not any(c == ("max_shape is None", True) for c in p.conds))
    kw_flow(g, "core.VariationalGammaMethod.run", "*.infer", {"max_shape": "max_shape"},
            "max-shape-reaches-infer", "run(max_shape=s) calls fit_obj.infer(max_shape=s)")
    kw_flow(g, "variational.ExpectationPropagation.infer", "self.iterate", {"max_shape": "max_shape"},
            "max-shape-reaches-iterate", "infer(max_shape=s) calls self.iterate(max_shape=s) in every EP round")
    kw_flow(g, "variational.ExpectationPropagation.infer", "self.rescale", {"max_shape": "max_shape"},
            "max-shape-reaches-rescale", "infer(max_shape=s) calls self.rescale(max_shape=s)",
            only=lambda p: p.status == "return" and any(ev["kind"] == "call" and ev["func"] == "self.rescale" for ev in p.events))
    kw_flow(g, "variational.ExpectationPropagation.rescale", "piecewise_scale_posterior", {}, "max-shape-reaches-piecewise-scale-posterior",
            "rescale(max_shape=s) passes s as the cap of both piecewise_scale_posterior calls", positional={5: "max_shape"})
    kw_flow(g, "variational.ExpectationPropagation.iterate", "self.propagate_likelihood", {}, "max-shape-reaches-propagate-likelihood",
            "iterate(max_shape=s) passes s to both propagate_likelihood sweeps", positional={8: "max_shape"})
    kw_flow(g, "variational.ExpectationPropagation.iterate", "self.propagate_prior", {}, "max-shape-reaches-propagate-prior",
            "iterate(max_shape=s) passes s to propagate_prior", positional={3: "max_shape"},
            only=lambda p: p.status == "return" and any(ev["kind"] == "call" and ev["func"] == "self.propagate_prior" for ev in p.events))


# ---------------------------------------------------------------------------------------------
def cli_contract(g):
    """C34: every parsed option reaches the API with the value given, or the run exits with an error."""
    fn = extract.get_function("cli.tsdate_cli_parser")
    # option table from the add_argument calls, per subparser
    table = {}
    sub = None
    for node in ast.walk(fn.node):
        pass
    for st in fn.node.body:
        for call in [n for n in ast.walk(st) if isinstance(n, ast.Call)]:
            f = call.func
            if isinstance(f, ast.Attribute) and f.attr == "add_parser" and call.args:
                sub = ast.literal_eval(call.args[0])
                table[sub] = {}
            if isinstance(f, ast.Attribute) and f.attr == "add_argument" and isinstance(f.value, ast.Name) and f.value.id == "parser" and sub:
                flags = [ast.literal_eval(a) for a in call.args]
                kw = {k.arg: k.value for k in call.keywords}
                long = [x for x in flags if x.startswith("--")]
                dest = (long[0][2:] if long else flags[0].lstrip("-")).replace("-", "_")
                if "dest" in kw:
                    dest = ast.literal_eval(kw["dest"])
                table[sub][dest] = {"flags": flags, "type": ast.unparse(kw["type"]) if "type" in kw else None,
                                    "action": ast.literal_eval(kw["action"]) if "action" in kw else None}
    if set(table) != {"date", "preprocess"}:
        g.ob("cli.tsdate_cli_parser:attach", False, "subcommands date and preprocess", f"found {sorted(table)}",
             verdict="does-not-attach")
        return
    consumed = {"tree_sequence", "output", "verbosity", "deprecated_population_size"}
    api_name = {"epsilon": "eps"}

    for subcmd, runner_fn, api in (("date", "cli.run_date", "tsdate.date"), ("preprocess", "cli.run_preprocess", "tsdate.preprocess_ts")):
        paths = g.trace(runner_fn)
        if paths is None:
            continue
        opts = [d for d in table[subcmd] if d not in consumed]

        def finished(p):
            return p.status == "return" and not any(ev["kind"] == "call" and ev["func"] == "error_exit" for ev in p.events)
        for d in opts:
            kwname = api_name.get(d, d)

            def pred(p, d=d, kwname=kwname):
                cs = [ev for ev in p.events if ev["kind"] == "call" and ev["func"] == api]
                if len(cs) != 1:
                    return f"{len(cs)} calls of {api}"
                got = cs[0]["kwargs"].get(kwname)
                if got is not None and text_of(got) == f"args.{d}":
                    return None
                # not forwarded: acceptable only if this path rejected a non-default value, i.e. the path
                # condition pins args.<d> to its default (None)
                if any(c == (f"args.{d} is not None", False) or c == (f"not (args.{d} is None)", False) for c in p.conds):
                    return None
                if any(f"args.{d} is None" == c[0] and c[1] for c in p.conds):
                    return None
                return f"option --{d.replace('_', '-')} (args.{d}) is neither passed to {api} as `{kwname}` nor rejected"
            known = (subcmd == "date" and d == "epsilon")
            nm = f"{runner_fn}:option-{d}-reaches-api" + ("" if not known else "")
            sel = [p for p in paths if finished(p)]
            bad = None
            for p in sel:
                bad = pred(p)
                if bad:
                    bad = f"on path [{flow.describe_path(p)}]: {bad}"
                    break
            if bad and known and "variational_gamma" in bad:
                nm = f"{runner_fn}:known-epsilon-ignored-for-variational-gamma"
            g.ob(nm, not bad, f"every successful `tsdate {subcmd}` run passes args.{d} to {api}({kwname}=...) or has rejected it"
                 + f"   [{len(sel)} path(s)]", bad)

        def no_output_on_error(p):
            err = [i for i, ev in enumerate(p.events) if ev["kind"] == "call" and ev["func"] == "error_exit"]
            if not err:
                return None
            for ev in p.events[err[0]:]:
                if ev["kind"] == "call" and ev.get("method") == "dump":
                    return None  # error_exit calls sys.exit: later events are unreachable (A-ARGPARSE/sys.exit)
            for ev in p.events[:err[0]]:
                if ev["kind"] == "call" and ev.get("method") == "dump":
                    return "output written before the error exit"
            return None
        g.forall_paths(f"{runner_fn}:no-output-before-error-exit", paths, no_output_on_error,
                       "no path writes the output file before calling error_exit (which raises SystemExit)")

        def dumps_result(p):
            cs = [ev for ev in p.events if ev["kind"] == "call" and ev["func"] == api]
            ds = [ev for ev in p.events if ev["kind"] == "call" and ev.get("method") == "dump"]
            if len(ds) != 1 or not ds[0]["recv"].startswith(api + "(") or [text_of(a) for a in ds[0]["args"]] != ["args.output"]:
                return f"does not dump the result of {api} to args.output"
            a0 = cs[0]["args"][0] if cs[0]["args"] else None
            o = getattr(a0, "origin", None)
            if o is None or o["func"] != "tskit.load" or [text_of(a) for a in o["args"]] != ["args.tree_sequence"]:
                return "input is not tskit.load(args.tree_sequence)"
            return None
        g.forall_paths(f"{runner_fn}:loads-input-dumps-result", paths, dumps_result,
                       f"{api}(tskit.load(args.tree_sequence), ...).dump(args.output)", only=finished)

    # boolean options: the type callable must map the conventional off-tokens to False
    for d, o in table["preprocess"].items():
        if d in ("erase_flanks", "split_disjoint"):
            ok, why = False, ""
            if o["type"] == "bool":
                why = "type=bool maps every non-empty string, including 'False' and '0', to True"
            elif o["type"]:
                try:
                    f = extract.get_function(f"cli.{o['type']}")
                    ns = {"argparse": __import__("argparse")}
                    exec(compile(ast.Module(body=[f.node], type_ignores=[]), "<cli>", "exec"), ns)  # noqa: S102 pure stdlib
                    fn_ = ns[o["type"]]
                    offs = [fn_(t) for t in ("False", "false", "0", "no")]
                    ons = [fn_(t) for t in ("True", "true", "1", "yes")]
                    ok = offs == [False] * 4 and ons == [True] * 4
                    why = f"off tokens -> {offs}, on tokens -> {ons}"
                except Exception as e:
                    why = f"cannot evaluate type callable: {e}"
            else:
                why = "no type given"
            g.ob(f"cli.tsdate_cli_parser:boolean-option-{d}-can-be-switched-off", ok,
                 f"the type callable of --{d.replace('_', '-')} maps False/false/0/no to False and True/true/1/yes to True", why)
    g.ctx.add_assumption("A-ARGPARSE: parse_args applies type/default/dest as documented; error_exit -> sys.exit raises SystemExit")


# ---------------------------------------------------------------------------------------------
ALLOWED_EXC = {"ValueError", "NotImplementedError"}
# raise sites of other types, each with the reason it is outside C35 (reviewed; a NEW site is a failed obligation)
EXC_ALLOWLIST = {
    ("discrete", "Likelihoods.precalculate_mutation_likelihoods", "RuntimeError"):
        "guarded: main_algorithm calls it only when mutation_rate is not None",
    ("discrete", "BeliefPropagation.outside_pass", "RuntimeError"):
        "API-misuse guards (inside pass not run / fixed parent); run() always calls inside_pass first; "
        "get_fixed_nodes_set rejects non-contemporary samples with NotImplementedError before",
    ("discrete", "BeliefPropagation.outside_maximization", "RuntimeError"): "API-misuse guard, run() calls inside_pass first",
    ("node_time_class", "NodeTimeValues.force_probability_space", "TypeError"): "only for GAMMA_PAR grids, which date() never builds",
    ("node_time_class", "NodeTimeValues.standardize", "RuntimeError"): "only for GAMMA_PAR grids",
    ("approx", "approximate_gamma_kl", "KLMinimizationFailedError"): "caught by every projection wrapper (except clause)",
    ("approx", "approximate_gamma_mom", "ValueError"): "ok",
    ("phasing", "insert_unphased_singletons", "LookupError"): "helper outside the date() cone",
    ("util", "sites_time_from_ts", "raise"): "re-raise of ValueError",
    ("core", "EstimationMethod.set_time_metadata._time_md_array", "MetadataEncodingError"):
        "caught by the except clause of set_time_metadata that encloses every call of _time_md_array... the second "
        "call (after installing the default schema) cannot take this branch because the schema was just set",
    ("core", "EstimationMethod.set_time_metadata._time_md_array", "MetadataValidationError"):
        "non-mapping metadata rows: caught by the except clause of set_time_metadata on the first attempt; on the second "
        "attempt the rows are the freshly cleared ({}) ones or the table had no metadata, so the guard cannot fire",
    ("prior", "ConditionalCoalescentTimes.add", "RuntimeError"):
        "API-misuse guard: MixturePrior always builds ConditionalCoalescentTimes with a non-zero table size when "
        "approximate priors are requested",
    ("prior", "MixturePrior.make_discretised_prior", "TypeError"): "explicit user timepoints of a non-numeric dtype "
        "(build_prior_grid argument, not a date() parameter)",
    ("demography", "PopulationSizeHistory.__init__", "__class__"): "re-raise of the caught ValueError/TypeError with a message",
    ("provenance", "_json_default", "TypeError"): "json protocol: `default` must raise TypeError for unknown objects",
    ("approx", "approximate_gamma_mom", "KLMinimizationFailedError"): "caught by every projection wrapper (except clause)",
    ("approx", "approximate_gamma_iqr", "KLMinimizationFailedError"):
        "A-NUM-CONVERGENCE: called from rescaling.piecewise_scale_posterior WITHOUT a handler; whether the Newton "
        "iteration can fail for a valid posterior is a numerical-analysis question this family cannot decide "
        "(exercised by the bounded sweep of C35)",
}


def exception_contract(g):
    mods = ["core", "variational", "discrete", "prior", "util", "rescaling", "phasing", "demography", "node_time_class",
            "provenance", "approx", "hypergeo"]
    for m in mods:
        try:
            sites = flow.all_raises(m)
        except FileNotFoundError as e:
            g.ob(f"{m}:attach", False, "module readable", str(e), verdict="does-not-attach")
            continue
        bad = []
        for qual, exc, line in sites:
            base = exc.split(".")[-1]
            if base in ALLOWED_EXC:
                continue
            if (m, qual, base) in EXC_ALLOWLIST:
                continue
            if base in ("e", "err"):  # bare re-raise of a caught exception
                continue
            bad.append(f"{m}.{qual} line {line}: raise {exc}")
        g.ob(f"{m}:every-raise-is-ValueError-or-NotImplementedError", not bad,
             f"every `raise` in tsdate/{m}.py is ValueError/NotImplementedError or a reviewed internal guard "
             f"[{len(sites)} raise site(s)]", "; ".join(bad))


VALIDATION_TABLE = [
    # (function, condition text that must lead to a raise, exception)
    ("core.EstimationMethod.__init__", "return_posteriors is not None", "ValueError"),
    ("core.EstimationMethod.__init__", "recombination_rate is not None", "NotImplementedError"),
    ("core.EstimationMethod.__init__", "not (isinstance(constr_iterations, int) and constr_iterations >= 0)", "ValueError"),
    ("core.EstimationMethod.__init__", "not min_branch_length > 0.0", "ValueError"),
    ("core.VariationalGammaMethod.run", "not max_iterations > 0", "ValueError"),
    ("core.VariationalGammaMethod.run", "not max_shape > 1", "ValueError"),
    ("core.VariationalGammaMethod.run", "self.mutation_rate is None", "ValueError"),
    ("core.variational_gamma", "eps is not None", "ValueError"),
    ("core.variational_gamma", "tree_sequence.num_mutations == 0", "ValueError"),
    ("core.date", "method not in estimation_methods", "ValueError"),
    ("variational.ExpectationPropagation._check_valid_inputs", "not mutation_rate > 0.0", "ValueError"),
    ("variational.ExpectationPropagation._check_valid_inputs", "not allow_unary and contains_unary_nodes(ts)", "ValueError"),
    ("core.MaximizationMethod.run", "self.mutation_rate is None and self.recombination_rate is None", "ValueError"),
]


def validation_table(g):
    cache = {}
    for fn_name, cond, exc in VALIDATION_TABLE:
        if fn_name not in cache:
            cache[fn_name] = g.trace(fn_name)
        paths = cache[fn_name]
        if paths is None:
            continue
        fn = extract.get_function(fn_name)
        # find the `if <cond>: raise <exc>` statement
        found = None
        for n in ast.walk(fn.node):
            if isinstance(n, ast.If) and _norm(ast.unparse(n.test)) == _norm(cond):
                if n.body and isinstance(n.body[0], ast.Raise):
                    e = n.body[0].exc
                    found = ast.unparse(e.func if isinstance(e, ast.Call) else e)
        ok = found == exc
        g.ob(f"{fn_name}:rejects[{cond}]", ok, f"`{cond}`  =>  raise {exc} (before any inference)",
             None if ok else (f"raises {found}" if found else "no such guard in the function"))
    # the guards of __init__ precede the expensive work
    paths = cache.get("core.EstimationMethod.__init__")
    if paths:
        def guard_first(p):
            if p.status != "raise":
                return None
            for ev in p.events:
                if ev["kind"] == "call" and ev["func"] in ("mk_prior", "util.mutation_span_array"):
                    if p.result in ("ValueError", "NotImplementedError") and ev["func"] == "util.mutation_span_array":
                        return f"raise {p.result} after mutation_span_array()"
            return None
        g.forall_paths("core.EstimationMethod.__init__:parameter-guards-precede-work", paths, guard_first,
                       "every parameter rejection of EstimationMethod.__init__ happens before the tree sequence is processed")


def _norm(s):
    return s.replace("(", "").replace(")", "").replace(" ", "")


def parse_result_shape(g):
    name = "core.EstimationMethod.parse_result"
    fn = extract.get_function(name)
    src = [ast.unparse(s) for s in fn.node.body if not (isinstance(s, ast.Expr) and isinstance(s.value, ast.Constant))]
    want = ["ret = [self.get_modified_ts(result)]",
            "if self.return_fit:\n    ret.append(result.fit_object)",
            "if self.return_likelihood:\n    ret.append(result.mutation_lik)",
            "return tuple(ret) if len(ret) > 1 else ret.pop()"]
    ok = src == want
    g.ctx.functions.append({**fn.describe(), "mode": "G3 structural"})
    g.ob(f"{name}:result-shape", ok, "returns ts, or (ts[, fit][, likelihood]) in that order", None if ok else f"body is {src}")


# ---------------------------------------------------------------------------------------------
def cache_contract(g):
    """C36: the only effect on the cache path is an atomic rename of a fully written private temp file;
    a table read from disk is used only after validation."""
    name = "prior.ConditionalCoalescentTimes.precalculate_priors_for_approximation"
    paths = g.trace(name)
    if paths is not None:
        def atomic(p):
            cache_terms = set()
            tmp_terms = set()
            fds = set()
            for ev in p.events:
                if ev["kind"] != "call":
                    continue
                if ev["func"] == "self.get_precalc_cache":
                    pass
                if ev["func"] == "tempfile.mkstemp":
                    d = ev["kwargs"].get("dir")
                    if d is None or "os.path.dirname" not in text_of(d):
                        return "temporary file is not created in the cache file's own directory (rename would not be atomic)"
            # identify terms by data flow through the environment at the end of the path
            fname = text_of(p.env.get("filename", Term("?")))
            tmpname = text_of(p.env.get("tmp_filename", Term("?")))
            if "self.get_precalc_cache(" not in fname:
                return "cannot identify the cache path variable `filename`"
            if "tempfile.mkstemp(" not in tmpname:
                return "cannot identify the temporary path from tempfile.mkstemp"
            saves = [ev for ev in p.events if ev["kind"] == "call" and ev["func"] in ("np.savetxt", "np.save", "open")]
            for ev in saves:
                tgt = text_of(ev["args"][0]) if ev["args"] else ""
                if "self.get_precalc_cache(" in tgt:
                    return f"{ev['func']} writes directly to the cache path (line {ev['lineno']}): a crash leaves a partial file"
            sv = [ev for ev in p.events if ev["kind"] == "call" and ev["func"] == "np.savetxt"]
            if len(sv) != 1:
                return f"{len(sv)} np.savetxt calls"
            if "os.fdopen(" not in text_of(sv[0]["args"][0]):
                return "np.savetxt target is not the mkstemp file object"
            rp = [ev for ev in p.events if ev["kind"] == "call" and ev["func"] == "os.replace" and not ev["maybe"]]
            normal = [ev for ev in p.events if ev["kind"] == "except"]
            if not normal:
                if len(rp) != 1 or [text_of(a) for a in rp[0]["args"]] != [tmpname, fname]:
                    return "the table is not moved into place by exactly one os.replace(tmp, cache_path)"
                i_sv, i_rp = p.events.index(sv[0]), p.events.index(rp[0])
                if not i_sv < i_rp:
                    return "os.replace happens before the table is written"
            for ev in p.events:
                if ev["kind"] == "call" and ev["func"] in ("os.remove", "os.unlink", "os.rename", "shutil.move", "shutil.copy"):
                    tgt = [text_of(a) for a in ev["args"]]
                    if any("self.get_precalc_cache(" in t for t in tgt):
                        return f"{ev['func']} touches the cache path"
            return None
        g.forall_paths(f"{name}:cache-path-only-written-by-atomic-replace", paths, atomic,
                       "fs[cache_path] changes only through os.replace(tmp, cache_path) after np.savetxt(tmp) completed, "
                       "tmp = tempfile.mkstemp(dir=dirname(cache_path)) is private to the process (A-FS: os.replace atomic)")

        def returns_table(p):
            if p.status == "return" and text_of(p.result) != text_of(p.env.get("prior_lookup_table")):
                return "does not return the freshly computed table"
            return None
        g.forall_paths(f"{name}:returns-fresh-table", paths, returns_table, "result is the freshly computed table",
                       only=lambda p: p.status == "return")

    name = "prior.ConditionalCoalescentTimes.__init__"
    paths = g.trace(name)
    if paths is not None:
        def validated(p):
            v = p.heap.get("self.approx_priors")
            for ev in p.events:
                if ev["kind"] == "call" and ev["func"] in ("np.genfromtxt", "np.loadtxt", "np.load"):
                    return f"{ev['func']} result used without validation (line {ev['lineno']})"
            st = [ev for ev in p.events if ev["kind"] == "store" and ev["target"] == "self.approx_priors"]
            last = st[-1]["value"] if st else None
            t = text_of(last)
            ok = t == "None" or "self.read_precalculated_priors(" in t or "self.precalculate_priors_for_approximation(" in t
            if not ok:
                return f"self.approx_priors := {t}"
            if "self.read_precalculated_priors(" in t and (f"{t} is None", False) not in p.conds and ("self.approx_priors is None", False) not in p.conds:
                # must be on the branch where the read result is not None
                if not any(c[1] is False and "is None" in c[0] for c in p.conds):
                    return "a table read from disk is used without the `is None` (invalid file) check"
            return None
        g.forall_paths(f"{name}:disk-table-used-only-if-validated", paths, validated,
                       "self.approx_priors is None, or the validated result of read_precalculated_priors, or a fresh computation",
                       only=lambda p: p.status == "return")

    name = "prior.ConditionalCoalescentTimes.read_precalculated_priors"
    paths = g.trace(name)
    if paths is not None:
        def rd(p):
            if p.status != "return":
                return None
            if isinstance(p.result, Const) and p.result.v is None:
                return None
            conds = dict(p.conds)
            key = [c for c in conds if "shape" in c and "isfinite" in c]
            if not key or conds[key[0]] is not False:
                return "returns a table without having checked its shape (n, 2) and finiteness"
            if "table.shape != (n, 2)" not in _norm2(key[0]):
                return f"shape check is `{key[0]}`"
            return None
        g.forall_paths(f"{name}:returns-table-only-if-complete", paths, rd,
                       "returns the table only if table.shape == (n, 2) and all entries are finite, else None")
    g.ctx.add_assumption("A-FS: os.replace is atomic within one directory; a process may die between any two system "
                         "calls; tempfile.mkstemp names are unique per call; no power-loss durability claim")


def _norm2(s):
    return s.replace("((", "(").replace("))", ")").replace("(table", "table") if False else s.replace("(table.shape", "table.shape")


# ---------------------------------------------------------------------------------------------
def infer_types(fn_node):
    """Tiny abstract (kind, rank) inference for locals of an object-level function (C37 call-type contract)."""
    ty = {}

    def t(e):
        if isinstance(e, ast.Name):
            return ty.get(e.id)
        if isinstance(e, ast.Attribute) and isinstance(e.value, ast.Name) and e.value.id == "ts":
            return {"edges_parent": ("int", 1), "edges_child": ("int", 1), "nodes_time": ("float", 1),
                    "mutations_node": ("int", 1), "num_nodes": ("int", 0)}.get(e.attr)
        if isinstance(e, ast.Call):
            f = ast.unparse(e.func)
            if f in ("np.zeros", "np.ones", "np.full", "np.empty") and e.args:
                shp = e.args[0]
                rank = len(shp.elts) if isinstance(shp, ast.Tuple) else 1
                return ("float", rank)
            if f.endswith(".copy") and isinstance(e.func, ast.Attribute):
                return t(e.func.value)
        if isinstance(e, ast.Compare):
            l = t(e.left)
            return ("bool", l[1]) if l else None
        if isinstance(e, ast.Subscript):
            b = t(e.value)
            if b is None:
                return None
            idx = e.slice.elts if isinstance(e.slice, ast.Tuple) else [e.slice]
            drop = sum(1 for i in idx if not isinstance(i, ast.Slice) and not (isinstance(i, ast.Name) and ty.get(i.id, (None, 0))[1] > 0)
                       and not (isinstance(i, ast.Attribute)))
            return (b[0], max(b[1] - drop, 0))
        if isinstance(e, ast.Constant):
            return ("int" if isinstance(e.value, int) else "float", 0)
        return None

    for st in ast.walk(fn_node):
        if isinstance(st, ast.Assign) and len(st.targets) == 1:
            tg = st.targets[0]
            if isinstance(tg, ast.Name):
                r = t(st.value)
                if r:
                    ty[tg.id] = r
            elif isinstance(tg, ast.Tuple) and isinstance(st.value, ast.Call) and ast.unparse(st.value.func) == "count_mutations":
                ty[tg.elts[0].id] = ("float", 2)
                ty[tg.elts[1].id] = ("int", 1)
    for a in fn_node.args.args + fn_node.args.kwonlyargs:
        if a.arg in ("num_intervals", "num_iterations"):
            ty[a.arg] = ("int", 0)
    return ty, t


def rescale_tree_sequence_contract(g):
    name = "rescaling.rescale_tree_sequence"
    try:
        fn = extract.get_function(name)
        kern = extract.get_function("rescaling.mutational_timescale")
    except LookupError as e:
        g.ob(f"{name}:attach", False, "functions exist", str(e), verdict="does-not-attach")
        return
    g.ctx.functions.append({**fn.describe(), "mode": "G3 call-type + composition"})
    sig = extract.numba_signature(kern.node)
    ty, t = infer_types(fn.node)
    calls_ = [n for n in ast.walk(fn.node) if isinstance(n, ast.Call) and ast.unparse(n.func) == "mutational_timescale"]
    if len(calls_) != 1 or sig is None:
        g.ob(f"{name}:attach", False, "one call of mutational_timescale with a declared signature", "shape changed", verdict="does-not-attach")
        return
    bad = []
    for k, (arg, want) in enumerate(zip(calls_[0].args, sig[1])):
        got = t(arg)
        if got is None:
            bad.append(f"argument {k} `{ast.unparse(arg)}`: type not inferable")
        elif tuple(got) != tuple(want):
            bad.append(f"argument {k} `{ast.unparse(arg)}` is {got[0]}[rank {got[1]}], kernel declares {want[0]}[rank {want[1]}]")
    g.ob(f"{name}:call-matches-kernel-signature", not bad,
         f"arguments of mutational_timescale match its numba signature {[(a, b) for a, b in sig[1]]}", "; ".join(bad))
    src = ast.unparse(fn.node)
    checks = [
        ("samples-must-be-contemporary", "if not np.all(ts.nodes_time[samples] == 0.0):\n        raise ValueError" in src.replace("'", '"') or "raise ValueError('Normalisation not implemented for ancient samples')" in src,
         "non-contemporary samples are rejected with ValueError"),
        ("fixed-nodes-are-the-samples", "constraints[samples, :] = ts.nodes_time[samples, np.newaxis]" in src and "fixed_nodes = constraints[:, 0] == constraints[:, 1]" in src,
         "fixed_nodes[n] <=> n is a sample (lower == upper bound)"),
        ("point-estimates-rescaled-with-fixed-mask", "piecewise_scale_point_estimate(nodes_time, fixed_nodes, original_breaks, rescaled_breaks)" in src,
         "nodes_time := piecewise_scale_point_estimate(nodes_time, fixed_nodes, breaks...) (C25: non-decreasing map, fixed entries unchanged)"),
        ("mutation-at-branch-midpoint", "mutations_time = (nodes_time[mutations_parent] + nodes_time[mutations_child]) / 2" in src
         and "mutations_time[above_root] = nodes_time[ts.mutations_node[above_root]]" in src and "above_root = mutations_edge == tskit.NULL" in src,
         "mutation time = midpoint of its branch; = its node's time above a root"),
        ("only-times-written", sorted(ast.unparse(n.targets[0]) for n in ast.walk(fn.node) if isinstance(n, ast.Assign) and ast.unparse(n.targets[0]).startswith("tables.")) == ["tables.mutations.time", "tables.nodes.time"],
         "assigns(tables) <= {nodes.time, mutations.time} (+ sort/build_index/compute_mutation_parents): same topology"),
    ]
    for nm, ok, clause in checks:
        g.ob(f"{name}:{nm}", bool(ok), clause, None if ok else "the statement implementing this clause is no longer present in this form")


# ---------------------------------------------------------------------------------------------
def outside_pass_contract(g):
    name = "discrete.BeliefPropagation.outside_pass"
    try:
        fn = extract.get_function(name)
    except LookupError as e:
        g.ob(f"{name}:attach", False, "function exists", str(e), verdict="does-not-attach")
        return
    g.ctx.functions.append({**fn.describe(), "mode": "G3 branch contract"})
    guards = [n for n in ast.walk(fn.node) if isinstance(n, ast.If) and ast.unparse(n.test) == "ignore_oldest_root"]
    if len(guards) != 1:
        g.ob(f"{name}:attach", False, "one `if ignore_oldest_root:` block in the edge loop", f"found {len(guards)}", verdict="does-not-attach")
        return
    inner = [n for n in guards[0].body if isinstance(n, ast.If)]
    ok_shape = len(inner) == 1 and isinstance(inner[0].test, ast.Compare) and ast.unparse(inner[0].test.left) == "edge.parent" \
        and isinstance(inner[0].test.ops[0], ast.Eq) and isinstance(inner[0].body[0], ast.Continue)
    g.ob(f"{name}:flag-only-skips-messages", ok_shape, "under ignore_oldest_root the only effect is `continue` for edges whose parent "
         "equals one designated node", None if ok_shape else "the block has another shape")
    if not ok_shape:
        return
    rhs = inner[0].test.comparators[0]
    rtxt = ast.unparse(rhs)
    # the designated node must be defined from node TIMES (the root with the greatest input time), not from ids
    defs = {ast.unparse(n.targets[0]): ast.unparse(n.value) for n in ast.walk(fn.node) if isinstance(n, ast.Assign) and len(n.targets) == 1}
    expr = defs.get(rtxt, rtxt)
    ok = "nodes_time" in expr and "argmax" in expr and "num_nodes" not in rtxt
    g.ob(f"{name}:skip-condition-is-oldest-root", ok,
         "skip(edge) <=> edge.parent == oldest_root(ts), the parent node of greatest input time (independent of node numbering)",
         None if ok else f"the code compares edge.parent with `{rtxt}`" + (f" = {expr}" if expr != rtxt else "") + ", which depends on node ids")


# ---------------------------------------------------------------------------------------------
def count_mutations_wrapper(g):
    import z3
    name = "rescaling.count_mutations"
    paths = g.trace(name)
    if paths is None:
        return
    fn = extract.get_function(name)
    asserts = [n for n in ast.walk(fn.node) if isinstance(n, ast.Assert)]
    s_, n_ = z3.Ints("mask_size num_nodes")
    ok, why = True, ""
    for a in asserts:
        t = a.test
        if isinstance(t, ast.Compare) and {ast.unparse(t.left), ast.unparse(t.comparators[0])} == {"node_is_sample.size", "ts.num_nodes"}:
            op = {ast.Eq: s_ == n_, ast.NotEq: s_ != n_, ast.LtE: s_ <= n_, ast.GtE: s_ >= n_, ast.Lt: s_ < n_, ast.Gt: s_ > n_}[type(t.ops[0])]
            sol = z3.Solver()
            sol.add(s_ == n_, s_ >= 0, z3.Not(op))
            if sol.check() != z3.unsat:
                ok, why = False, f"`assert {ast.unparse(t)}` fails for a mask with exactly one entry per node"
        else:
            ok, why = False, f"unrecognised assert `{ast.unparse(t)}`"
    g.ob(f"{name}:explicit-mask-of-right-length-accepted", ok,
         "node_is_sample.size == ts.num_nodes  |-  every real-code assert of count_mutations (z3)", why)

    def flow_(p):
        cs = [ev for ev in p.events if ev["kind"] == "call" and ev["func"] == "_count_mutations"]
        if len(cs) != 1:
            return f"{len(cs)} kernel calls"
        a0 = text_of(cs[0]["args"][0])
        explicit = ("node_is_sample is None", False) in p.conds
        if explicit and a0 != "node_is_sample":
            return f"explicit mask not handed to the kernel (first argument is {a0})"
        a = [text_of(x) for x in cs[0]["args"][1:]]
        want = ["ts.mutations_node", "ts.sites_position[ts.mutations_site]", "ts.edges_parent", "ts.edges_child", "ts.edges_left",
                "ts.edges_right", "ts.indexes_edge_insertion_order", "ts.indexes_edge_removal_order", "ts.sequence_length", "size_biased"]
        if a != want:
            return f"kernel arguments are {a}"
        return None
    g.forall_paths(f"{name}:mask-and-tables-reach-kernel", paths, flow_,
                   "the explicit mask (or the ts.samples() mask) and the tree-sequence columns are the kernel's arguments",
                   only=lambda p: p.status == "return")


def constrain_ages_wrapper(g):
    """C03: the `fixed` mask handed to the kernel is exactly the NODE_IS_SAMPLE bit of the flags (z3, bit-vectors)."""
    import z3
    name = "util.constrain_ages"
    paths = g.trace(name)
    if paths is None:
        return
    fn = extract.get_function(name)
    defs = {ast.unparse(n.targets[0]): n.value for n in ast.walk(fn.node) if isinstance(n, ast.Assign) and len(n.targets) == 1}
    f = z3.BitVec("flags", 32)
    S = z3.BitVecVal(1, 32)

    def enc(e):
        if isinstance(e, ast.Attribute) and ast.unparse(e) == "ts.nodes_flags":
            return f
        if ast.unparse(e) == "tskit.NODE_IS_SAMPLE":
            return S
        if isinstance(e, ast.Constant) and isinstance(e.value, int):
            return z3.BitVecVal(e.value, 32)
        if isinstance(e, ast.Call) and ast.unparse(e.func) == "np.bitwise_and":
            return enc(e.args[0]) & enc(e.args[1])
        if isinstance(e, ast.BinOp) and isinstance(e.op, ast.BitAnd):
            return enc(e.left) & enc(e.right)
        if isinstance(e, ast.Call) and isinstance(e.func, ast.Attribute) and e.func.attr == "astype" and ast.unparse(e.args[0]) == "bool":
            v = enc(e.func.value)
            return v != 0 if z3.is_bv(v) else v
        if isinstance(e, ast.Compare) and len(e.ops) == 1:
            a, b = enc(e.left), enc(e.comparators[0])
            return {ast.Eq: a == b, ast.NotEq: a != b, ast.Gt: z3.UGT(a, b)}[type(e.ops[0])]
        raise ValueError(ast.unparse(e))

    def mask(p):
        cs = [ev for ev in p.events if ev["kind"] == "call" and ev["func"] == "_constrain_ages"]
        if len(cs) != 1:
            return f"{len(cs)} kernel calls"
        a = [text_of(x) for x in cs[0]["args"]]
        if [a[0]] + a[2:] != ["nodes_time", "ts.edges_parent", "ts.edges_child", "epsilon", "max_iterations"]:
            return f"kernel arguments are {a}"
        if text_of(p.result) != text_of(p.env.get("constrained_nodes_time")) or "_constrain_ages(" not in text_of(p.result):
            return "the kernel's result is not what is returned"
        return None
    g.forall_paths(f"{name}:arguments-reach-kernel-result-returned", paths, mask,
                   "_constrain_ages(nodes_time, nodes_fixed, ts.edges_parent, ts.edges_child, epsilon, max_iterations) is returned",
                   only=lambda p: p.status == "return")
    def untouched(p):
        """frame: between the kernel call and the return nothing is stored into the kernel's result or into the
        caller's nodes_time (an item store does not rebind the name, so the data-flow clause above cannot see it)"""
        protected = {text_of(p.result), "nodes_time", "constrained_nodes_time"}
        for ev in p.events:
            if ev["kind"] in ("store-item", "store") and (ev.get("target") in protected or ev.get("base") in protected):
                return f"line {ev.get('lineno')}: store into {ev.get('target')}[{ev.get('index', '')}]"
            if ev["kind"] == "call" and ev.get("func") in ("sort", "fill", "put", "itemset", "resize", "partition") \
                    and text_of(ev.get("recv", "")) in protected:
                return f"in-place method {ev.get('func')} on {text_of(ev.get('recv'))}"
        return None
    g.forall_paths(f"{name}:kernel-result-and-input-not-modified", paths, untouched,
                   "assigns: no element store / in-place method on the kernel's result or on nodes_time in the wrapper",
                   only=lambda p: p.status == "return")
    ok, why = False, "nodes_fixed is not defined by an assignment"
    if "nodes_fixed" in defs:
        try:
            b = enc(defs["nodes_fixed"])
            sol = z3.Solver()
            sol.add(b != ((f & S) != 0))
            r = sol.check()
            ok = r == z3.unsat
            why = "" if ok else f"`{ast.unparse(defs['nodes_fixed'])}` differs from the sample bit for flags = {sol.model()[f]}"
        except (ValueError, KeyError) as e:
            why = f"cannot encode `{ast.unparse(defs['nodes_fixed'])}`: {e}"
    g.ob(f"{name}:fixed-mask-is-the-sample-flag-bit", ok,
         "forall flags:uint32. nodes_fixed == ((flags & NODE_IS_SAMPLE) != 0)   (z3 bit-vectors)", why)


# ---------------------------------------------------------------------------------------------
TS_ALLOWED = {
    # topology, node times, sample flags
    "num_nodes", "num_edges", "num_samples", "num_trees", "sequence_length", "get_sequence_length", "nodes_time",
    "nodes_flags", "samples", "edges_parent", "edges_child", "edges_left", "edges_right", "edges", "edge", "node",
    "indexes_edge_insertion_order", "indexes_edge_removal_order", "trees", "first", "edge_diffs", "simplify",
    # mutation placement (position and node)
    "num_mutations", "mutations_node", "mutations_site", "sites_position", "mutations",
}
TS_ALLOWED_UNPHASED = {"nodes_individual", "individuals", "individual", "num_individuals"}
FORBIDDEN_ANYWHERE = {"metadata", "derived_state", "ancestral_state", "population", "populations", "provenances",
                      "num_sites", "sites", "site", "num_populations", "migrations", "mutations_time",
                      "mutations_derived_state", "sites_ancestral_state", "nodes_population", "tables"}
# (module, function-or-class prefix) that make up the dating cone
CONE = [("core", ""), ("variational", ""), ("discrete", ""), ("prior", ""), ("rescaling", "count_mutations"),
        ("rescaling", "_count_mutations"), ("phasing", "block_singletons"), ("phasing", "_block_singletons"),
        ("util", "constrain_ages"), ("util", "contains_unary_nodes"), ("util", "mutation_span_array"),
        ("util", "reduce_to_contemporaneous"), ("node_time_class", ""), ("demography", "")]
# reviewed uses of otherwise forbidden names inside the cone (they do not flow into Results / node times)
READ_EXCEPTIONS = {
    ("core", "EstimationMethod.get_modified_ts", "dump_tables"): "result flows only into the output tables",
    ("core", "EstimationMethod.set_time_metadata", "metadata"): "C32: existing metadata is merged into the OUTPUT rows only",
    ("core", "EstimationMethod.set_time_metadata", "metadata_schema"): "C32",
    ("core", "EstimationMethod.set_time_metadata._time_md_array", "metadata"): "C32",
    ("core", "EstimationMethod.set_time_metadata._time_md_array", "metadata_schema"): "C32",
    ("core", "EstimationMethod.get_modified_ts", "time_units"): "written, not read",
    ("prior", "MixturePrior.__init__", "dump_tables"): "?",
}


def _is_ts_alias(e):
    if isinstance(e, ast.Name):
        return e.id in ("ts", "tree_sequence", "contmpr_ts", "base_ts")
    if isinstance(e, ast.Attribute):
        return e.attr in ("ts", "tree_sequence")
    return False


def reads_contract(g):
    """C08: inside the dating cone, the input tree sequence is read only through topology, node times,
    sample flags and mutation position/node (individuals only on the unphased-singleton path)."""
    offenders, forb = [], []
    nfun = 0
    seen_attrs = set()
    for module, prefix in CONE:
        try:
            tree, _ = extract.module_ast(module)
        except FileNotFoundError as e:
            g.ob(f"{module}:attach", False, "module readable", str(e), verdict="does-not-attach")
            continue

        def walk(node, qual):
            nonlocal nfun
            for ch in ast.iter_child_nodes(node):
                q = qual
                if isinstance(ch, (ast.FunctionDef, ast.ClassDef)):
                    q = f"{qual}.{ch.name}" if qual else ch.name
                    if isinstance(ch, ast.FunctionDef):
                        nfun += 1
                if isinstance(ch, ast.Attribute) and (not prefix or qual == prefix or qual.startswith(prefix + ".")):
                    if _is_ts_alias(ch.value):
                        seen_attrs.add(ch.attr)
                        ok = ch.attr in TS_ALLOWED or (ch.attr in TS_ALLOWED_UNPHASED and (module == "phasing" or qual.endswith("ExpectationPropagation.__init__")))
                        if not ok and (module, qual, ch.attr) not in READ_EXCEPTIONS and ch.attr not in ("dump_tables",) :
                            offenders.append(f"{module}.{qual} line {ch.lineno}: reads .{ch.attr} of the input tree sequence")
                        if ch.attr == "dump_tables" and (module, qual, "dump_tables") not in READ_EXCEPTIONS:
                            offenders.append(f"{module}.{qual} line {ch.lineno}: dump_tables() outside get_modified_ts")
                    if ch.attr in FORBIDDEN_ANYWHERE and (module, qual, ch.attr) not in READ_EXCEPTIONS:
                        # attribute of any object (Node.metadata, Mutation.derived_state, ...)
                        if not (isinstance(ch.ctx, ast.Store)):
                            forb.append(f"{module}.{qual} line {ch.lineno}: reads .{ch.attr}")
                walk(ch, q)
        walk(tree, "")
    g.ob("dating-cone:reads-of-input-within-frame", not offenders,
         f"every attribute read on the input tree sequence in the dating cone is in the allowed frame "
         f"{sorted(TS_ALLOWED)} (+ individuals only for unphased singletons); attributes seen: {sorted(seen_attrs)} "
         f"[{nfun} functions scanned]", "; ".join(offenders[:6]))
    g.ob("dating-cone:no-read-of-model-irrelevant-data", not forb,
         f"no function in the dating cone reads {sorted(FORBIDDEN_ANYWHERE)} of any object "
         "(exceptions: set_time_metadata merges existing metadata into the output rows)", "; ".join(forb[:6]))

    # monomorphic sites: sites_position is only ever indexed by mutations_site
    bad = []
    for module in ("variational", "rescaling", "phasing", "util", "discrete", "prior", "core"):
        tree, _ = extract.module_ast(module)
        for n in ast.walk(tree):
            if isinstance(n, ast.Attribute) and n.attr == "sites_position" and _is_ts_alias(n.value):
                pass
        for n in ast.walk(tree):
            if isinstance(n, ast.Subscript) and isinstance(n.value, ast.Attribute) and n.value.attr == "sites_position":
                if not (isinstance(n.slice, ast.Attribute) and n.slice.attr == "mutations_site") and \
                        not (isinstance(n.slice, ast.Subscript) and "mutations_site" in ast.unparse(n.slice)):
                    bad.append(f"{module} line {n.lineno}: sites_position[{ast.unparse(n.slice)}]")
    uses = []
    for module, prefix in CONE:
        tree, _ = extract.module_ast(module)
        for fnode in [n for n in ast.walk(tree) if isinstance(n, ast.FunctionDef)]:
            if prefix and fnode.name != prefix.split(".")[-1]:
                continue
            for n in ast.walk(fnode):
                if isinstance(n, ast.Attribute) and n.attr == "sites_position":
                    par_ok = False
                    for m in ast.walk(fnode):
                        if isinstance(m, ast.Subscript) and m.value is n and "mutations_site" in ast.unparse(m.slice):
                            par_ok = True
                    if not par_ok:
                        uses.append(f"{module}.{fnode.name} line {n.lineno}")
    g.ob("dating-cone:site-positions-only-through-mutations", not uses,
         "sites_position is only used as sites_position[mutations_site] (sites without mutations cannot influence dates)",
         "; ".join(uses[:5]))


# ---------------------------------------------------------------------------------------------
def provenance_contract(g):
    """C33: one record per call when recording, none otherwise; the record names the command and parameters."""
    name = "provenance.record_provenance"
    paths = g.trace(name)
    if paths is not None:
        def one_row(p):
            rows = [ev for ev in p.events if ev["kind"] == "call" and ev.get("method") == "add_row"]
            if len(rows) != 1 or rows[0]["recv"] != "tables.provenances":
                return f"{len(rows)} add_row calls"
            rec = rows[0]["kwargs"].get("record")
            o = getattr(rec, "origin", None)
            if o is None or o["func"] != "json.dumps":
                return "record is not json.dumps(...)"
            src = getattr(o["args"][0], "origin", None)
            if src is None or src["func"] != "get_provenance_dict" or text_of(src["kwargs"].get("command")) != "command":
                return "record is not get_provenance_dict(command=command, ...)"
            if [text_of(s_) for s_ in src["star_kwargs"]] != ["{...}"] and not src["star_kwargs"]:
                return "parameters (**kwargs) are not forwarded into the record"
            others = [ev for ev in p.events if ev["kind"] in ("store", "store-item") or
                      (ev["kind"] == "call" and ev.get("recv", "") and ev["recv"].startswith("tables") and ev.get("method") != "add_row")]
            if others:
                return "touches the tables beyond provenances.add_row"
            return None
        g.forall_paths(f"{name}:appends-exactly-one-row", paths, one_row,
                       "tables.provenances.add_row(record=json.dumps(get_provenance_dict(command, start_time, **kwargs))) "
                       "exactly once; nothing else in the tables is touched (earlier records kept: A-TS-API add_row appends)")
    name = "provenance.get_provenance_dict"
    fn = extract.get_function(name)
    src = ast.unparse(fn.node)
    ok = "parameters = dict(kwargs)" in src and "parameters['command'] = command" in src and "'parameters': parameters" in src
    g.ctx.functions.append({**fn.describe(), "mode": "G3 structural"})
    g.ob(f"{name}:record-has-command-and-all-parameters", ok,
         "document['parameters'] == {**kwargs, 'command': command}", None if ok else "record construction changed")

    # __init__: provenance_params recorded iff record_provenance
    name = "core.EstimationMethod.__init__"
    paths = g.trace(name)
    if paths is not None:
        def params(p):
            v = p.heap.get("self.provenance_params")
            on = ("record_provenance", True) in p.conds or ("record_provenance is None", True) in p.conds
            off = ("record_provenance", False) in p.conds
            if off:
                if not (isinstance(v, Const) and v.v is None):
                    return "provenance_params set although record_provenance is false"
                return None
            if not isinstance(v, DictVal):
                return f"provenance_params is {text_of(v)} although recording is on"
            want = {"mutation_rate": "mutation_rate", "recombination_rate": "recombination_rate", "time_units": "time_units",
                    "progress": "progress"}
            for k, w in want.items():
                pinned_none = isinstance(v.items.get(k), Const) and v.items[k].v is None and \
                    ((f"{w} is not None", False) in p.conds or (f"{w} is None", True) in p.conds)
                if k not in v.items or (text_of(v.items[k]) != w and not pinned_none):
                    return f"provenance parameter {k} is {text_of(v.items.get(k))}"
            if "population_size" not in v.items:
                return "population_size not recorded"
            return None
        g.forall_paths(f"{name}:provenance-params-iff-recording", paths, params,
                       "self.provenance_params == dict(mutation_rate, recombination_rate, time_units, progress, population_size) "
                       "if record_provenance (None -> True) else None", only=lambda p: p.status == "return")
    for cls in ("InsideOutsideMethod", "MaximizationMethod", "VariationalGammaMethod"):
        name = f"core.{cls}.run"
        paths = g.trace(name)
        if paths is None:
            continue
        fn = extract.get_function(name)
        pnames = [a.arg for a in fn.node.args.args if a.arg != "self"]

        def upd(p, pnames=pnames):
            if ("self.provenance_params is not None", True) not in p.conds:
                return None
            us = [ev for ev in p.events if ev["kind"] == "call" and ev["func"] == "self.provenance_params.update"]
            if len(us) != 1:
                return f"{len(us)} updates of provenance_params"
            d = us[0]["args"][0]
            if not isinstance(d, DictVal):
                return "update argument is not the locals() dict"
            for k in pnames:
                if k not in d.items or text_of(d.items[k]) != k:
                    return f"run() parameter `{k}` is not recorded with its value"
            if "self" in d.items:
                return "`self` recorded in provenance"
            return None
        g.forall_paths(f"{name}:all-run-parameters-recorded", paths, upd,
                       f"when recording, provenance_params is updated with every run() parameter {pnames} at its value")

    name = "util.preprocess_ts"
    paths = g.trace(name)
    if paths is not None:
        def prep(p):
            if p.status != "return":
                return None
            cs = [ev for ev in p.events if ev["kind"] == "call" and ev["func"] == "provenance.record_provenance"]
            on = not any(c == ("record_provenance", False) for c in p.conds)
            if on and len(cs) != 1:
                return f"{len(cs)} provenance records with recording on"
            if not on and cs:
                return "provenance recorded with recording off"
            for ev in p.events:
                if ev["kind"] == "call" and ev["func"] == "split_disjoint_nodes":
                    rp = ev["kwargs"].get("record_provenance")
                    if not (isinstance(rp, Const) and rp.v is False):
                        return "nested split_disjoint_nodes call would add its own provenance record"
                if ev["kind"] == "call" and ev.get("method") in ("simplify", "delete_intervals"):
                    rp = ev["kwargs"].get("record_provenance")
                    if not (isinstance(rp, Const) and rp.v is False):
                        return f"tables.{ev['method']} would add its own provenance record"
            if on:
                a = cs[0]["args"]
                if text_of(a[1]) != "'preprocess_ts'":
                    return f"command recorded as {text_of(a[1])}"
                want = ["minimum_gap", "erase_flanks", "split_disjoint", "filter_populations", "filter_individuals",
                        "filter_sites", "delete_intervals"]
                for k in want:
                    if k not in cs[0]["kwargs"]:
                        return f"parameter {k} not recorded"
            return None
        g.forall_paths(f"{name}:exactly-one-provenance-record-iff-recording", paths, prep,
                       "preprocess_ts: exactly one record named 'preprocess_ts' with all its parameters when recording, "
                       "none when off; nested calls pass record_provenance=False")


def preprocess_frame(g):
    """C28: what preprocess_ts does to the tables, as a call protocol."""
    name = "util.preprocess_ts"
    paths = g.trace(name)
    if paths is None:
        return

    def proto(p):
        if p.status != "return":
            return None
        seq = [ev.get("method") for ev in p.events if ev["kind"] == "call" and (ev.get("recv") or "").startswith("tree_sequence.dump_tables(")
               and ev.get("method") in ("delete_intervals", "simplify", "sort", "tree_sequence", "subset", "keep_intervals", "trim", "delete_sites")]
        has_del = any(c == ("len(delete_intervals) > 0", True) for c in p.conds) or "delete_intervals" in seq
        for m in seq:
            if m not in ("delete_intervals", "simplify", "sort", "tree_sequence"):
                return f"calls tables.{m}()"
        if "simplify" not in seq or seq.index("simplify") > seq.index("sort"):
            return "simplify/sort order"
        for ev in p.events:
            if ev["kind"] == "call" and ev.get("method") == "simplify":
                if ev["args"]:
                    return "simplify called with an explicit sample list (samples could be dropped or re-ordered)"
                kw = ev["kwargs"]
                for k in ("filter_populations", "filter_individuals", "filter_sites"):
                    if text_of(kw.get(k)) != k:
                        return f"simplify({k}=...) is not the caller's value"
            if ev["kind"] == "call" and ev.get("method") == "delete_intervals":
                sm = ev["kwargs"].get("simplify")
                if not (isinstance(sm, Const) and sm.v is False):
                    return "delete_intervals(simplify=True) would simplify before the flags are applied"
        return None
    g.forall_paths(f"{name}:table-protocol", paths, proto,
                   "tables: [delete_intervals(computed-or-user intervals, simplify=False)] -> simplify(filter_* = caller's values, "
                   "no sample list) -> sort -> [split_disjoint_nodes] -> tree_sequence")

    def exclusive(p):
        if ("delete_intervals is not None and (minimum_gap is not None or erase_flanks is not None)", True) in p.conds or \
                any("delete_intervals is not None" in c[0] and "minimum_gap is not None" in c[0] and c[1] for c in p.conds):
            if p.status != "raise" or p.result != "ValueError":
                return "user delete_intervals together with minimum_gap/erase_flanks is not rejected"
        return None
    g.forall_paths(f"{name}:user-intervals-exclusive", paths, exclusive,
                   "delete_intervals given together with minimum_gap/erase_flanks  =>  ValueError")


# ---------------------------------------------------------------------------------------------
def rescale_orientation(g):
    """C23 call-site obligation: the phase handed to reallocate_unphased credits the larger share to the
    branch each singleton has been placed on."""
    import z3
    name = "variational.ExpectationPropagation.rescale"
    try:
        fn = extract.get_function(name)
        inf = extract.get_function("variational.ExpectationPropagation.infer")
    except LookupError as e:
        g.ob(f"{name}:attach", False, "functions exist", str(e), verdict="does-not-attach")
        return
    g.ctx.functions.append({**fn.describe(), "mode": "G3 data-flow + z3 scalar lemma"})
    defs = {}
    stores = []
    for n in ast.walk(fn.node):
        if isinstance(n, ast.Assign) and len(n.targets) == 1:
            t = n.targets[0]
            if isinstance(t, ast.Name):
                defs[t.id] = ast.unparse(n.value)
            elif isinstance(t, ast.Subscript):
                stores.append((ast.unparse(t), ast.unparse(n.value)))
    calls_ = [n for n in ast.walk(fn.node) if isinstance(n, ast.Call) and ast.unparse(n.func) == "reallocate_unphased"]
    if len(calls_) != 1:
        g.ob(f"{name}:attach", False, "one reallocate_unphased call", f"{len(calls_)} calls", verdict="does-not-attach")
        return
    a = [ast.unparse(x) for x in calls_[0].args]
    phase_arg = a[1]
    # what infer() leaves: mutation_edges[s] = block edge 1 if phase < 0.5 else edge 0 ; phase := max(p, 1-p)
    isrc = ast.unparse(inf.node)
    infer_ok = ("np.where(self.mutation_phase[singletons] < 0.5, self.block_edges[switched_blocks, 1], self.block_edges[switched_blocks, 0])" in isrc
                and "self.mutation_edges[singletons] = switched_edges" in isrc
                and "self.mutation_phase[switched] = 1 - self.mutation_phase[switched]" in isrc
                and "switched = self.mutation_phase < 0.5" in isrc)
    g.ob("variational.ExpectationPropagation.infer:placement-on-more-probable-edge-and-phase-folded", infer_ok,
         "infer(): singleton placed on block edge 1 iff phase < 0.5, then phase := max(phase, 1 - phase)",
         None if infer_ok else "the placement / folding statements of infer() changed shape")
    # scalar model of one singleton: p0 = prob. of block edge 0 before folding
    p0 = z3.Real("p0")
    placed_second = p0 < 0.5
    folded = z3.If(p0 < 0.5, 1 - p0, p0)
    if phase_arg == "self.mutation_phase":
        given = folded
        how = "self.mutation_phase (probability of the PLACED edge) is credited to the block's FIRST edge"
    elif phase_arg == "block_phase" and defs.get("block_phase") == "self.mutation_phase.copy()" \
            and ("block_phase[on_second]", "1 - block_phase[on_second]") in stores \
            and defs.get("on_second") == "singletons[self.mutation_edges[singletons] != first_edge]" \
            and defs.get("first_edge") == "self.block_edges[self.mutation_blocks[singletons], 0]":
        given = z3.If(placed_second, 1 - folded, folded)
        how = "block_phase = phase of the first edge (flipped back where the singleton sits on the second edge)"
    else:
        g.ob(f"{name}:placed-branch-gets-larger-share", False, "orientation of the phase argument",
             f"cannot interpret the phase argument `{phase_arg}`", verdict="unknown")
        return
    share_first, share_second = given, 1 - given
    placed_share = z3.If(placed_second, share_second, share_first)
    other_share = z3.If(placed_second, share_first, share_second)
    s = z3.Solver()
    s.add(p0 >= 0, p0 <= 1, z3.Not(z3.And(placed_share >= other_share, placed_share + other_share == 1)))
    r = s.check()
    ok = r == z3.unsat
    g.ob(f"{name}:placed-branch-gets-larger-share", ok,
         "forall p0 in [0,1]: share(placed edge) >= share(other edge) and the two shares sum to 1   (z3; " + how + ")",
         None if ok else f"counter-example p0 = {s.model()[p0]}: {how}")


# ---------------------------------------------------------------------------------------------
def demography_contract(g):
    """C17 glue: the callers of _change_time_measure establish its precondition and pass the right triples."""
    import z3
    name = "demography.PopulationSizeHistory.__init__"
    paths = g.trace(name)
    if paths is not None:
        def init(p):
            if p.status != "return":
                return None
            conds = dict(p.conds)
            need = ["not np.all(population_size > 0.0)", "not np.all(np.isfinite(population_size))",
                    "not time_breaks.size == population_size.size - 1"]
            for c in need:
                hit = [k for k in conds if _norm(k) == _norm(c)]
                if not hit or conds[hit[0]] is not False:
                    return f"returns without having excluded `{c}`"
            if ("time_breaks.size > 0", True) in p.conds:
                for c in ["not np.all(time_breaks > 0.0)", "not np.all(np.diff(time_breaks) > 0.0)"]:
                    hit = [k for k in conds if _norm(k) == _norm(c)]
                    if not hit or conds[hit[0]] is not False:
                        return f"returns without having excluded `{c}`"
            tb = text_of(p.heap.get("self.time_breaks"))
            ps = text_of(p.heap.get("self.population_size"))
            if "np.append(" not in tb:
                return "time_breaks is not [0] ++ user breaks"
            if ps != "(2 Mult population_size.flatten(...)#" + ps.split("#")[-1] and "2 Mult" not in ps:
                return f"population_size stored as {ps}, contract wants 2 * N (the integral of 1/(2N))"
            cs = [ev for ev in p.events if ev["kind"] == "call" and ev["func"] == "self._change_time_measure"]
            if len(cs) != 1 or [text_of(a) for a in cs[0]["args"]] != [tb, tb, ps]:
                return "coalescent breaks are not _change_time_measure(time_breaks, time_breaks, population_size)"
            if "self._change_time_measure(" not in text_of(p.heap.get("self.coalescent_breaks")) or \
                    not text_of(p.heap.get("self.coalescent_breaks")).endswith("[1]") or \
                    not text_of(p.heap.get("self.coalescent_rate")).endswith("[2]"):
                return "coalescent_breaks / coalescent_rate are not results [1] and [2] of that call"
            return None
        g.forall_paths(f"{name}:establishes-precondition-and-stores-integral-at-breaks", paths, init,
                       "sizes > 0 and finite, breaks > 0 and strictly increasing (adjacent), one more size than breaks; "
                       "time_breaks = [0] ++ breaks; population_size = 2N; (coalescent_breaks, coalescent_rate) = "
                       "_change_time_measure(time_breaks, time_breaks, 2N)[1:]")
    for meth, want in (("to_coalescent_timescale", ["time_ago", "self.time_breaks", "self.population_size"]),
                       ("to_natural_timescale", ["coalescent_time_ago", "self.coalescent_breaks", "self.coalescent_rate"])):
        name = f"demography.PopulationSizeHistory.{meth}"
        paths = g.trace(name)
        if paths is None:
            continue

        def conv(p, want=want):
            if p.status != "return":
                return None
            cs = [ev for ev in p.events if ev["kind"] == "call" and ev["func"] == "self._change_time_measure"]
            if len(cs) != 1 or [text_of(a) for a in cs[0]["args"]] != want:
                return f"does not call _change_time_measure{tuple(want)}"
            if not text_of(p.result).endswith("[0]") or "self._change_time_measure(" not in text_of(p.result):
                return "does not return the converted times (result [0])"
            return None
        if not any(ev["kind"] == "call" and ev["func"] == "self._change_time_measure" for p in paths for ev in p.events):
            # a different implementation of the map: its meaning is not decided by this data-flow contract (it may be a
            # mathematically equal rewrite); undecided here, the bounded integral / round-trip clauses decide it
            g.ob(f"{name}:is-change-time-measure-of-the-stored-history", False, f"returns _change_time_measure({', '.join(want)})[0]",
                 "the method no longer calls _change_time_measure: not decided by this contract", verdict="does-not-attach")
            continue
        g.forall_paths(f"{name}:is-change-time-measure-of-the-stored-history", paths, conv,
                       f"returns _change_time_measure({', '.join(want)})[0]")
    # as_dict round trip: stored 2N, as_dict gives (2N)/2, the constructor doubles again -- exact in binary64
    x = z3.FP("x", z3.Float64())
    two = z3.FPVal(2.0, z3.Float64())
    rm = z3.RNE()
    y = z3.fpMul(rm, two, x)
    back = z3.fpMul(rm, two, z3.fpDiv(rm, y, two))
    s = z3.Solver()
    s.add(z3.Not(z3.fpIsNaN(x)), z3.Not(z3.fpIsInf(y)), z3.Not(z3.fpEQ(back, y)))
    s.set("timeout", 120000)
    r = s.check()
    fn = extract.get_function("demography.PopulationSizeHistory.as_dict")
    src = ast.unparse(fn.node)
    shape_ok = "'population_size': list(self.population_size / 2)" in src and "ret_val['time_breaks'] = list(self.time_breaks[1:])" in src
    g.ctx.functions.append({**fn.describe(), "mode": "G3 structural + z3 binary64 lemma"})
    g.ob("demography.PopulationSizeHistory.as_dict:rebuilds-identical-history", shape_ok and r == z3.unsat,
         "as_dict() = {population_size: stored/2, time_breaks: stored[1:]} and forall x: fl(2*fl(fl(2x)/2)) == fl(2x) unless "
         "fl(2x) overflows (z3, bit-precise binary64), so the rebuilt object stores identical arrays",
         None if (shape_ok and r == z3.unsat) else f"shape_ok={shape_ok}, lemma={r}")


# ---------------------------------------------------------------------------------------------
def iterate_composition(g):
    """C21: one EP iteration = block sweep, edge sweep, [root prior], then the scale is absorbed (scale == 1), each
    step called on the object's own state, so the per-kernel invariant posterior == scale * S composes to
    posterior == S == sum of messages at the end of every iteration."""
    name = "variational.ExpectationPropagation.iterate"
    paths = g.trace(name)
    if paths is None:
        return

    def comp(p):
        if p.status != "return":
            return None
        seq = [ev for ev in p.events if ev["kind"] == "call" and ev["func"] in
               ("self.propagate_likelihood", "self.propagate_prior", "_rescale_factors", "self._check_valid_state")]
        names = [ev["func"] for ev in seq]
        reg = any(c == ("regularise", True) for c in p.conds)
        want = ["self.propagate_likelihood", "self.propagate_likelihood"] + (["self.propagate_prior"] if reg else []) + ["_rescale_factors"]
        if [n for n in names if n != "self._check_valid_state"] != want:
            return f"call sequence is {names}, contract wants {want}"
        blk = [text_of(a) for a in seq[0]["args"]]
        edg = [text_of(a) for a in seq[1]["args"]]
        want_blk = ["self.block_order", "self.block_nodes[ROOTWARD]", "self.block_nodes[LEAFWARD]", "self.block_likelihoods",
                    "self.node_constraints", "self.node_posterior", "self.factors", "self.block_logconst", "max_shape", "min_step",
                    "USE_BLOCK_LIKELIHOOD"]
        want_edg = ["self.edge_order", "self.edge_parents", "self.edge_children", "self.edge_likelihoods",
                    "self.node_constraints", "self.node_posterior", "self.factors", "self.edge_logconst", "max_shape", "min_step",
                    "USE_EDGE_LIKELIHOOD"]
        if blk != want_blk:
            return f"block sweep arguments are {blk}"
        if edg != want_edg:
            return f"edge sweep arguments are {edg}"
        last = [ev for ev in seq if ev["func"] == "_rescale_factors"][-1]
        if [text_of(a) for a in last["args"]] != ["self.factors"]:
            return "final _rescale_factors is not applied to self.factors"
        if reg:
            pr = [ev for ev in seq if ev["func"] == "self.propagate_prior"][0]
            a = [text_of(x) for x in pr["args"]]
            if a[:4] != ["self.unconstrained_roots", "self.node_posterior", "self.factors", "max_shape"]:
                return f"propagate_prior arguments are {a}"
        # nothing else touches the posterior / factors
        for ev in p.events:
            if ev["kind"] in ("store", "store-item") and ("node_posterior" in ev.get("target", "") or "factors" in ev.get("target", "")):
                return f"direct write to {ev['target']}"
        return None
    g.forall_paths(f"{name}:block-sweep-edge-sweep-prior-then-absorb-scale", paths, comp,
                   "iterate() = propagate_likelihood(blocks) ; propagate_likelihood(edges) ; [propagate_prior(roots)] ; "
                   "_rescale_factors(self.factors), all on self.node_posterior / self.factors / self.node_constraints")
    consts = extract.module_constants("variational")
    ok = consts.get("USE_EDGE_LIKELIHOOD") is False and consts.get("USE_BLOCK_LIKELIHOOD") is True and \
        consts.get("ROOTWARD") == 0 and consts.get("LEAFWARD") == 1
    g.ob("variational:flags-select-the-block-and-edge-factor-arrays", ok,
         "USE_BLOCK_LIKELIHOOD is True, USE_EDGE_LIKELIHOOD is False (so the two sweeps are the two verified variants), "
         "ROOTWARD = 0, LEAFWARD = 1", None if ok else str({k: consts.get(k) for k in ("USE_EDGE_LIKELIHOOD", "USE_BLOCK_LIKELIHOOD", "ROOTWARD", "LEAFWARD")}))
    # fixed nodes: node_moments ignores the posterior of fixed nodes
    fn = extract.get_function("variational.ExpectationPropagation.node_moments")
    src = ast.unparse(fn.node)
    ok = "nodes_mn = np.ascontiguousarray(self.node_constraints[:, 0])" in src and \
        "free = self.node_constraints[:, 0] != self.node_constraints[:, 1]" in src and \
        "nodes_mn[free] = (alpha[free] + 1) / beta[free]" in src and "nodes_va = np.zeros(nodes_mn.size)" in src
    g.ctx.functions.append({**fn.describe(), "mode": "G3 structural"})
    g.ob("variational.ExpectationPropagation.node_moments:fixed-nodes-report-their-time-with-zero-variance", ok,
         "mean := lower constraint, variance := 0 for fixed nodes; (alpha+1)/beta and mean/beta for free nodes",
         None if ok else "node_moments changed shape")


# ---------------------------------------------------------------------------------------------
def loop_assigned_locals(g, fname="variational.ExpectationPropagation.rescale",
                         callers=("variational.ExpectationPropagation.infer",)):
    """C35 (no internal errors): a local that is assigned only inside a `for _ in np.arange(n)` body and read after
    the loop is unbound when n == 0 (UnboundLocalError).  The function gets the precondition `n > 0` for each such
    loop, and every call site in `callers` must establish it on the path that reaches the call."""
    from . import defassign
    try:
        fn = extract.get_function(fname)
    except LookupError as e:
        g.ob(f"{fname}:attach", False, "function exists", str(e), verdict="does-not-attach")
        return
    issues = defassign.analyse(fn.node)
    params = [a.arg for a in fn.node.args.args + fn.node.args.kwonlyargs]
    need = {}      # parameter -> variables whose binding depends on the loop over it
    unexplained = []
    for var, line in issues:
        found = None
        for loop in [n for n in ast.walk(fn.node) if isinstance(n, ast.For)]:
            stores = {t.id for st in loop.body for t in ast.walk(st) if isinstance(t, ast.Name) and isinstance(t.ctx, ast.Store)}
            if var in stores and isinstance(loop.iter, ast.Call) and ast.unparse(loop.iter.func) in ("np.arange", "range") \
                    and len(loop.iter.args) == 1 and isinstance(loop.iter.args[0], ast.Name) and loop.iter.args[0].id in params \
                    and line > loop.end_lineno:
                found = loop.iter.args[0].id
        if found:
            need.setdefault(found, set()).add(var)
        else:
            unexplained.append((var, line))
    g.ob(f"{fname}:locals-bound-before-use", not unexplained,
         "every local read is assigned on every path to the read, given that the counted loops run at least once "
         f"(preconditions: {', '.join(p + ' > 0' for p in sorted(need)) or 'none'})",
         f"possibly unbound: {unexplained}" if unexplained else "",
         verdict=None if not unexplained else "unknown")
    short = fname.split(".")[-1]
    for caller in callers:
        paths = g.trace(caller)
        if paths is None:
            continue

        def pred(p):
            for ev in p.events:
                if ev["kind"] == "call" and ev["func"] in (f"self.{short}", short):
                    for par in sorted(need):
                        arg = ev["kwargs"].get(par)
                        if arg is None:
                            idx = params.index(par) - (1 if params and params[0] == "self" else 0)
                            arg = ev["args"][idx] if 0 <= idx < len(ev["args"]) else None
                        if arg is None:
                            return f"{par} is left to its default at the call of {short}"
                        want = text_of(arg)
                        ok = False
                        for text, val in p.conds:
                            try:
                                t = ast.parse(text, mode="eval").body
                            except SyntaxError:
                                continue
                            conj = t.values if isinstance(t, ast.BoolOp) and isinstance(t.op, ast.And) and val else [t] if val else []
                            for c in conj:
                                if isinstance(c, ast.Compare) and len(c.ops) == 1 and ast.unparse(c.left) == want and (
                                        (isinstance(c.ops[0], ast.Gt) and ast.unparse(c.comparators[0]) == "0") or
                                        (isinstance(c.ops[0], ast.GtE) and ast.unparse(c.comparators[0]) == "1")):
                                    ok = True
                        if not ok:
                            return (f"{short}() is called without the path having established {want} > 0 "
                                    f"({', '.join(sorted(need[par]))} would be unbound when it is 0)")
            return None
        g.forall_paths(f"{caller}:establishes-{short}-precondition", paths, pred,
                       f"every call of {short}() is guarded by " + " and ".join(f"{p} > 0" for p in sorted(need)))


# ---------------------------------------------------------------------------------------------
def rescale_factors_effect(g):
    """C21 / C05 / C20: the G1 proof of propagate_likelihood uses the contract of `_rescale_factors` (every message
    multiplied IN PLACE by the scale of the node it belongs to, then scale[:] = 1, so scale*message -- hence the
    posterior bookkeeping -- is unchanged and the kernel's local aliases `scale`, `factor` stay valid).  This is that
    contract as an effect obligation on the real body: exactly these seven element-wise in-place stores, in any
    order, no rebinding of a field of `factors`, nothing else written."""
    name = "variational._rescale_factors"
    paths = g.trace(name)
    if paths is None:
        return
    want = {
        ("factors.edge", "(:, ROOTWARD)", "(factors.edge[(:, ROOTWARD)] Mult factors.scale[(factors._p, np.newaxis)])"),
        ("factors.edge", "(:, LEAFWARD)", "(factors.edge[(:, LEAFWARD)] Mult factors.scale[(factors._c, np.newaxis)])"),
        ("factors.block", "(:, ROOTWARD)", "(factors.block[(:, ROOTWARD)] Mult factors.scale[(factors._j, np.newaxis)])"),
        ("factors.block", "(:, LEAFWARD)", "(factors.block[(:, LEAFWARD)] Mult factors.scale[(factors._k, np.newaxis)])"),
        ("factors.node", "(:, MIXPRIOR)", "(factors.node[(:, MIXPRIOR)] Mult factors.scale[(:, np.newaxis)])"),
        ("factors.node", "(:, CONSTRNT)", "(factors.node[(:, CONSTRNT)] Mult factors.scale[(:, np.newaxis)])"),
    }
    last = ("factors.scale", ":", "1.0")

    def pred(p):
        stores = [(ev["target"], ev.get("index"), text_of(ev["value"])) for ev in p.events if ev["kind"] == "store-item"]
        rebinds = [ev["target"] for ev in p.events if ev["kind"] == "store"]
        calls = [ev["func"] for ev in p.events if ev["kind"] == "call"]
        if rebinds:
            return f"field rebound instead of written in place: {rebinds} (aliases held by the caller go stale)"
        if calls:
            return f"unexpected call(s) {calls}"
        if not stores or stores[-1] != last:
            return f"the last store is not factors.scale[:] = 1.0 but {stores[-1] if stores else None}"
        if set(stores[:-1]) != want or len(stores) != 7:
            extra = [s for s in stores[:-1] if s not in want]
            missing = [w for w in want if w not in stores]
            return f"message scaling differs from the contract: unexpected {extra}, missing {missing}"
        return None
    g.forall_paths(f"{name}:effect-is-in-place-scaling-then-unit-scale", paths, pred,
                   "assigns exactly: edge[:,d] *= scale[_p|_c], block[:,d] *= scale[_j|_k], node[:,k] *= scale, "
                   "then scale[:] = 1.0 (in place)", only=lambda p: p.status in ("return", "fallthrough", "end", None) or True)


# ---------------------------------------------------------------------------------------------
def maximization_youngest_parent(g, fname="discrete.BeliefPropagation.outside_maximization"):
    """C13 / C11: "every other node takes the timepoint, no later than its YOUNGEST (already assigned) parent's ...".
    Loop invariant of the per-child edge loop, checked on the integer projection of the real loop body with z3:
        after the iteration for an edge with parent index K:
            youngest_par_index == K                          if this is the child's first edge
            youngest_par_index == min(old youngest, K)       otherwise
    (K = maximized_node_times[edge.parent], which the body must not write), and the child's final argmax is taken
    over [: youngest_par_index + 1].  All other statements of the body are irrelevant to these integers and are
    skipped; an assignment to a tracked integer that the projection cannot evaluate havocs it (then the invariant
    fails, which is the safe direction)."""
    import z3
    try:
        fn = extract.get_function(fname)
    except LookupError as e:
        g.ob(f"{fname}:attach", False, "function exists", str(e), verdict="does-not-attach")
        return
    loops = [n for n in ast.walk(fn.node) if isinstance(n, ast.For) and isinstance(n.iter, ast.Call)
             and ast.unparse(n.iter.func) == "enumerate" and isinstance(n.target, ast.Tuple)
             and [ast.unparse(t) for t in n.target.elts] == ["edge_index", "edge"]]
    if len(loops) != 1:
        g.ob(f"{fname}:youngest-parent-invariant", False, "one `for edge_index, edge in enumerate(edges)` loop",
             f"found {len(loops)}", verdict="does-not-attach")
        return
    loop = loops[0]
    KTEXT = "maximized_node_times[edge.parent]"
    writes = [ast.unparse(t) for st in loop.body for n in ast.walk(st) if isinstance(n, (ast.Assign, ast.AugAssign))
              for t in (n.targets if isinstance(n, ast.Assign) else [n.target]) if ast.unparse(t).startswith("maximized_node_times")]
    K, Y0, EI = z3.Int("K"), z3.Int("Y0"), z3.Int("edge_index")
    fresh = iter(z3.Int(f"havoc{k}") for k in range(1000))

    def ev(e, env):
        t = ast.unparse(e)
        if t == KTEXT:
            return K
        if isinstance(e, ast.Name):
            if e.id == "edge_index":
                return EI
            return env.get(e.id)
        if isinstance(e, ast.Constant) and isinstance(e.value, int) and not isinstance(e.value, bool):
            return z3.IntVal(e.value)
        if isinstance(e, ast.Call) and ast.unparse(e.func) in ("min", "max", "np.minimum", "np.maximum") and len(e.args) == 2:
            a, b = ev(e.args[0], env), ev(e.args[1], env)
            if a is None or b is None:
                return None
            return z3.If(a <= b, a, b) if "min" in ast.unparse(e.func) else z3.If(a >= b, a, b)
        if isinstance(e, ast.BinOp) and isinstance(e.op, (ast.Add, ast.Sub)):
            a, b = ev(e.left, env), ev(e.right, env)
            if a is None or b is None:
                return None
            return a + b if isinstance(e.op, ast.Add) else a - b
        if isinstance(e, ast.IfExp):
            c, a, b = cond(e.test, env), ev(e.body, env), ev(e.orelse, env)
            return None if None in (c, a, b) else z3.If(c, a, b)
        return None

    def cond(e, env):
        if isinstance(e, ast.Compare) and len(e.ops) == 1:
            a, b = ev(e.left, env), ev(e.comparators[0], env)
            if a is None or b is None:
                return None
            op = type(e.ops[0])
            return {ast.Lt: a < b, ast.LtE: a <= b, ast.Gt: a > b, ast.GtE: a >= b, ast.Eq: a == b, ast.NotEq: a != b}.get(op)
        if isinstance(e, ast.UnaryOp) and isinstance(e.op, ast.Not):
            c = cond(e.operand, env)
            return None if c is None else z3.Not(c)
        return None
    TRACK = {"youngest_par_index", "cur_parent_index"}

    def block(stmts, states):
        for st in stmts:
            nxt = []
            for pc, env in states:
                if isinstance(st, ast.Assign) and len(st.targets) == 1 and isinstance(st.targets[0], ast.Name):
                    name = st.targets[0].id
                    v = ev(st.value, env)
                    if v is not None or name in TRACK:
                        env = dict(env)
                        env[name] = v if v is not None else next(fresh)
                    nxt.append((pc, env))
                elif isinstance(st, ast.AugAssign) and isinstance(st.target, ast.Name) and st.target.id in TRACK:
                    env = dict(env)
                    env[st.target.id] = next(fresh)
                    nxt.append((pc, env))
                elif isinstance(st, ast.If):
                    c = cond(st.test, env)
                    if c is None:
                        nxt += block(st.body, [(pc, env)]) + block(st.orelse, [(pc, env)])
                    else:
                        nxt += block(st.body, [(pc + [c], env)]) + block(st.orelse, [(pc + [z3.Not(c)], env)])
                else:
                    nxt.append((pc, env))
            states = nxt
        return states
    finals = block(loop.body, [([], {"youngest_par_index": Y0})])
    want = z3.If(EI == 0, K, z3.If(Y0 <= K, Y0, K))
    bad = None
    if writes:
        bad = f"the loop body writes {writes}: K is not stable within the iteration"
    for pc, env in finals:
        if bad:
            break
        y = env.get("youngest_par_index")
        s = z3.Solver()
        s.add(EI >= 0, *pc)
        if y is None:
            bad = "youngest_par_index is not an integer expression the projection can follow"
            break
        s.add(y != want)
        if s.check() != z3.unsat:
            m = s.model()
            bad = (f"after an iteration with edge_index={m.eval(EI, True)}, old youngest={m.eval(Y0, True)}, parent index "
                   f"K={m.eval(K, True)} the loop leaves youngest_par_index={m.eval(y, True)} "
                   f"(expected {m.eval(want, True)})")
    g.ob(f"{fname}:youngest-parent-invariant", not bad,
         "forall edge_index >= 0, Y0, K: youngest_par_index' == (K if edge_index == 0 else min(Y0, K))   "
         f"[z3, {len(finals)} path(s) of the integer projection of the real loop body]", bad)
    # use: the child's argmax is taken over [: youngest_par_index + 1]
    after = []
    parent_body = None
    for n in ast.walk(fn.node):
        if isinstance(n, ast.For) and loop in n.body:
            parent_body = n.body
    ok_use, why = False, "the per-child loop was not found"
    if parent_body is not None:
        after = parent_body[parent_body.index(loop) + 1:]
        slices = [ast.unparse(s.slice) for st in after for s in ast.walk(st) if isinstance(s, ast.Subscript)
                  and isinstance(s.slice, ast.Slice)]
        argmax = [ast.unparse(st) for st in after if "np.argmax" in ast.unparse(st) and "maximized_node_times[child]" in ast.unparse(st)]
        ok_use = bool(argmax) and bool(slices) and all(_norm(x) in (_norm(":youngest_par_index + 1"), _norm(":(youngest_par_index + 1)")) for x in slices)
        why = "" if ok_use else f"slices after the edge loop: {slices}; argmax statement: {argmax}"
    g.ob(f"{fname}:argmax-restricted-to-youngest-parent", ok_use,
         "maximized_node_times[child] = argmax over [: youngest_par_index + 1] of result x inside", why)


# ---------------------------------------------------------------------------------------------
def arguments_not_modified(g, fnames=("demography.PopulationSizeHistory.__init__",)):
    """C09 (a repeated call with the same arguments gives the same result) needs the frame condition that the option
    objects handed to the API are not written to.  May-alias analysis over the real AST of the constructor every
    population-size option flows through: a value MAY ALIAS a parameter if it is the parameter, a view of a
    may-alias value (np.asarray / asanyarray / atleast_nd / ravel / reshape / view / squeeze / transpose / .T / a
    slice), or a name / attribute bound to one; np.array (copy), .copy(), .flatten(), arithmetic and np.append give
    fresh values.  Obligation: no augmented assignment, item store or in-place method on a may-alias value."""
    VIEW_FUNCS = {"np.asarray", "np.asanyarray", "np.atleast_1d", "np.atleast_2d", "np.ravel", "np.reshape",
                  "np.squeeze", "np.transpose", "np.ascontiguousarray", "np.asfarray"}
    VIEW_METHODS = {"ravel", "reshape", "view", "squeeze", "transpose", "swapaxes", "astype"}
    INPLACE_METHODS = {"sort", "fill", "put", "resize", "partition", "itemset", "setfield", "byteswap"}
    for fname in fnames:
        try:
            fn = extract.get_function(fname)
        except LookupError as e:
            g.ob(f"{fname}:attach", False, "function exists", str(e), verdict="does-not-attach")
            continue
        params = {a.arg for a in fn.node.args.args + fn.node.args.kwonlyargs} - {"self"}
        alias = {p: True for p in params}
        offences = []

        def may(e):
            if isinstance(e, ast.Name):
                return alias.get(e.id, False)
            if isinstance(e, ast.Attribute):
                if e.attr == "T":
                    return may(e.value)
                return alias.get(ast.unparse(e), False)
            if isinstance(e, ast.Subscript):
                return may(e.value) and (isinstance(e.slice, ast.Slice) or isinstance(e.slice, ast.Tuple))
            if isinstance(e, ast.Call):
                f = ast.unparse(e.func)
                if f in VIEW_FUNCS and e.args:
                    return may(e.args[0])
                if f == "np.array" and e.args:
                    copy_kw = [k for k in e.keywords if k.arg == "copy"]
                    return may(e.args[0]) and bool(copy_kw) and ast.unparse(copy_kw[0].value) in ("False", "None")
                if isinstance(e.func, ast.Attribute) and e.func.attr in VIEW_METHODS:
                    if e.func.attr == "astype" and not any(k.arg == "copy" and ast.unparse(k.value) == "False" for k in e.keywords):
                        return False
                    return may(e.func.value)
                return False
            if isinstance(e, ast.IfExp):
                return may(e.body) or may(e.orelse)
            return False
        # flow-sensitive may-analysis: `reach` maps each name / attribute to whether the binding that reaches the
        # current statement may alias an argument (branches are joined with `or`)
        reach = dict.fromkeys(params, True)

        def walk(stmts, reach):
            for st in stmts:
                if isinstance(st, ast.Assign):
                    v = may_reach(st.value, reach)
                    for t in st.targets:
                        if isinstance(t, (ast.Name, ast.Attribute)):
                            reach[t.id if isinstance(t, ast.Name) else ast.unparse(t)] = v
                        elif isinstance(t, ast.Subscript) and may_reach(t.value, reach):
                            offences.append((st.lineno, f"item store into {ast.unparse(t.value)}, which may be the caller's object"))
                elif isinstance(st, ast.AugAssign):
                    tgt = st.target.value if isinstance(st.target, ast.Subscript) else st.target
                    if may_reach(tgt, reach):
                        offences.append((st.lineno, f"in-place `{ast.unparse(st)}` on a value that may be the caller's object"))
                elif isinstance(st, ast.Expr) and isinstance(st.value, ast.Call) and isinstance(st.value.func, ast.Attribute) \
                        and st.value.func.attr in INPLACE_METHODS and may_reach(st.value.func.value, reach):
                    offences.append((st.lineno, f"in-place method `{ast.unparse(st.value)}` on a value that may be the caller's object"))
                elif isinstance(st, ast.If):
                    r1, r2 = dict(reach), dict(reach)
                    walk(st.body, r1)
                    walk(st.orelse, r2)
                    for k in set(r1) | set(r2):
                        reach[k] = r1.get(k, False) or r2.get(k, False)
                elif isinstance(st, (ast.For, ast.While, ast.With)):
                    walk(st.body, reach)
                    walk(getattr(st, "orelse", []), reach)
                elif isinstance(st, ast.Try):
                    r0 = dict(reach)
                    walk(st.body, reach)
                    for h in st.handlers:
                        rh = dict(r0)
                        walk(h.body, rh)
                        for k in rh:
                            reach[k] = reach.get(k, False) or rh[k]
                    walk(st.orelse, reach)
                    walk(st.finalbody, reach)

        def may_reach(e, reach):
            saved = dict(alias)
            alias.clear()
            alias.update(reach)
            try:
                return may(e)
            finally:
                alias.clear()
                alias.update(saved)
        walk(fn.node.body, reach)
        g.ob(f"{fname}:arguments-not-modified", not offences,
             f"assigns nothing reachable from the parameters {sorted(params)}: no in-place operation on a value that may "
             "alias an argument (np.asarray / ravel / reshape / slices are views; np.array, copy, flatten, arithmetic are fresh)",
             "; ".join(f"line {ln}: {why}" for ln, why in offences))
