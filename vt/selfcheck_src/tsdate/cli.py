# MIT License
#
# Copyright (c) 2024 Tskit Developers
# Copyright (c) 2020-2024 University of Oxford
#
# Permission is hereby granted, free of charge, to any person obtaining a copy
# of this software and associated documentation files (the "Software"), to deal
# in the Software without restriction, including without limitation the rights
# to use, copy, modify, merge, publish, distribute, sublicense, and/or sell
# copies of the Software, and to permit persons to whom the Software is
# furnished to do so, subject to the following conditions:
#
# The above copyright notice and this permission notice shall be included in
# all copies or substantial portions of the Software.
#
# THE SOFTWARE IS PROVIDED "AS IS", WITHOUT WARRANTY OF ANY KIND, EXPRESS OR
# IMPLIED, INCLUDING BUT NOT LIMITED TO THE WARRANTIES OF MERCHANTABILITY,
# FITNESS FOR A PARTICULAR PURPOSE AND NONINFRINGEMENT. IN NO EVENT SHALL THE
# AUTHORS OR COPYRIGHT HOLDERS BE LIABLE FOR ANY CLAIM, DAMAGES OR OTHER
# LIABILITY, WHETHER IN AN ACTION OF CONTRACT, TORT OR OTHERWISE, ARISING FROM,
# OUT OF OR IN CONNECTION WITH THE SOFTWARE OR THE USE OR OTHER DEALINGS IN THE
# SOFTWARE.
"""
Command line interface for tsdate.
"""

import argparse
import logging
import sys

import tskit

import tsdate

from . import core

logger = logging.getLogger(__name__)
log_format = "%(asctime)s %(levelname)s %(message)s"


def error_exit(message):
    """
    Exit with the specified error message, setting error status.
    """
    sys.exit(f"{sys.argv[0]}: {message}")


def str_to_bool(value):
    """
    Parse a command-line boolean (``type=bool`` would treat any non-empty
    string, including "False", as true).
    """
    if value.lower() in ("true", "t", "yes", "y", "1", "on"):
        return True
    if value.lower() in ("false", "f", "no", "n", "0", "off"):
        return False
    raise argparse.ArgumentTypeError(f"Expected a boolean value, got '{value}'")


def setup_logging(args):
    log_level = "WARN"
    if args.verbosity > 0:
        log_level = "INFO"
    if args.verbosity > 1:
        log_level = "DEBUG"
    logging.basicConfig(level=log_level, format=log_format)
    return log_level


def tsdate_cli_parser():
    top_parser = argparse.ArgumentParser(
        description=(
            "This is the command line interface for tsdate, a tool to date "
            "tree sequences."
        ),
    )
    top_parser.add_argument(
        "-V", "--version", action="version", version=f"%(prog)s {tsdate.__version__}"
    )

    subparsers = top_parser.add_subparsers(dest="subcommand")
    subparsers.required = True

    parser = subparsers.add_parser(
        "date",
        help=(
            "Takes an inferred tree sequence topology and returns a dated tree sequence."
        ),
    )

    parser.add_argument(
        "tree_sequence",
        help=(
            "The path and name of the input tree sequence for which "
            "node ages are estimated."
        ),
    )
    parser.add_argument(
        "output",
        help=(
            "The path and name of output file where the dated tree sequence will saved."
        ),
    )
    parser.add_argument(
        "deprecated_population_size",
        type=float,
        nargs="?",
        help="Deprecated positional argument, left for backwards compatibility.",
    )
    parser.add_argument(
        "-m",
        "--mutation-rate",
        type=float,
        default=None,
        help=(
            "The estimated mutation rate per unit of genome per "
            "generation. If provided, the dating algorithm will use a "
            "mutation rate clock to help estimate node dates. Default: None"
        ),
    )
    parser.add_argument(
        "-r",
        "--recombination-rate",
        type=float,
        default=None,
        help=(
            "The estimated recombination rate per unit "
            "of genome per generation. If provided, the dating algorithm "
            "will use a recombination rate clock to help estimate node "
            "dates. Default: None"
        ),
    )
    parser.add_argument(
        "-e",
        "--epsilon",
        type=float,
        default=core.DEFAULT_EPSILON,
        help=(
            "Specify the error factor in time difference calculations. "
            f"Default: {core.DEFAULT_EPSILON}"
        ),
    )
    parser.add_argument(
        "-b",
        "--min-branch-length",
        type=float,
        default=core.DEFAULT_MIN_BRANCH_LENGTH,
        help=(
            "Specify the minimum difference in age between parent and child nodes. "
            f"Default: {core.DEFAULT_MIN_BRANCH_LENGTH}"
        ),
    )
    parser.add_argument(
        "--method",
        choices=["inside_outside", "maximization", "variational_gamma"],
        default="variational_gamma",
        help=(
            "Specify which estimation method to use: "
            "'variational_gamma' is a fast continuous-time approximation' "
            "'inside_outside' is a discrete-time version but theoretically problematic; "
            "'maximization' is worse empirically, especially with a gamma prior, but "
            "theoretically robust; Current default: 'variational_gamma'"
        ),
    )
    parser.add_argument(
        "-p", "--progress", action="store_true", help="Show progress bar."
    )
    parser.add_argument(
        "-v",
        "--verbosity",
        action="count",
        default=0,
        help="How much verbosity to output.",
    )
    parser.add_argument(
        "--rescaling-intervals",
        type=int,
        help=(
            "The number of time intervals within which to estimate a time scaling "
            f"parameter. Default: None treated as {core.DEFAULT_RESCALING_INTERVALS}"
        ),
        default=None,
    )
    parser.add_argument(
        "--max-iterations",
        type=int,
        help=(
            "The number of iterations used in the expectation propagation "
            f"algorithm. Default: None treated as {core.DEFAULT_MAX_ITERATIONS}"
        ),
        default=None,
    )
    # arguments for discrete time methods
    parser.add_argument(
        "-n",
        "--population_size",
        type=float,
        default=None,
        help=(
            "Estimated effective (diploid) population size. Ignored for the "
            "'variational_gamma' method, but required otherwise. Default: None"
        ),
    )
    parser.add_argument(
        "-t",
        "--num-threads",
        type=int,
        default=None,
        help=(
            "The number of threads to use. A simpler unthreaded algorithm is used "
            "unless this is >= 1. Not relevant for the 'variational_gamma' method. "
            "Default: None"
        ),
    )
    parser.add_argument(
        "--probability-space",
        type=str,
        default=None,
        help=(
            "Should the internal algorithm save probabilities in "
            "'logarithmic' (slower, less liable to to overflow) or 'linear' "
            "space (faster, may overflow). Not relevant for the "
            "'variational_gamma' method. Default: None treated as 'logarithmic'"
        ),
    )
    parser.set_defaults(runner=run_date)

    parser = subparsers.add_parser(
        "preprocess", help=("Remove regions without data from an input tree sequence.")
    )
    parser.add_argument("tree_sequence", help="The tree sequence to preprocess.")
    parser.add_argument(
        "output",
        help=(
            "The path and name of output file where the preprocessed "
            "tree sequence will saved."
        ),
    )
    parser.add_argument(
        "--minimum_gap",
        type=float,
        help=(
            "The minimum gap between sites to trim from the tree "
            "sequence. Default: 1000000"
        ),
        default=1000000,
    )
    parser.add_argument(
        "--erase-flanks",
        "--trim_telomeres",
        type=str_to_bool,
        help=(
            "Should all material before the first site and after the "
            "last site be trimmed, regardless of the length of these "
            "regions. Default: True"
        ),
        default=True,
    )
    parser.add_argument(
        "--split-disjoint",
        type=str_to_bool,
        help=(
            "Should disjoint nodes, that disappear from the trees then "
            "reappear further along the genome, be split into separate nodes. "
            "Default: True"
        ),
        default=True,
    )
    parser.add_argument(
        "-v",
        "--verbosity",
        action="count",
        default=0,
        help="How much verbosity to output (max is -vv).",
    )
    parser.set_defaults(runner=run_preprocess)
    return top_parser


def run_date(args):
    if args.deprecated_population_size is not None:
        error_exit(
            "Specifying the population size without prefixing by `-n` is "
            f"deprecated. Please use `-n {args.deprecated_population_size}` instead."
        )
    try:
        ts = tskit.load(args.tree_sequence)
    except tskit.FileFormatError as ffe:
        error_exit(f"FileFormatError loading '{args.tree_sequence}: {ffe}")
    if args.method == "variational_gamma":
        # TODO - warn about other non-relevant options
        if args.population_size is not None:
            error_exit(
                "The population_size is not currently required for 'variational_gamma'"
            )
        if args.num_threads is not None:
            error_exit(
                "Multiple threads cannot be used in the 'variational_gamma' method"
            )
        if args.probability_space is not None:
            error_exit(
                "The probability_spaces parameter is irrelevant for 'variational_gamma'"
            )
        params = dict(
            recombination_rate=args.recombination_rate,
            method=args.method,
            min_branch_length=args.min_branch_length,
            progress=args.progress,
            max_iterations=args.max_iterations,
            rescaling_intervals=args.rescaling_intervals,
        )
    else:
        if args.rescaling_intervals is not None:
            error_exit(
                "rescaling_intervals is not currently used in discrete-time methods"
            )
        if args.max_iterations is not None:
            error_exit("max_iterations is not currently used in discrete-time methods")
        params = dict(
            population_size=args.population_size,
            recombination_rate=args.recombination_rate,
            method=args.method,
            min_branch_length=args.min_branch_length,
            eps=args.epsilon,
            progress=args.progress,
            probability_space=args.probability_space,
            num_threads=args.num_threads,
        )
    dated_ts = tsdate.date(ts, mutation_rate=args.mutation_rate, **params)
    dated_ts.dump(args.output)


def run_preprocess(args):
    try:
        ts = tskit.load(args.tree_sequence)
    except tskit.FileFormatError as ffe:
        error_exit(f"FileFormatError loading '{args.tree_sequence}: {ffe}")
    snipped_ts = tsdate.preprocess_ts(
        ts,
        minimum_gap=args.minimum_gap,
        erase_flanks=args.erase_flanks,
        split_disjoint=args.split_disjoint,
    )
    snipped_ts.dump(args.output)


def tsdate_main(arg_list=None):
    parser = tsdate_cli_parser()
    args = parser.parse_args(arg_list)
    setup_logging(args)
    args.runner(args)
