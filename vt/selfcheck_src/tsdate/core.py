# MIT License
#
# Copyright (c) 2021-24 Tskit Developers
# Copyright (c) 2020-21 University of Oxford
#
# Permission is hereby granted, free of charge, to any person obtaining a copy
# of this software and associated documentation files (the "Software"), to deal
# in the Software without restriction, including without limitation the rights
# to use, copy, modify, merge, publish, distribute, sublicense, and/or sell
# copies of the Software, and to permit persons to whom the Software is
# furnished to do so, subject to the following conditions:
#
# The above copyright notice and this permission notice shall be included in
# all copies or substantial portions of the Software.
#
# THE SOFTWARE IS PROVIDED "AS IS", WITHOUT WARRANTY OF ANY KIND, EXPRESS OR
# IMPLIED, INCLUDING BUT NOT LIMITED TO THE WARRANTIES OF MERCHANTABILITY,
# FITNESS FOR A PARTICULAR PURPOSE AND NONINFRINGEMENT. IN NO EVENT SHALL THE
# AUTHORS OR COPYRIGHT HOLDERS BE LIABLE FOR ANY CLAIM, DAMAGES OR OTHER
# LIABILITY, WHETHER IN AN ACTION OF CONTRACT, TORT OR OTHERWISE, ARISING FROM,
# OUT OF OR IN CONNECTION WITH THE SOFTWARE OR THE USE OR OTHER DEALINGS IN THE
# SOFTWARE.
"""
Infer the age of nodes from mutational data, conditional on a tree sequence topology.
"""

import logging
import time  # DEBUG
from collections import namedtuple

import numpy as np
import tskit

from . import demography, discrete, prior, provenance, schemas, util, variational
from .node_time_class import LIN_GRID, LOG_GRID

logger = logging.getLogger(__name__)

FORMAT_NAME = "tsdate"
DEFAULT_CONSTRAINT_ITERATIONS = 100  # only used with internal samples
DEFAULT_RESCALING_INTERVALS = 1000
DEFAULT_RESCALING_ITERATIONS = 5
DEFAULT_MAX_ITERATIONS = 25
DEFAULT_EPSILON = 1e-8
DEFAULT_MIN_BRANCH_LENGTH = 1e-8


# Classes for each method
Results = namedtuple(
    "Results",
    [
        "posterior_mean",
        "posterior_var",
        "mutation_mean",
        "mutation_var",
        "mutation_lik",
        "mutation_node",
        "fit_object",
    ],
)


class EstimationMethod:
    """
    Base class to hold the various estimation methods. Override prior_grid_func_name with
    something like "parameter_grid" or "prior_grid".
    """

    prior_grid_func_name = None

    def run():
        # Subclasses should override to return a return a Results object
        raise NotImplementedError(
            "Base class 'EstimationMethod' not intended for direct use"
        )

    def __init__(
        self,
        ts,
        *,
        mutation_rate=None,
        population_size=None,
        recombination_rate=None,
        time_units=None,
        priors=None,
        return_likelihood=None,
        return_fit=None,
        allow_unary=None,
        record_provenance=None,
        constr_iterations=None,
        min_branch_length=None,
        set_metadata=None,
        progress=None,
        # deprecated params
        return_posteriors=None,
    ):
        # Set up all the generic params described in the tsdate.date function, and define
        # priors if not passed-in already
        if return_posteriors is not None:
            raise ValueError(
                'The "return_posteriors" parameter has been deprecated. Either use the '
                "posterior values encoded in node metadata or set ``return_fit=True`` "
                "then access `fit.node_posteriors()` to obtain a transposed version "
                "of the matrix previously returned when ``return_posteriors=True.``"
            )
        self.start_time = time.time()
        self.ts = ts
        self.mutation_rate = mutation_rate
        self.recombination_rate = recombination_rate
        self.return_fit = return_fit
        self.return_likelihood = return_likelihood
        self.set_metadata = set_metadata
        self.pbar = progress
        self.time_units = "generations" if time_units is None else time_units
        if record_provenance is None:
            record_provenance = True

        if recombination_rate is not None:
            raise NotImplementedError(
                "Using the recombination clock is not currently supported"
                ". See https://github.com/awohns/tsdate/issues/5 for details"
            )

        Ne = population_size  # shorthand
        if isinstance(Ne, dict):
            Ne = demography.PopulationSizeHistory(**Ne)

        self.provenance_params = None
        if record_provenance:
            self.provenance_params = dict(
                mutation_rate=mutation_rate,
                recombination_rate=recombination_rate,
                time_units=time_units,
                progress=progress,
                constr_iterations=constr_iterations,
                min_branch_length=min_branch_length,
                allow_unary=allow_unary,
                set_metadata=set_metadata,
                # demography.PopulationSizeHistory provides as_dict() for saving
                population_size=Ne.as_dict() if hasattr(Ne, "as_dict") else Ne,
            )

        if constr_iterations is None:
            unique_sample_ages = np.unique(ts.nodes_time[list(ts.samples())])
            if unique_sample_ages.size > 1:
                # if there are internal samples, then using least squares
                # before forcing the constraint will reduce error
                self.constr_iterations = DEFAULT_CONSTRAINT_ITERATIONS
            else:
                self.constr_iterations = 0
        else:
            if not (isinstance(constr_iterations, int) and constr_iterations >= 0):
                raise ValueError(
                    "Number of constrained least squares iterations must be a "
                    "non-negative integer"
                )
            self.constr_iterations = constr_iterations

        if min_branch_length is None:
            self.min_branch_length = DEFAULT_MIN_BRANCH_LENGTH
        else:
            if not min_branch_length > 0.0:
                raise ValueError("Minimum branch length must be positive")
            self.min_branch_length = min_branch_length

        self.allow_unary = False if allow_unary is None else allow_unary

        if self.prior_grid_func_name is None:
            if priors is not None:
                raise ValueError(f"Priors are not used for method {self.name}")
            if Ne is not None:
                raise ValueError(f"Population size is not used for method {self.name}")
        else:
            if priors is None:
                if Ne is None:
                    raise ValueError(
                        "Must specify population size if priors are not already "
                        f"built using tsdate.build_{self.prior_grid_func_name}()"
                    )
                mk_prior = getattr(prior, self.prior_grid_func_name)
                # Default to not creating approximate priors unless ts has
                # greater than DEFAULT_APPROX_PRIOR_SIZE samples
                approx = ts.num_samples > prior.DEFAULT_APPROX_PRIOR_SIZE
                self.priors = mk_prior(
                    ts,
                    Ne,
                    approximate_priors=approx,
                    allow_unary=self.allow_unary,
                    progress=progress,
                )
            else:
                logger.info("Using user-specified priors")
                if Ne is not None:
                    raise ValueError(
                        "Cannot specify population size if specifying priors "
                        f"from tsdate.build_{self.prior_grid_func_name}()"
                    )
                self.priors = priors

        # TODO: this isn't needed except for mutations_edge in constrain_mutations
        self.edges_mutations, self.mutations_edge = util.mutation_span_array(ts)
        self.fixed_nodes = np.array(list(ts.samples()))

    def get_modified_ts(self, result):
        # Return a new ts based on the existing one, but with the various
        # time-related information correctly set.
        ts = self.ts
        node_mean_t = result.posterior_mean
        node_var_t = result.posterior_var
        mut_mean_t = result.mutation_mean
        mut_var_t = result.mutation_var
        mut_node = result.mutation_node
        tables = ts.dump_tables()
        nodes = tables.nodes
        mutations = tables.mutations
        tables.time_units = self.time_units

        # Add posterior mean and variance to node/mutation metadata
        meta_timing = time.time()
        self.set_time_metadata(
            nodes, node_mean_t, node_var_t, schemas.default_node_schema
        )
        self.set_time_metadata(
            mutations, mut_mean_t, mut_var_t, schemas.default_mutation_schema
        )
        meta_timing -= time.time()
        logger.info(f"Inserted node and mutation metadata in {abs(meta_timing)} seconds")

        # Constrain node ages for positive branch lengths
        constr_timing = time.time()
        nodes.time = util.constrain_ages(
            ts, node_mean_t, self.min_branch_length, self.constr_iterations
        )
        constr_timing -= time.time()
        logger.info(f"Constrained node ages in {abs(constr_timing):.2f} seconds")
        # Possibly change mutation nodes if phasing singletons
        mutations.node = mut_node
        # Deal with mutations. These may have had nodes switched by singleton phasing
        # We zap both time and parents, which means any mutations on the same edge
        # at the same site will be ordered using the original mutation order (which
        # we assume to be correct, as we have just dumped the tables from a valid TS)
        mutations.time = np.full_like(mutations.time, tskit.UNKNOWN_TIME)
        mutations.parent = np.full_like(mutations.parent, tskit.NULL)

        tables.sort()  # need to sort before computing parents and times
        tables.build_index()
        # If mutation nodes have been switched, we may need to recalculate parents
        tables.compute_mutation_parents()
        tables.compute_mutation_times()
        num_root_muts = np.sum(mutations.time == nodes.time[mutations.node])
        logging.info(
            f"Set ages of {num_root_muts} nonsegregating mutations to root times."
        )
        if self.provenance_params is not None:
            # Note that the time recorded in provenance excludes numba compilation time
            provenance.record_provenance(
                tables, self.name, self.start_time, **self.provenance_params
            )
        return tables.tree_sequence()

    def set_time_metadata(self, table, mean, var, default_schema):
        # Try to set metadata: if we fail, clear metadata, reset schema, and try again
        def _time_md_array(table, mean, var):
            # Return an array of metadata dicts, or raise an error if
            # schema is None or metadata is not valid
            schema = table.metadata_schema
            if schema.schema is None:
                raise tskit.MetadataEncodingError("No schema set")
            if len(table.metadata) > 0:
                md_iter = (row.metadata for row in table)
            else:
                md_iter = ({} for _ in range(table.num_rows))  # no decoding needed
            metadata_array = []
            for metadata_dict, mn, vr in zip(md_iter, mean, var):
                if not isinstance(metadata_dict, dict):
                    raise tskit.MetadataValidationError(
                        "Existing metadata is not a mapping to which mn and vr can be added"
                    )
                metadata_dict.update((("mn", mn), ("vr", vr)))
                metadata_array.append(schema.validate_and_encode_row(metadata_dict))
            return metadata_array

        if self.set_metadata is False or var is None:
            return  # no md to set (e.g. outside maximization method)
        assert len(mean) == len(var) == table.num_rows
        try:
            table.packset_metadata(_time_md_array(table, mean, var))
        except (tskit.MetadataEncodingError, tskit.MetadataValidationError) as e:
            table_name = type(table).__name__
            if len(table.metadata) > 0 or table.metadata_schema.schema is not None:
                if not self.set_metadata:
                    logger.warning(
                        f"Could not set time metadata on {table_name} "
                        f"(force this by specifying `set_metadata=True`): {e}"
                    )
                    return
                else:
                    logger.info(f"Clearing metadata from {table_name}")
                    table.drop_metadata()
            logger.info(f"Setting metadata schema on {table_name}")
            table.metadata_schema = default_schema
            table.packset_metadata(_time_md_array(table, mean, var))

    def parse_result(self, result):
        # Construct the tree sequence to return and add other stuff we might want to
        # return. pst_cols is a dict to be appended to the output posterior dict
        ret = [self.get_modified_ts(result)]
        if self.return_fit:
            ret.append(result.fit_object)
        if self.return_likelihood:
            ret.append(result.mutation_lik)
        return tuple(ret) if len(ret) > 1 else ret.pop()

    def get_fixed_nodes_set(self):
        # TODO: modify to allow non-contemporary samples. If these have priors specified
        # they should work fine with these algorithms.
        for sample in self.ts.samples():
            if self.ts.node(sample).time != 0:
                raise NotImplementedError("Samples must all be at time 0")
        return set(self.ts.samples())


class DiscreteTimeMethod(EstimationMethod):
    prior_grid_func_name = "prior_grid"

    @staticmethod
    def mean_var(ts, posterior):
        """
        Mean and variance of node age given an atomic time discretization. Fixed
        nodes will be given a mean of their exact time in the tree sequence, and
        zero variance. This is a static method for ease of testing.
        """
        mn_post = np.full(ts.num_nodes, np.nan)  # Fill with NaNs so we detect when
        va_post = np.full(ts.num_nodes, np.nan)  # there's been an error

        is_fixed = np.ones(posterior.num_nodes, dtype=bool)
        is_fixed[posterior.nonfixed_nodes] = False
        mn_post[is_fixed] = ts.nodes_time[is_fixed]
        va_post[is_fixed] = 0

        for u in posterior.nonfixed_nodes:
            probs = posterior[u]
            times = posterior.timepoints
            mn_post[u] = np.sum(probs * times) / np.sum(probs)
            va_post[u] = np.sum(((mn_post[u] - (times)) ** 2) * (probs / np.sum(probs)))

        return mn_post, va_post

    def main_algorithm(self, probability_space, epsilon, num_threads):
        # Algorithm class is shared by inside-outside & outside-maximization methods
        if probability_space == LIN_GRID:
            liklhd = discrete.Likelihoods(
                self.ts,
                self.priors.timepoints,
                self.mutation_rate,
                self.recombination_rate,
                eps=epsilon,
                fixed_node_set=self.get_fixed_nodes_set(),
                progress=self.pbar,
            )
        elif probability_space == LOG_GRID:
            liklhd = discrete.LogLikelihoods(
                self.ts,
                self.priors.timepoints,
                self.mutation_rate,
                self.recombination_rate,
                eps=epsilon,
                fixed_node_set=self.get_fixed_nodes_set(),
                progress=self.pbar,
            )
        else:
            raise ValueError(
                f"Invalid discrete probability space: {probability_space}. Must be "
                f"one of {LIN_GRID} or {LOG_GRID}"
            )
        if self.mutation_rate is not None:
            liklhd.precalculate_mutation_likelihoods(num_threads=num_threads)

        return discrete.BeliefPropagation(self.priors, liklhd, progress=self.pbar)


class InsideOutsideMethod(DiscreteTimeMethod):
    name = "inside_outside"

    def run(
        self,
        eps,
        outside_standardize,
        ignore_oldest_root,
        probability_space,
        num_threads=None,
        cache_inside=None,
    ):
        if self.mutation_rate is None and self.recombination_rate is None:
            if self.ts.num_trees > 1:
                raise NotImplementedError(
                    "Specifying no mutation or recombination rate implies dating using "
                    "the topology-only clock. This produces biased results under "
                    "recombination (https://github.com/tskit-dev/tsdate/issues/292). "
                    "The topology-only clock has therefore been deprecated for tree "
                    "sequences representing more than one tree."
                )
        if self.provenance_params is not None:
            self.provenance_params.update(
                {k: v for k, v in locals().items() if k != "self"}
            )
        fit_obj = self.main_algorithm(probability_space, eps, num_threads)
        marginal_likl = fit_obj.inside_pass(cache_inside=cache_inside)
        fit_obj.outside_pass(
            standardize=outside_standardize, ignore_oldest_root=ignore_oldest_root
        )
        # Turn the posterior into probabilities
        fit_obj.posterior_grid.standardize()  # Just to ensure no floating point issues
        fit_obj.posterior_grid.force_probability_space(LIN_GRID)
        fit_obj.posterior_grid.to_probabilities()

        posterior_mean, posterior_var = self.mean_var(self.ts, fit_obj.posterior_grid)
        mut_node = self.ts.mutations_node
        return Results(
            posterior_mean,
            posterior_var,
            None,
            None,
            marginal_likl,
            mut_node,
            fit_obj,
        )


class MaximizationMethod(DiscreteTimeMethod):
    name = "maximization"

    def __init__(self, ts, **kwargs):
        super().__init__(ts, **kwargs)

    def run(
        self,
        eps,
        probability_space=None,
        num_threads=None,
        cache_inside=None,
    ):
        if self.mutation_rate is None and self.recombination_rate is None:
            raise ValueError("Outside maximization method requires mutation rate")
        if self.provenance_params is not None:
            self.provenance_params.update(
                {k: v for k, v in locals().items() if k != "self"}
            )
        fit_obj = self.main_algorithm(probability_space, eps, num_threads)
        marginal_likl = fit_obj.inside_pass(cache_inside=cache_inside)
        fit_obj.outside_maximization(eps=eps)
        mut_node = self.ts.mutations_node
        return Results(
            fit_obj.posterior_mean,
            None,
            None,
            None,
            marginal_likl,
            mut_node,
            fit_obj,
        )


class VariationalGammaMethod(EstimationMethod):
    prior_grid_func_name = None
    name = "variational_gamma"

    def __init__(self, ts, **kwargs):
        super().__init__(ts, **kwargs)

    def run(
        self,
        max_iterations,
        max_shape,
        rescaling_intervals,
        rescaling_iterations,
        match_segregating_sites,
        regularise_roots,
        singletons_phased,
    ):
        if self.provenance_params is not None:
            self.provenance_params.update(
                {k: v for k, v in locals().items() if k != "self"}
            )
        if not max_iterations > 0:
            raise ValueError("Maximum number of EP iterations must be greater than 0")
        if not max_shape > 1:
            raise ValueError("Maximum shape of the posteriors must be greater than 1")
        if self.mutation_rate is None:
            raise ValueError("Variational gamma method requires mutation rate")

        fit_obj = variational.ExpectationPropagation(
            self.ts,
            mutation_rate=self.mutation_rate,
            allow_unary=self.allow_unary,
            singletons_phased=singletons_phased,
        )
        fit_obj.infer(
            ep_iterations=max_iterations,
            max_shape=max_shape,
            rescale_intervals=rescaling_intervals,
            rescale_iterations=rescaling_iterations,
            regularise=regularise_roots,
            rescale_segsites=match_segregating_sites,
            progress=self.pbar,
        )
        marginal_likl = fit_obj.marginal_likelihood()
        node_mn, node_va = fit_obj.node_moments()
        mutation_mn, mutation_va = fit_obj.mutation_moments()
        mutation_node = fit_obj.mutation_mapping()

        return Results(
            node_mn,
            node_va,
            mutation_mn,
            mutation_va,
            marginal_likl,
            mutation_node,
            fit_obj,
        )


def maximization(
    tree_sequence,
    *,
    mutation_rate,
    population_size=None,
    priors=None,
    eps=None,
    num_threads=None,
    probability_space=None,
    # below deliberately undocumented
    cache_inside=None,
    Ne=None,
    # Other params documented in `.date()`
    **kwargs,
):
    """
    maximization(tree_sequence, *, mutation_rate, population_size=None, priors=None,\
        eps=None, num_threads=None, probability_space=None, **kwargs)

    Infer dates for nodes in a genealogical graph using the "outside maximization"
    algorithm. This approximates the marginal posterior distribution of a node's
    age using an atomic discretization of time (e.g. point masses at particular
    timepoints).

    This estimation method comprises a single "inside" step followed by an
    "outside maximization" step. The inside step passes backwards in time from the
    samples to the roots of the graph,taking account of the distributions of times of
    each node's child (and if a ``mutation_rate`` is given, the the number of mutations
    on each edge). The outside maximization step passes forwards in time from the roots,
    updating each node's time on the basis of the most likely timepoint for
    each parent of that node. This provides a reasonable point estimate for node times,
    but does not generate a true posterior time distribution.

    For example:

    .. code-block:: python

      new_ts = tsdate.maximization(ts, mutation_rate=1e-8, population_size=1e4)

    .. note::
        The prior parameters for each node-to-be-dated take the form of probabilities
        for each node at a set of discrete timepoints. If the ``priors`` parameter is
        used, it must specify an object constructed using :func:`build_prior_grid`
        (this can be used to define the number and position of the timepoints).
        If ``priors`` is not used, ``population_size`` must be provided,
        which is used to create a default prior derived from the conditional coalescent
        (tilted according to population size and weighted by the genomic
        span over which a node has a given number of descendant samples). This default
        prior assumes the nodes to be dated are all the non-sample nodes in the input
        tree sequence, and that they are contemporaneous.

    :param ~tskit.TreeSequence tree_sequence: The input tree sequence to be dated.
    :param float mutation_rate: The estimated mutation rate per unit of genome per
        unit time. If provided, the dating algorithm will use a mutation rate clock to
        help estimate node dates. Default: ``None``
    :param float or ~demography.PopulationSizeHistory population_size: The estimated
        (diploid) effective population size used to construct the (default) conditional
        coalescent prior. For a population with constant size, this can be given as a
        single value (for example, as commonly estimated by the observed genetic
        diversity of the sample divided by four-times the expected mutation rate).
        Alternatively, for a population with time-varying size, this can be given
        directly as a :class:`~demography.PopulationSizeHistory` object or a parameter
        dictionary passed to initialise a :class:`~demography.PopulationSizeHistory`
        object. The ``population_size`` parameter is only used when ``priors`` is
        ``None``. Conversely, if ``priors`` is not ``None``, no ``population_size``
        value should be specified.
    :param tsdate.node_time_class.NodeTimeValues priors: NodeTimeValues object containing
        the prior parameters for each node-to-be-dated. Note that different estimation
        methods may require different types of prior, as described in the documentation
        for each estimation method.
    :param float eps: The error factor in time difference calculations. Default: None,
        treated as 1e-8.
    :param int num_threads: The number of threads to use when precalculating likelihoods.
        A simpler unthreaded algorithm is used unless this is >= 1. Default: None
    :param string probability_space: Should the internal algorithm save
        probabilities in "logarithmic" (slower, less liable to to overflow) or
        "linear" space (fast, may overflow). Default: None treated as"logarithmic"
    :param \\**kwargs: Other keyword arguments as described in the :func:`date` wrapper
        function, notably ``mutation_rate``, and ``population_size`` or ``priors``.
        Further arguments include ``time_units``, ``progress``, ``allow_unary`` and
        ``record_provenance``.  The additional arguments ``return_fit`` and
        ``return_likelihood`` can be used to return additional information (see below).
    :return:
        - **ts** (:class:`~tskit.TreeSequence`) -- a copy of the input tree sequence with
          updated node times based on the posterior mean, corrected where necessary to
          ensure that parents are strictly older than all their children by an amount
          given by the ``min_branch_length`` parameter.
        - **marginal_likelihood** (:py:class:`float`) -- (Only returned if
          ``return_likelihood`` is ``True``) The marginal likelihood of
          the mutation data given the inferred node times.
    """
    if Ne is not None:
        if population_size is not None:
            raise ValueError("Only provide one of Ne (deprecated) or population_size")
        else:
            population_size = Ne
    if eps is None:
        eps = DEFAULT_EPSILON
    if probability_space is None:
        probability_space = LOG_GRID

    dating_method = MaximizationMethod(
        tree_sequence,
        mutation_rate=mutation_rate,
        population_size=population_size,
        priors=priors,
        **kwargs,
    )
    result = dating_method.run(
        eps=eps,
        num_threads=num_threads,
        cache_inside=cache_inside,
        probability_space=probability_space,
    )
    return dating_method.parse_result(result)


def inside_outside(
    tree_sequence,
    *,
    mutation_rate,
    population_size=None,
    priors=None,
    eps=None,
    num_threads=None,
    outside_standardize=None,
    ignore_oldest_root=None,
    probability_space=None,
    # below deliberately undocumented
    cache_inside=False,
    # Deprecated params
    Ne=None,
    # Other params documented in `.date()`
    **kwargs,
):
    """
    inside_outside(tree_sequence, *, mutation_rate, population_size=None, priors=None,\
        eps=None, num_threads=None, outside_standardize=None, ignore_oldest_root=None,\
        probability_space=None, **kwargs)

    Infer dates for nodes in a genealogical graph using the "inside outside" algorithm.
    This approximates the marginal posterior distribution of a node's age using an
    atomic discretization of time (e.g. point masses at particular timepoints).

    Currently, this estimation method comprises a single "inside" followed by a similar
    "outside" step. The inside step passes backwards in time from the samples to the
    roots of the graph,taking account of the distributions of times of each node's child
    (and if a ``mutation_rate`` is given, the the number of mutations on each edge).
    The outside step passes forwards in time from the roots, incorporating the time
    distributions for each node's parents. If there are (undirected) cycles in the
    underlying graph, this method does not provide a theoretically exact estimate
    of the marginal posterior distribution of node ages, but in practice it
    results in an accurate approximation.

    For example:

    .. code-block:: python

      new_ts = tsdate.inside_outside(ts, mutation_rate=1e-8, population_size=1e4)

    .. note::
        The prior parameters for each node-to-be-dated take the form of probabilities
        for each node at a set of discrete timepoints. If the ``priors`` parameter is
        used, it must specify an object constructed using :func:`build_prior_grid`
        (this can be used to define the number and position of the timepoints).
        If ``priors`` is not used, ``population_size`` must be provided,
        which is used to create a default prior derived from the conditional coalescent
        (tilted according to population size and weighted by the genomic
        span over which a node has a given number of descendant samples). This default
        prior assumes the nodes to be dated are all the non-sample nodes in the input
        tree sequence, and that they are contemporaneous.

    :param ~tskit.TreeSequence tree_sequence: The input tree sequence to be dated.
    :param float mutation_rate: The estimated mutation rate per unit of genome per
        unit time. If provided, the dating algorithm will use a mutation rate clock to
        help estimate node dates. Default: ``None``
    :param float or ~demography.PopulationSizeHistory population_size: The estimated
        (diploid) effective population size used to construct the (default) conditional
        coalescent prior. For a population with constant size, this can be given as a
        single value (for example, as commonly estimated by the observed genetic
        diversity of the sample divided by four-times the expected mutation rate).
        Alternatively, for a population with time-varying size, this can be given
        directly as a :class:`~demography.PopulationSizeHistory` object or a parameter
        dictionary passed to initialise a :class:`~demography.PopulationSizeHistory`
        object. The ``population_size`` parameter is only used when ``priors`` is
        ``None``. Conversely, if ``priors`` is not ``None``, no ``population_size``
        value should be specified.
    :param tsdate.node_time_class.NodeTimeValues priors: NodeTimeValues object containing
        the prior parameters for each node-to-be-dated. Note that different estimation
        methods may require different types of prior, as described in the documentation
        for each estimation method.
    :param float eps: The error factor in time difference calculations. Default: None,
        treated as 1e-8.
    :param int num_threads: The number of threads to use when precalculating likelihoods.
        A simpler unthreaded algorithm is used unless this is >= 1. Default: None
    :param bool outside_standardize: Should the likelihoods be standardized during the
        outside step? This can help to avoid numerical under/overflow. Using
        unstandardized values is mostly useful for testing (e.g. to obtain, in the
        outside step, the total functional value for each node).
        Default: None, treated as True.
    :param bool ignore_oldest_root: Should the oldest root in the tree sequence be
        ignored in the outside algorithm (if ``"inside_outside"`` is used as the method).
        Ignoring outside root can provide greater stability when dating tree sequences
        inferred from real data, in particular if all local trees are assumed to coalesce
        in a single "grand MRCA", as in older versions of ``tsinfer``.
        Default: None, treated as False.
    :param string probability_space: Should the internal algorithm save
        probabilities in "logarithmic" (slower, less liable to to overflow) or
        "linear" space (fast, may overflow). Default: "logarithmic"
    :param \\**kwargs: Other keyword arguments as described in the :func:`date` wrapper
        function, notably ``mutation_rate``, and ``population_size`` or ``priors``.
        Further arguments include ``time_units``, ``progress``, ``allow_unary`` and
        ``record_provenance``. The additional arguments ``return_fit`` and
        ``return_likelihood`` can be used to return additional information (see below).
    :return:
        - **ts** (:class:`~tskit.TreeSequence`) -- a copy of the input tree sequence with
          updated node times based on the posterior mean, corrected where necessary to
          ensure that parents are strictly older than all their children by an amount
          given by the ``min_branch_length`` parameter.
        - **fit** (:class:`~discrete.BeliefPropagation`) -- (Only returned if
          ``return_fit`` is ``True``) The underlying object used to run the dating
          inference. This can then be queried e.g. using
          :meth:`~discrete.BeliefPropagation.node_posteriors()`
        - **marginal_likelihood** (:py:class:`float`) -- (Only returned if
          ``return_likelihood`` is ``True``) The marginal likelihood of
          the mutation data given the inferred node times.
    """
    if Ne is not None:
        if population_size is not None:
            raise ValueError("Only provide one of Ne (deprecated) or population_size")
        else:
            population_size = Ne
    if eps is None:
        eps = DEFAULT_EPSILON
    if probability_space is None:
        probability_space = LOG_GRID
    if outside_standardize is None:
        outside_standardize = True
    if ignore_oldest_root is None:
        ignore_oldest_root = False
    dating_method = InsideOutsideMethod(
        tree_sequence,
        mutation_rate=mutation_rate,
        population_size=population_size,
        priors=priors,
        **kwargs,
    )
    result = dating_method.run(
        eps=eps,
        num_threads=num_threads,
        outside_standardize=outside_standardize,
        ignore_oldest_root=ignore_oldest_root,
        cache_inside=cache_inside,
        probability_space=probability_space,
    )
    return dating_method.parse_result(result)


def variational_gamma(
    tree_sequence,
    *,
    mutation_rate,
    max_iterations=None,
    rescaling_intervals=None,
    rescaling_iterations=None,
    match_segregating_sites=None,
    # deliberately undocumented parameters below. We may eventually document these
    max_shape=None,
    regularise_roots=None,
    singletons_phased=None,
    # deprecated parameters
    eps=None,
    **kwargs,
):
    """
    variational_gamma(tree_sequence, *, mutation_rate, max_iterations=None,\
            rescaling_intervals=None, rescaling_iterations=None,\
            match_segregating_sites=None, **kwargs)

    Infer dates for nodes in a tree sequence using expectation propagation,
    which approximates the marginal posterior distribution of a given node's
    age with a gamma distribution. Convergence to the correct posterior moments
    is obtained by updating the distributions for node dates using several rounds
    of iteration. For example:

    .. code-block:: python

      new_ts = tsdate.variational_gamma(ts, mutation_rate=1e-8, max_iterations=10)

    A piecewise-constant uniform distribution is used as a prior for each
    node, that is updated via expectation maximization in each iteration.
    Node-specific priors are not currently supported.

    :param ~tskit.TreeSequence tree_sequence: The input tree sequence to be dated.
    :param float mutation_rate: The estimated mutation rate per unit of genome per
        unit time.
    :param int max_iterations: The number of iterations used in the expectation
        propagation algorithm. Default: None, treated as 25.
    :param float rescaling_intervals: For time rescaling, the number of time
        intervals within which to estimate a rescaling parameter. Setting this to zero
        means that rescaling is not performed. Default ``None``, treated as 1000.
    :param float rescaling_iterations: The number of iterations for time rescaling.
        Setting this to zero means that rescaling is not performed. Default
        ``None``, treated as 5.
    :param bool match_segregating_sites: If ``True``, then time is rescaled
        such that branch- and site-mode segregating sites are approximately equal.
        If ``False``, time is rescaled such that branch- and site-mode root-to-leaf
        length are approximately equal, which gives unbiased estimates when there
        are polytomies. Default ``False``.
    :param \\**kwargs: Other keyword arguments as described in the :func:`date` wrapper
        function, including ``time_units``, ``progress``, ``allow_unary`` and
        ``record_provenance``. The arguments ``return_fit`` and ``return_likelihood``
        can be used to return additional information (see below).
    :return:
        - **ts** (:class:`~tskit.TreeSequence`) -- a copy of the input tree sequence with
          updated node times based on the posterior mean, corrected where necessary to
          ensure that parents are strictly older than all their children by an amount
          given by the ``min_branch_length`` parameter.
        - **fit** (:class:`~variational.ExpectationPropagation`) -- (Only returned
          if ``return_fit`` is ``True``). The underlying object used to run the dating
          inference. This can then be queried e.g. using
          :meth:`~variational.ExpectationPropagation.node_posteriors()`
        - **marginal_likelihood** (:py:class:`float`) -- (Only returned if
          ``return_likelihood`` is ``True``) The marginal likelihood of
          the mutation data given the inferred node times. Not currently
          implemented for this method (set to ``None``)
    """
    if max_iterations is None:
        max_iterations = DEFAULT_MAX_ITERATIONS
    if max_shape is None:
        # The maximum value for the shape parameter in the variational posteriors.
        # Equivalent to the maximum precision (inverse variance) on a logarithmic scale.
        max_shape = 1000
    if rescaling_intervals is None:
        rescaling_intervals = DEFAULT_RESCALING_INTERVALS
    if rescaling_iterations is None:
        rescaling_iterations = DEFAULT_RESCALING_ITERATIONS
    if match_segregating_sites is None:
        match_segregating_sites = False
    if regularise_roots is None:
        regularise_roots = True
    if singletons_phased is None:
        singletons_phased = True
    if eps is not None:
        raise ValueError(
            "The `eps` parameter has been disambiguated and is no longer used "
            "for the variational gamma algorithm; use `min_branch_length` instead"
        )
    if tree_sequence.num_mutations == 0:
        raise ValueError(
            "No mutations present: these are required for the variational_gamma method"
        )
    dating_method = VariationalGammaMethod(
        tree_sequence, mutation_rate=mutation_rate, **kwargs
    )
    result = dating_method.run(
        max_iterations=max_iterations,
        max_shape=max_shape,
        rescaling_intervals=rescaling_intervals,
        rescaling_iterations=rescaling_iterations,
        match_segregating_sites=match_segregating_sites,
        regularise_roots=regularise_roots,
        singletons_phased=singletons_phased,
    )
    return dating_method.parse_result(result)


estimation_methods = {
    "variational_gamma": variational_gamma,
    "inside_outside": inside_outside,
    "maximization": maximization,
}
"""
The names of available estimation methods, each mapped to a function to carry
out the appropriate method. Names can be passed as strings to the
:func:`~tsdate.date` function, or each named function can be called directly:

* :func:`tsdate.variational_gamma`: variational approximation, empirically most accurate.
* :func:`tsdate.inside_outside`: empirically better, theoretically problematic.
* :func:`tsdate.maximization`: worse empirically, especially with gamma approximated
  priors, but theoretically robust
"""


def date(
    tree_sequence,
    *,
    mutation_rate,
    recombination_rate=None,
    time_units=None,
    method=None,
    constr_iterations=None,
    min_branch_length=None,
    set_metadata=None,
    return_fit=None,
    return_likelihood=None,
    allow_unary=None,
    progress=None,
    record_provenance=True,
    # Other kwargs documented in the functions for each specific estimation-method
    **kwargs,
):
    """
    Infer dates for nodes in a genealogical graph (or :ref:`ARG<tutorials:sec_args>`)
    stored in the :ref:`succinct tree sequence<tskit:sec_introduction>` format.
    New times are assigned to nodes using the estimation algorithm specified by
    ``method`` (see note below). A ``mutation_rate`` must be given (the recombination_rate
    parameter, implementing a recombination clock, is unsupported at this
    time). Times associated with mutations and times associated
    with non-fixed (non-sample) nodes are overwritten. For example:

    .. code-block:: python

      mu = 1e-8
      new_ts = tsdate.date(ts, mutation_rate=mu)

    .. note::
        This is a wrapper for the named functions that are listed in
        :data:`~tsdate.core.estimation_methods`. Details and specific parameters for
        each estimation method are given in the documentation for those functions.

    :param ~tskit.TreeSequence tree_sequence: The input tree sequence to be dated (for
        example one with :data:`uncalibrated<tskit.TIME_UNITS_UNCALIBRATED>` node times).
    :param float mutation_rate: The estimated mutation rate per unit of genome per
        unit time (see individual methods)
    :param float recombination_rate: The estimated recombination rate per unit of genome
        per unit time. If provided, the dating algorithm will use a recombination rate
        clock to help estimate node dates. Default: ``None`` (not currently implemented)
    :param str time_units: The time units used by the ``mutation_rate`` and
        ``recombination_rate`` values, and stored in the ``time_units`` attribute of the
        output tree sequence. If the conditional coalescent prior is used,
        then this is also applies to the value of ``population_size``, which in
        standard coalescent theory is measured in generations. Therefore if you
        wish to use mutation and recombination rates measured in (say) years,
        and are using the conditional coalescent prior, the ``population_size``
        value which you provide must be scaled by multiplying by the number of
        years per generation. If ``None`` (default), assume ``"generations"``.
    :param string method: What estimation method to use. See
        :data:`~tsdate.core.estimation_methods` for possible values.
        If ``None`` (default) the "variational_gamma" method is currently chosen.
    :param int constr_iterations: The maximum number of constrained least
        squares iterations to use prior to forcing positive branch lengths.
        Default: None, treated as 0.
    :param float min_branch_length: The minimum distance separating parent and
        child ages in the returned tree sequence. Default: None, treated as 1e-8
    :param bool set_metadata: Should unconstrained times be stored in table metadata,
        in the form of ``"mn"`` (mean) and ``"vr"`` (variance) fields? If ``False``,
        do not store metadata.  If ``True``, force metadata to be set (if no schema
        is set or the schema is incompatible, clear existing metadata in the relevant
        tables and set a new schema). If ``None`` (default), only set metadata if
        the existing schema allows (this may overwrite existing ``"mn"`` and ``"vr"``
        fields) or if existing metadata is empty, otherwise issue a warning.
    :param bool return_fit: If ``True``, instead of just a dated tree sequence,
        return a tuple of ``(dated_ts, fit)``. Default: None, treated as False.
    :param bool return_likelihood: If ``True``, return the log marginal likelihood
        from the inside algorithm in addition to the dated tree sequence. If
        ``return_fit`` is also ``True``, then the marginal likelihood
        will be the last element of the tuple. Default: None, treated as False.
    :param bool allow_unary: Allow nodes that are "locally unary" (i.e. have only
        one child in one or more local trees). Default: None, treated as False.
    :param bool progress: Show a progress bar. Default: None, treated as False.
    :param bool record_provenance: Should the tsdate command be appended to the
        provenence information in the returned tree sequence?
        Default: None, treated as True.
    :param \\**kwargs: Other keyword arguments specific to the
        :data:`estimation method<tsdate.core.estimation_methods>` used. These are
        documented in those specific functions.
    :return:
        A copy of the input tree sequence but with updated node times, or (if
        ``return_fit`` or ``return_likelihood`` is True) a tuple of that
        tree sequence plus a fit object and/or the
        marginal likelihood given the mutations on the tree sequence.
    """
    # Only the .date() wrapper needs to consider the deprecated "Ne" param
    if method is None:
        method = "variational_gamma"
    if method not in estimation_methods:
        raise ValueError(f"method must be one of {list(estimation_methods.keys())}")

    return estimation_methods[method](
        tree_sequence,
        mutation_rate=mutation_rate,
        recombination_rate=recombination_rate,
        time_units=time_units,
        progress=progress,
        constr_iterations=constr_iterations,
        min_branch_length=min_branch_length,
        return_fit=return_fit,
        return_likelihood=return_likelihood,
        allow_unary=allow_unary,
        set_metadata=set_metadata,
        record_provenance=record_provenance,
        **kwargs,
    )
