# MIT License
#
# Copyright (c) 2020 University of Oxford
#
# Permission is hereby granted, free of charge, to any person obtaining a copy
# of this software and associated documentation files (the "Software"), to deal
# in the Software without restriction, including without limitation the rights
# to use, copy, modify, merge, publish, distribute, sublicense, and/or sell
# copies of the Software, and to permit persons to whom the Software is
# furnished to do so, subject to the following conditions:
#
# The above copyright notice and this permission notice shall be included in
# all copies or substantial portions of the Software.
#
# THE SOFTWARE IS PROVIDED "AS IS", WITHOUT WARRANTY OF ANY KIND, EXPRESS OR
# IMPLIED, INCLUDING BUT NOT LIMITED TO THE WARRANTIES OF MERCHANTABILITY,
# FITNESS FOR A PARTICULAR PURPOSE AND NONINFRINGEMENT. IN NO EVENT SHALL THE
# AUTHORS OR COPYRIGHT HOLDERS BE LIABLE FOR ANY CLAIM, DAMAGES OR OTHER
# LIABILITY, WHETHER IN AN ACTION OF CONTRACT, TORT OR OTHERWISE, ARISING FROM,
# OUT OF OR IN CONNECTION WITH THE SOFTWARE OR THE USE OR OTHER DEALINGS IN THE
# SOFTWARE.
"""
Versions of important dependencies and environment.
"""

import json
import platform

import numpy as np
import tskit

__version__ = "undefined"
try:
    from . import _version

    __version__ = _version.version
except ImportError:  # pragma: nocover
    try:
        from setuptools_scm import get_version

        __version__ = get_version(root="..", relative_to=__file__)
    except ImportError:
        pass


def get_environment():
    """
    Returns a dictionary encoding provenance information
    """
    env = {
        "os": {
            "system": platform.system(),
            "node": platform.node(),
            "release": platform.release(),
            "version": platform.version(),
            "machine": platform.machine(),
        },
        "python": {
            "implementation": platform.python_implementation(),
            "version": platform.python_version(),
        },
    }
    libs = {"tskit": {"version": tskit.__version__}}
    env["libraries"] = libs
    return env


def get_provenance_dict(command, start_time=None, **kwargs):
    """
    Returns a dictionary encoding an execution of tsdate conforming to the
    tskit provenance schema.
    """
    if command is None:
        raise ValueError("`command` cannot be None")
    parameters = dict(kwargs)
    parameters["command"] = command
    document = {
        "schema_version": "1.0.0",
        "software": {"name": "tsdate", "version": __version__},
        "parameters": parameters,
        "environment": get_environment(),
        "resources": tskit.provenance.get_resources(start_time),
    }
    return document


def _json_default(obj):
    # parameters are often given as numpy scalars or arrays (e.g. delete_intervals)
    if isinstance(obj, np.generic):
        return obj.item()
    if isinstance(obj, np.ndarray):
        return obj.tolist()
    raise TypeError(f"Object of type {type(obj).__name__} is not JSON serializable")


def record_provenance(tables, command=None, start_time=None, **kwargs):
    """
    Adds provenance information to this table collection using the
    tskit provenances schema.
    """
    record = get_provenance_dict(command=command, start_time=start_time, **kwargs)
    tables.provenances.add_row(record=json.dumps(record, default=_json_default))
