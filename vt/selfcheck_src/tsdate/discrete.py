# Classes used for discete time algorithms (inside-outside and outsize_maximization)
# Note that these methods are no longer the default method used by tsdate
import functools
import itertools
import multiprocessing
import operator
from collections import defaultdict

import numpy as np
import scipy.stats
import tskit
from tqdm.auto import tqdm

from .accelerate import numba_jit
from .node_time_class import LIN_GRID, LOG_GRID


class Likelihoods:
    """
    A class to store and process likelihoods. Likelihoods for edges are stored as a
    flattened lower triangular matrix of all the possible delta t's. This class also
    provides methods for accessing this lower triangular matrix, multiplying it, etc.

    If ``standardize`` is true, routines will operate to standardize the likelihoods
    such that their maximum is one (in linear space) or zero (in log space)
    """

    probability_space = LIN_GRID
    identity_constant = 1.0
    null_constant = 0.0

    def __init__(
        self,
        ts,
        timepoints,
        mutation_rate=None,
        recombination_rate=None,
        *,
        eps=0,
        fixed_node_set=None,
        standardize=False,
        progress=False,
    ):
        self.ts = ts
        self.timepoints = timepoints
        self.fixednodes = set(ts.samples()) if fixed_node_set is None else fixed_node_set
        self.mut_rate = mutation_rate
        self.rec_rate = recombination_rate
        self.standardize = standardize
        self.grid_size = len(timepoints)
        self.tri_size = self.grid_size * (self.grid_size + 1) / 2
        self.ll_mut = {}
        self.mut_edges = self.get_mut_edges(ts)
        self.progress = progress
        # Need to set eps properly in the 2 lines below, to account for values in the
        # same timeslice
        self.timediff_lower_tri = np.concatenate(
            [
                self.timepoints[time_index] - self.timepoints[0 : time_index + 1] + eps
                for time_index in np.arange(len(self.timepoints))
            ]
        )
        self.timediff = self.timepoints - self.timepoints[0] + eps

        # The mut_ll contains unpacked (1D) lower triangular matrices. We need to
        # index this by row and by column index.
        self.row_indices = []
        for t in range(self.grid_size):
            n = np.arange(self.grid_size)
            self.row_indices.append((((n * (n + 1)) // 2) + t)[t:])
        self.col_indices = []
        running_sum = 0  # use this to find the index of the last element of
        # each column in order to appropriately sum the vv by columns.
        for i in np.arange(self.grid_size):
            arr = np.arange(running_sum, running_sum + self.grid_size - i)
            index = arr[-1]
            running_sum = index + 1
            val = arr[0]
            self.col_indices.append(val)

        # These are used for transforming an array of grid_size into one of tri_size
        # By repeating elements over rows to form an upper or a lower triangular matrix
        self.to_lower_tri = np.concatenate(
            [np.arange(time_idx + 1) for time_idx in np.arange(self.grid_size)]
        )
        self.to_upper_tri = np.concatenate(
            [
                np.arange(time_idx, self.grid_size)
                for time_idx in np.arange(self.grid_size + 1)
            ]
        )

    @staticmethod
    def get_mut_edges(ts):
        """
        Get the number of mutations on each edge in the tree sequence.
        """
        mut_edges = np.zeros(ts.num_edges, dtype=np.int64)
        for m in ts.mutations():
            if m.edge != tskit.NULL:
                mut_edges[m.edge] += 1
        return mut_edges

    @staticmethod
    def _lik(muts, span, dt, mutation_rate, standardize=True):
        """
        The likelihood of an edge given a number of mutations, as set of time deltas (dt)
        and a span. This is a static function to allow parallelization
        """
        ll = scipy.stats.poisson.pmf(muts, dt * mutation_rate * span)
        if standardize:
            return ll / np.max(ll)
        else:
            return ll

    @staticmethod
    def _lik_wrapper(muts_span, dt, mutation_rate, standardize=True):
        """
        A wrapper to allow this _lik to be called by pool.imap_unordered, returning the
        mutation and span values
        """
        return muts_span, Likelihoods._lik(
            muts_span[0], muts_span[1], dt, mutation_rate, standardize=standardize
        )

    def precalculate_mutation_likelihoods(self, num_threads=None, unique_method=0):
        """
        We precalculate these because the pmf function is slow, but can be trivially
        parallelised. We store the likelihoods in a cache because they only depend on
        the number of mutations and the span, so can potentially be reused.

        However, we don't bother storing the likelihood for edges above a *fixed* node,
        because (a) these are only used once per node and (b) sample edges are often
        long, and hence their span will be unique. This also allows us to deal easily
        with fixed nodes at explicit times (rather than in time slices)
        """

        if self.mut_rate is None:
            raise RuntimeError(
                "Cannot calculate mutation likelihoods with no mutation_rate set"
            )
        if unique_method == 0:
            self.unfixed_likelihood_cache = {
                (muts, e.span): None
                for muts, e in zip(self.mut_edges, self.ts.edges())
                if e.child not in self.fixednodes
            }
        else:
            fixed_nodes = np.array(list(self.fixednodes))
            keys = np.unique(
                np.core.records.fromarrays(
                    (self.mut_edges, self.ts.edges_right - self.ts.edges_left),
                    names="muts,span",
                )[np.logical_not(np.isin(self.ts.edges_child, fixed_nodes))]
            )
            if unique_method == 1:
                self.unfixed_likelihood_cache = dict.fromkeys({tuple(t) for t in keys})
            else:
                self.unfixed_likelihood_cache = {tuple(t): None for t in keys}

        if num_threads:
            f = functools.partial(  # Set constant values for params for static _lik
                self._lik_wrapper,
                dt=self.timediff_lower_tri,
                mutation_rate=self.mut_rate,
                standardize=self.standardize,
            )
            if num_threads == 1:
                # Useful for testing
                for key in tqdm(
                    self.unfixed_likelihood_cache.keys(),
                    disable=not self.progress,
                    desc="Precalculating Likelihoods",
                ):
                    returned_key, likelihoods = f(key)
                    self.unfixed_likelihood_cache[returned_key] = likelihoods
            else:
                with tqdm(
                    total=len(self.unfixed_likelihood_cache.keys()),
                    disable=not self.progress,
                    desc="Precalculating Likelihoods",
                ) as prog_bar:
                    with multiprocessing.Pool(processes=num_threads) as pool:
                        for key, pmf in pool.imap_unordered(
                            f, self.unfixed_likelihood_cache.keys()
                        ):
                            self.unfixed_likelihood_cache[key] = pmf
                            prog_bar.update()
        else:
            for muts, span in tqdm(
                self.unfixed_likelihood_cache.keys(),
                disable=not self.progress,
                desc="Precalculating Likelihoods",
            ):
                self.unfixed_likelihood_cache[muts, span] = self._lik(
                    muts,
                    span,
                    dt=self.timediff_lower_tri,
                    mutation_rate=self.mut_rate,
                    standardize=self.standardize,
                )

    def get_mut_lik_fixed_node(self, edge):
        """
        Get the mutation likelihoods for an edge whose child is at a
        fixed time, but whose parent may take any of the time slices in the timepoints
        that are equal to or older than the child age. This is not cached, as it is
        likely to be unique for each edge
        """
        assert edge.child in self.fixednodes, (
            "Wrongly called fixed node function on non-fixed node"
        )
        assert self.mut_rate is not None, (
            "Cannot calculate mutation likelihoods with no mutation_rate set"
        )

        mutations_on_edge = self.mut_edges[edge.id]
        child_time = self.ts.node(edge.child).time
        assert child_time == 0
        # Temporary hack - we should really take a more precise likelihood
        return self._lik(
            mutations_on_edge,
            edge.span,
            self.timediff,
            self.mut_rate,
            standardize=self.standardize,
        )

    def get_mut_lik_lower_tri(self, edge):
        """
        Get the cached mutation likelihoods for an edge with non-fixed parent and child
        nodes, returning values for all the possible time differences between timepoints
        These values are returned as a flattened lower triangular matrix, the
        form required in the inside algorithm.

        """
        # Debugging asserts - should probably remove eventually
        assert edge.child not in self.fixednodes, (
            "Wrongly called lower_tri function on fixed node"
        )
        assert hasattr(self, "unfixed_likelihood_cache"), (
            "Must call `precalculate_mutation_likelihoods()` before getting likelihoods"
        )

        mutations_on_edge = self.mut_edges[edge.id]
        return self.unfixed_likelihood_cache[mutations_on_edge, edge.span]

    def get_mut_lik_upper_tri(self, edge):
        """
        Same as :meth:`get_mut_lik_lower_tri`, but the returned array is ordered as
        flattened upper triangular matrix (suitable for the outside algorithm), rather
        than a lower triangular one
        """
        return self.get_mut_lik_lower_tri(edge)[np.concatenate(self.row_indices)]

    # The following functions don't access the likelihoods directly, but allow
    # other input arrays of length grid_size to be repeated in such a way that they can
    # be directly multiplied by the unpacked lower triangular matrix, or arrays of length
    # of the number of cells in the lower triangular matrix to be summed (e.g. by row)
    # to give a shorter array of length grid_size

    def make_lower_tri(self, input_array):
        """
        Repeat the input array row-wise to make a flattened lower triangular matrix
        """
        assert len(input_array) == self.grid_size
        return input_array[self.to_lower_tri]

    def rowsum_lower_tri(self, input_array):
        """
        Describe the reduceat trickery here. Presumably the opposite of make_lower_tri
        """
        assert len(input_array) == self.tri_size
        return np.add.reduceat(input_array, self.row_indices[0])

    def make_upper_tri(self, input_array):
        """
        Repeat the input array row-wise to make a flattened upper triangular matrix
        """
        assert len(input_array) == self.grid_size
        return input_array[self.to_upper_tri]

    def rowsum_upper_tri(self, input_array):
        """
        Describe the reduceat trickery here. Presumably the opposite of make_upper_tri
        """
        assert len(input_array) == self.tri_size
        return np.add.reduceat(input_array, self.col_indices)

    # Mutation & recombination algorithms on a tree sequence

    def n_breaks(self, edge):
        """
        Number of known breakpoints, only used in recombination likelihood calc
        """
        return (edge.left != 0) + (edge.right != self.ts.get_sequence_length())

    def combine(self, lik_1, lik_2):
        return lik_1 * lik_2

    def ratio(self, lik_1, lik_2, div_0_null=False):
        """
        Return the ratio of lik_1 to lik_2. In linear space, this divides lik_1 by lik_2
        If div_0_null==True, then 0/0 is set to the null_constant
        """
        with np.errstate(divide="ignore", invalid="ignore"):
            ret = lik_1 / lik_2
        if div_0_null:
            ret[np.isnan(ret)] = self.null_constant
        return ret

    def marginalize(self, lik):
        """
        Return the sum of likelihoods
        """
        return np.sum(lik)

    def _recombination_lik(self, edge, fixed=True):
        # Needs to return a lower tri *or* flattened array depending on `fixed`
        raise NotImplementedError(
            "Using the recombination clock is not currently supported"
            ". See https://github.com/awohns/tsdate/issues/5 for details"
        )
        # return (
        #     np.power(prev_state, self.n_breaks(edge)) *
        #     np.exp(-(prev_state * self.rec_rate * edge.span * 2)))

    def get_inside(self, arr, edge):
        liks = self.identity_constant
        if self.rec_rate is not None:
            liks *= self._recombination_lik(edge)
        if self.mut_rate is not None:
            liks *= self.get_mut_lik_lower_tri(edge)
        return self.rowsum_lower_tri(arr * liks)

    def get_outside(self, arr, edge):
        liks = self.identity_constant
        if self.rec_rate is not None:
            liks *= self._recombination_lik(edge)
        if self.mut_rate is not None:
            liks *= self.get_mut_lik_upper_tri(edge)
        return self.rowsum_upper_tri(arr * liks)

    def get_fixed(self, arr, edge):
        liks = self.identity_constant
        if self.rec_rate is not None:
            liks *= self._recombination_lik(edge, fixed=True)
        if self.mut_rate is not None:
            liks *= self.get_mut_lik_fixed_node(edge)
        return arr * liks

    def scale_geometric(self, fraction, value):
        return value**fraction


class LogLikelihoods(Likelihoods):
    """
    Identical to the Likelihoods class but stores and returns log likelihoods
    """

    probability_space = LOG_GRID
    identity_constant = 0.0
    null_constant = -np.inf

    """
    Uses an alternative to logsumexp, useful for large grid sizes, see
    http://www.nowozin.net/sebastian/blog/streaming-log-sum-exp-computation.html
    """

    @staticmethod
    @numba_jit
    def logsumexp(X):
        alpha = -np.inf
        r = 0.0
        for x in X:
            if x != -np.inf:
                if x <= alpha:
                    r += np.exp(x - alpha)
                else:
                    r *= np.exp(alpha - x)
                    r += 1.0
                    alpha = x
        return -np.inf if r == 0 else np.log(r) + alpha

    @staticmethod
    def _lik(muts, span, dt, mutation_rate, standardize=True):
        """
        The likelihood of an edge given a number of mutations, as set of time deltas (dt)
        and a span. This is a static function to allow parallelization
        """
        ll = scipy.stats.poisson.logpmf(muts, dt * mutation_rate * span)
        if standardize:
            return ll - np.max(ll)
        else:
            return ll

    @staticmethod
    def _lik_wrapper(muts_span, dt, mutation_rate, standardize=True):
        """
        Needs redefining to refer to the LogLikelihoods class
        """
        return muts_span, LogLikelihoods._lik(
            muts_span[0], muts_span[1], dt, mutation_rate, standardize=standardize
        )

    def rowsum_lower_tri(self, input_array):
        """
        The function below is equivalent to (but numba makes it faster than)
        np.logaddexp.reduceat(input_array, self.row_indices[0])
        """
        assert len(input_array) == self.tri_size
        res = list()
        i_start = self.row_indices[0][0]
        for i in self.row_indices[0][1:]:
            res.append(self.logsumexp(input_array[i_start:i]))
            i_start = i
        res.append(self.logsumexp(input_array[i:]))
        return np.array(res)

    def rowsum_upper_tri(self, input_array):
        """
        The function below is equivalent to (but numba makes it faster than)
        np.logaddexp.reduceat(input_array, self.col_indices)
        """
        assert len(input_array) == self.tri_size
        res = list()
        i_start = self.col_indices[0]
        for i in self.col_indices[1:]:
            res.append(self.logsumexp(input_array[i_start:i]))
            i_start = i
        res.append(self.logsumexp(input_array[i:]))
        return np.array(res)

    def _recombination_loglik(self, edge, fixed=True):
        # Needs to return a lower tri *or* flattened array depending on `fixed`
        raise NotImplementedError(
            "Using the recombination clock is not currently supported"
            ". See https://github.com/awohns/tsdate/issues/5 for details"
        )
        # return (
        #     np.power(prev_state, self.n_breaks(edge)) *
        #     np.exp(-(prev_state * self.rec_rate * edge.span * 2)))

    def combine(self, loglik_1, loglik_2):
        return loglik_1 + loglik_2

    def ratio(self, loglik_1, loglik_2, div_0_null=False):
        """
        In log space, likelihood ratio is loglik_1 - loglik_2
        If div_0_null==True, then if either is -inf it returns -inf (the null_constant)
        """
        with np.errstate(divide="ignore", invalid="ignore"):
            ret = loglik_1 - loglik_2
        if div_0_null:
            ret[np.isnan(ret)] = self.null_constant
        return ret

    def marginalize(self, loglik):
        """
        Return the logged sum of likelihoods
        """
        return self.logsumexp(loglik)

    def get_inside(self, arr, edge):
        log_liks = self.identity_constant
        if self.rec_rate is not None:
            log_liks += self._recombination_loglik(edge)
        if self.mut_rate is not None:
            log_liks += self.get_mut_lik_lower_tri(edge)
        return self.rowsum_lower_tri(arr + log_liks)

    def get_outside(self, arr, edge):
        log_liks = self.identity_constant
        if self.rec_rate is not None:
            log_liks += self._recombination_loglik(edge)
        if self.mut_rate is not None:
            log_liks += self.get_mut_lik_upper_tri(edge)
        return self.rowsum_upper_tri(arr + log_liks)

    def get_fixed(self, arr, edge):
        log_liks = self.identity_constant
        if self.rec_rate is not None:
            log_liks += self._recombination_loglik(edge, fixed=True)
        if self.mut_rate is not None:
            log_liks += self.get_mut_lik_fixed_node(edge)
        return arr + log_liks

    def scale_geometric(self, fraction, value):
        return fraction * value


class BeliefPropagation:
    """
    The class that encapsulates running exact belief propagation models,
    in particular the discrete-time inside and outside algorithms.
    """

    def __init__(self, priors, lik, *, progress=False):
        if (
            lik.fixednodes.intersection(priors.nonfixed_nodes)
            or len(lik.fixednodes) + len(priors.nonfixed_nodes) != lik.ts.num_nodes
        ):
            raise ValueError(
                "The prior and likelihood objects disagree on which nodes are fixed"
            )
        if not np.allclose(lik.timepoints, priors.timepoints):
            raise ValueError(
                "The prior and likelihood objects disagree on the timepoints used"
            )

        self.priors = priors
        self.nonfixed_nodes = priors.nonfixed_nodes
        self.lik = lik
        self.ts = lik.ts

        self.fixednodes = lik.fixednodes
        self.progress = progress
        # If necessary, convert priors to log space
        self.priors.force_probability_space(lik.probability_space)

        self.spans = np.bincount(
            self.ts.edges_child,
            weights=self.ts.edges_right - self.ts.edges_left,
        )
        self.spans = np.pad(self.spans, (0, self.ts.num_nodes - len(self.spans)))

        self.root_spans = defaultdict(float)
        for tree in self.ts.trees(root_threshold=2):
            if tree.has_single_root:
                self.root_spans[tree.root] += tree.span
        # Add on the spans when this is a root
        for root, span_when_root in self.root_spans.items():
            self.spans[root] += span_when_root

    # === Grouped edge iterators ===

    def edges_by_parent_asc(self, grouped=True):
        # Return an itertools.groupby object of edges grouped by parent in ascending
        # order of the time of the parent. As tree sequence properties guarantee that
        # edges are listed in nondecreasing order of parent time
        # (https://tskit.readthedocs.io/en/latest/data-model.html#edge-requirements)
        # we can simply use the standard edge order
        if grouped:
            return itertools.groupby(self.ts.edges(), operator.attrgetter("parent"))
        else:
            return self.ts.edges()

    def edges_by_child_desc(self, grouped=True):
        # Return an itertools.groupby object of edges grouped by child in descending
        # order of the time of the child.
        it = (
            self.ts.edge(u)
            for u in np.lexsort(
                (self.ts.edges_child, -self.ts.nodes_time[self.ts.edges_child])
            )
        )
        if grouped:
            return itertools.groupby(it, operator.attrgetter("child"))
        else:
            return it

    def edges_by_child_then_parent_desc(self, grouped=True):
        # Return an itertools.groupby object of edges grouped by child in descending
        # order of the time of the child, then by descending order of age of child
        wtype = np.dtype(
            [
                ("child_age", self.ts.nodes_time.dtype),
                ("child_node", self.ts.edges_child.dtype),
                ("parent_age", self.ts.nodes_time.dtype),
            ]
        )
        w = np.empty(self.ts.num_edges, dtype=wtype)
        w["child_age"] = self.ts.nodes_time[self.ts.edges_child]
        w["child_node"] = self.ts.edges_child
        w["parent_age"] = -self.ts.nodes_time[self.ts.edges_parent]
        sorted_child_parent = (
            self.ts.edge(i)
            for i in reversed(
                np.argsort(w, order=("child_age", "child_node", "parent_age"))
            )
        )
        if grouped:
            return itertools.groupby(sorted_child_parent, operator.attrgetter("child"))
        else:
            return sorted_child_parent

    # === MAIN ALGORITHMS ===

    def inside_pass(self, *, standardize=True, cache_inside=False, progress=None):
        # Use dynamic programming to find approximate posterior to sample from
        if progress is None:
            progress = self.progress
        inside = self.priors.clone_with_new_data(  # store inside matrix values
            grid_data=np.nan, fixed_data=self.lik.identity_constant
        )
        if cache_inside:
            g_i = np.full(
                (self.ts.num_edges, self.lik.grid_size), self.lik.identity_constant
            )
        denominator = np.full(self.ts.num_nodes, np.nan)
        assert self.lik.standardize is False, (
            "Marginal likelihood requires unstandardized mutation likelihoods"
        )
        marginal_lik = self.lik.identity_constant
        # Iterate through the nodes via groupby on parent node
        for parent, edges in tqdm(
            self.edges_by_parent_asc(),
            desc="Inside",
            total=inside.num_nonfixed,
            disable=not progress,
        ):
            """
            for each node, find the conditional prob of age at every time
            in time grid
            """
            if parent in self.fixednodes:
                continue  # there is no hidden state for this parent - it's fixed
            val = self.priors[parent].copy()
            for edge in edges:
                spanfrac = edge.span / self.spans[edge.child]
                # Calculate vals for each edge
                if edge.child in self.fixednodes:
                    # NB: geometric scaling works exactly when all nodes fixed in graph
                    # but is an approximation when times are unknown.
                    daughter_val = self.lik.scale_geometric(spanfrac, inside[edge.child])
                    edge_lik = self.lik.get_fixed(daughter_val, edge)
                else:
                    inside_values = inside[edge.child]
                    if np.ndim(inside_values) == 0 or np.all(np.isnan(inside_values)):
                        # Child appears fixed, or we have not visited it. Either our
                        # edge order is wrong (bug) or we have hit a dangling node
                        raise ValueError(
                            "The input tree sequence includes "
                            "dangling nodes: please simplify it"
                        )
                    daughter_val = self.lik.scale_geometric(
                        spanfrac, self.lik.make_lower_tri(inside[edge.child])
                    )
                    edge_lik = self.lik.get_inside(daughter_val, edge)
                val = self.lik.combine(val, edge_lik)
                if cache_inside:
                    g_i[edge.id] = edge_lik
            denominator[parent] = (
                np.max(val) if standardize else self.lik.identity_constant
            )
            inside[parent] = self.lik.ratio(val, denominator[parent])
            if standardize:
                marginal_lik = self.lik.combine(marginal_lik, denominator[parent])
        if cache_inside:
            self.g_i = self.lik.ratio(g_i, denominator[self.ts.edges_child, None])
        # Keep the results in this object
        self.inside = inside
        self.denominator = denominator
        # Calculate marginal likelihood
        for root, span_when_root in self.root_spans.items():
            spanfrac = span_when_root / self.spans[root]
            root_val = self.lik.scale_geometric(spanfrac, inside[root])
            marginal_lik = self.lik.combine(marginal_lik, self.lik.marginalize(root_val))
        return marginal_lik

    def outside_pass(
        self,
        *,
        standardize=False,
        ignore_oldest_root=False,
        progress=None,
    ):
        # Computes the full posterior distribution on nodes, returning the
        # posterior values. These are *not* probabilities, as they do not sum to one:
        # to convert to probabilities, call posterior.to_probabilities()
        #
        # Standardizing *during* the outside process may be necessary if there is
        # overflow, but means that we cannot check the total functional value at each node
        #
        # Ignoring the oldest root may also be necessary when the oldest root node
        # causes numerical stability issues.
        if progress is None:
            progress = self.progress
        if not hasattr(self, "inside"):
            raise RuntimeError("You have not yet run the inside algorithm")

        outside = self.inside.clone_with_new_data(grid_data=0, probability_space=LIN_GRID)
        for root, span_when_root in self.root_spans.items():
            outside[root] = span_when_root / self.spans[root]
        outside.force_probability_space(self.inside.probability_space)

        for child, edges in tqdm(
            self.edges_by_child_desc(),
            desc="Outside",
            total=len(np.unique(self.ts.edges_child)),
            disable=not progress,
        ):
            if child in self.fixednodes:
                continue
            val = np.full(self.lik.grid_size, self.lik.identity_constant)
            for edge in edges:
                if ignore_oldest_root:
                    if edge.parent == self.ts.num_nodes - 1:
                        continue
                if edge.parent in self.fixednodes:
                    raise RuntimeError(
                        "Fixed nodes cannot currently be parents in the TS"
                    )
                # Geometric scaling works exactly for all nodes fixed in graph
                # but is an approximation when times are unknown.
                spanfrac = edge.span / self.spans[child]
                try:
                    inside_div_gi = self.lik.ratio(
                        self.inside[edge.parent], self.g_i[edge.id], div_0_null=True
                    )
                except AttributeError:  # we haven't cached g_i so we recalculate
                    daughter_val = self.lik.scale_geometric(
                        spanfrac, self.lik.make_lower_tri(self.inside[edge.child])
                    )
                    edge_lik = self.lik.get_inside(daughter_val, edge)
                    cur_g_i = self.lik.ratio(edge_lik, self.denominator[child])
                    inside_div_gi = self.lik.ratio(
                        self.inside[edge.parent], cur_g_i, div_0_null=True
                    )
                parent_val = self.lik.scale_geometric(
                    spanfrac,
                    self.lik.make_upper_tri(
                        self.lik.combine(outside[edge.parent], inside_div_gi)
                    ),
                )
                if standardize:
                    parent_val = self.lik.ratio(parent_val, np.max(parent_val))
                edge_lik = self.lik.get_outside(parent_val, edge)
                val = self.lik.combine(val, edge_lik)

            # vv[0] = 0  # Seems a hack: internal nodes should be allowed at time 0
            assert self.denominator[edge.child] > self.lik.null_constant
            outside[child] = self.lik.ratio(val, self.denominator[child])
            if standardize:
                outside[child] = self.lik.ratio(val, np.max(val))
        self.outside = outside  # useful to access for testing purposes
        self.posterior_grid = outside.clone_with_new_data(
            grid_data=self.lik.combine(self.inside.grid_data, outside.grid_data),
            fixed_data=np.nan,
        )  # NB: we should never use the posterior for a fixed node

    def node_posteriors(self):
        """
        Return the distribution of posterior node times as a structured array. The
        returned value can be e.g. read into ``pandas.DataFrame`` for further analysis.

        .. note::
            The ``outside_maximization`` method does not provide node time posteriors.

        :return: The distribution of posterior node times as a structured array with
            columns as timepoints. Row ``i`` corresponds to the probabilities of
            node ``i`` lying at each timepoint. Nodes with fixed times are set to
            ``np.nan`` for the entire row.
        :rtype: numpy.ndarray
        """
        try:
            return self.posterior_grid.node_probability_array()
        except AttributeError:
            raise ValueError(
                "Cannot get posteriors without running the outside algorithm"
            ) from None

    def outside_maximization(self, *, eps, progress=None):
        if progress is None:
            progress = self.progress
        if not hasattr(self, "inside"):
            raise RuntimeError("You have not yet run the inside algorithm")

        maximized_node_times = np.zeros(self.ts.num_nodes, dtype="int")

        if self.lik.probability_space == LOG_GRID:
            poisson = scipy.stats.poisson.logpmf
        elif self.lik.probability_space == LIN_GRID:
            poisson = scipy.stats.poisson.pmf

        mut_edges = self.lik.mut_edges
        mrcas = np.where(
            np.isin(np.arange(self.ts.num_nodes), self.ts.edges_child, invert=True)
        )[0]
        for i in mrcas:
            if i not in self.fixednodes:
                maximized_node_times[i] = np.argmax(self.inside[i])

        for child, edges in tqdm(
            self.edges_by_child_then_parent_desc(),
            desc="Maximization",
            total=len(np.unique(self.ts.edges_child)),
            disable=not progress,
        ):
            if child in self.fixednodes:
                continue
            for edge_index, edge in enumerate(edges):
                if edge_index == 0:
                    youngest_par_index = maximized_node_times[edge.parent]
                    parent_time = self.lik.timepoints[maximized_node_times[edge.parent]]
                    ll_mut = poisson(
                        mut_edges[edge.id],
                        (
                            parent_time
                            - self.lik.timepoints[: youngest_par_index + 1]
                            + eps
                        )
                        * self.lik.mut_rate
                        * edge.span,
                    )
                    result = self.lik.ratio(ll_mut, np.max(ll_mut))
                else:
                    cur_parent_index = maximized_node_times[edge.parent]
                    if cur_parent_index < youngest_par_index:
                        youngest_par_index = cur_parent_index
                    parent_time = self.lik.timepoints[maximized_node_times[edge.parent]]
                    ll_mut = poisson(
                        mut_edges[edge.id],
                        (
                            parent_time
                            - self.lik.timepoints[: youngest_par_index + 1]
                            + eps
                        )
                        * self.lik.mut_rate
                        * edge.span,
                    )
                    result[: youngest_par_index + 1] = self.lik.combine(
                        self.lik.ratio(
                            ll_mut[: youngest_par_index + 1],
                            np.max(ll_mut[: youngest_par_index + 1]),
                        ),
                        result[: youngest_par_index + 1],
                    )
            inside_val = self.inside[child][: (youngest_par_index + 1)]

            maximized_node_times[child] = np.argmax(
                self.lik.combine(result[: youngest_par_index + 1], inside_val)
            )
        # The outside_maximization method does not provide a full posterior but
        # simply the means of the posterior distributions
        self.posterior_mean = self.lik.timepoints[
            np.array(maximized_node_times).astype("int")
        ]
