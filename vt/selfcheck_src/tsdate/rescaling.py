# MIT License
#
# Copyright (c) 2020 University of Oxford
#
# Permission is hereby granted, free of charge, to any person obtaining a copy
# of this software and associated documentation files (the "Software"), to deal
# in the Software without restriction, including without limitation the rights
# to use, copy, modify, merge, publish, distribute, sublicense, and/or sell
# copies of the Software, and to permit persons to whom the Software is
# furnished to do so, subject to the following conditions:
#
# The above copyright notice and this permission notice shall be included in
# all copies or substantial portions of the Software.
#
# THE SOFTWARE IS PROVIDED "AS IS", WITHOUT WARRANTY OF ANY KIND, EXPRESS OR
# IMPLIED, INCLUDING BUT NOT LIMITED TO THE WARRANTIES OF MERCHANTABILITY,
# FITNESS FOR A PARTICULAR PURPOSE AND NONINFRINGEMENT. IN NO EVENT SHALL THE
# AUTHORS OR COPYRIGHT HOLDERS BE LIABLE FOR ANY CLAIM, DAMAGES OR OTHER
# LIABILITY, WHETHER IN AN ACTION OF CONTRACT, TORT OR OTHERWISE, ARISING FROM,
# OUT OF OR IN CONNECTION WITH THE SOFTWARE OR THE USE OR OTHER DEALINGS IN THE
# SOFTWARE.
"""
Utilities for rescaling time according to a mutational clock
"""

from math import inf, log

import numba
import numpy as np
import tskit

from .accelerate import numba_jit
from .approx import (
    _b,
    _b1r,
    _f,
    _f1r,
    _f1w,
    _f2r,
    _f2w,
    _i,
    _i1r,
    _i1w,
    _tuple,
    _unituple,
    approximate_gamma_iqr,
)
from .hypergeo import _gammainc_inv as gammainc_inv
from .util import mutation_span_array  # NOQA: F401


@numba_jit(_i1w(_f1r, _i))
def _fixed_changepoints(counts, epochs):
    """
    Find breakpoints such that `counts` is divided roughly equally across `epochs`
    """
    assert epochs > 0
    Y = np.append(0.0, np.cumsum(counts))
    Z = Y / Y[-1]
    z = np.linspace(0, 1, epochs + 1)
    e = np.searchsorted(Z, z, "right") - 1
    if e[0] > 0:
        e[0] = 0
    if e[-1] < counts.size:
        e[-1] = counts.size
    return e.astype(np.int32)


@numba_jit(_i1w(_f1r, _f1r, _f, _f, _f))
def _poisson_changepoints(counts, offset, penalty, min_counts, min_offset):
    """
    Given Poisson counts and offsets for a sequence of observations, find the set
    of changepoints for the Poisson rate that maximizes the profile likelihood
    under a linear penalty on complexity (e.g. penalty == 2 is AIC).

    See: "Optimal detection of changepoints with a linear computation cost"
    (https://doi.org/10.1080/01621459.2012.737745)
    """

    assert counts.size == offset.size
    assert min_counts >= 0
    assert min_offset >= 0
    assert penalty >= 0

    N = np.append(0, np.cumsum(offset))
    Y = np.append(0, np.cumsum(counts))

    def f(i, j):  # loss
        n = N[j] - N[i]
        y = Y[j] - Y[i]
        s = n < min_offset or y < min_counts
        return inf if s else -2 * y * (log(y) - log(n) - 1)

    dim = counts.size
    cost = np.empty(dim)
    F = np.empty(dim + 1)
    C = {0: np.empty(0, dtype=np.int64)}

    F[0] = -penalty
    for j in np.arange(1, dim + 1):
        argmin, minval = 0, np.inf
        for i in C:  # minimize
            cost[i] = F[i] + f(i, j) + penalty
            if cost[i] < minval:
                minval = cost[i]
                argmin = i
        F[j] = minval
        for i in set(C):  # prune
            if cost[i] > F[j] + penalty:
                C.pop(i)
        C[j] = np.append(C[argmin], argmin)

    breaks = np.append(C[dim], dim).astype(np.int32)
    return breaks


@numba_jit(
    _tuple((_f2w, _i1w))(_b1r, _i1r, _f1r, _i1r, _i1r, _f1r, _f1r, _i1r, _i1r, _f, _b)
)
def _count_mutations(
    node_is_sample,
    mutations_node,
    mutations_position,
    edges_parent,
    edges_child,
    edges_left,
    edges_right,
    indexes_insert,
    indexes_remove,
    sequence_length,
    size_biased,
):
    assert edges_parent.size == edges_child.size == edges_left.size == edges_right.size
    assert indexes_insert.size == indexes_remove.size == edges_parent.size
    assert mutations_node.size == mutations_position.size

    num_mutations = mutations_node.size
    num_edges = edges_parent.size
    num_nodes = node_is_sample.size

    indexes_mutation = np.argsort(mutations_position)
    position_insert = edges_left[indexes_insert]
    position_remove = edges_right[indexes_remove]
    position_mutation = mutations_position[indexes_mutation]

    nodes_samples = np.zeros(num_nodes)
    nodes_edge = np.full(num_nodes, tskit.NULL)
    nodes_parent = np.full(num_nodes, tskit.NULL)
    mutations_edge = np.full(num_mutations, tskit.NULL)
    edges_mutations = np.zeros(num_edges)
    edges_span = np.zeros(num_edges)

    nodes_samples[node_is_sample] = 1.0
    left = 0.0
    a, b, d = 0, 0, 0
    while a < num_edges or b < num_edges:
        remainder = sequence_length - left

        while b < num_edges and position_remove[b] == left:  # edges out
            e = indexes_remove[b]
            p, c = edges_parent[e], edges_child[e]
            nodes_edge[c] = tskit.NULL
            nodes_parent[c] = tskit.NULL
            if size_biased:
                while p != tskit.NULL:  # downdate sample counts
                    edges_span[e] -= nodes_samples[c] * remainder
                    nodes_samples[p] -= nodes_samples[c]
                    e, p = nodes_edge[p], nodes_parent[p]
            else:
                edges_span[e] -= remainder
            b += 1

        while a < num_edges and position_insert[a] == left:  # edges in
            e = indexes_insert[a]
            p, c = edges_parent[e], edges_child[e]
            nodes_edge[c] = e
            nodes_parent[c] = p
            if size_biased:
                while p != tskit.NULL:  # update sample counts
                    edges_span[e] += nodes_samples[c] * remainder
                    nodes_samples[p] += nodes_samples[c]
                    e, p = nodes_edge[p], nodes_parent[p]
            else:
                edges_span[e] += remainder
            a += 1

        right = sequence_length
        if b < num_edges:
            right = min(right, position_remove[b])
        if a < num_edges:
            right = min(right, position_insert[a])
        left = right

        while d < num_mutations and position_mutation[d] < right:
            m = indexes_mutation[d]
            c = mutations_node[m]
            e = nodes_edge[c]
            if e != tskit.NULL:
                mutations_edge[m] = e
                edges_mutations[e] += nodes_samples[c] if size_biased else 1.0
            d += 1

    mutations_edge = mutations_edge.astype(np.int32)
    edges_stats = np.column_stack((edges_mutations, edges_span))

    return edges_stats, mutations_edge


def count_mutations(ts, node_is_sample=None, size_biased=False):
    """
    Return an array with `num_edges` rows, and columns that are the number of
    mutations per edge and the total span per edge. If `size_biased` is `True`,
    then mutations and edges are weighted by frequency.

    Note that weighting edges by frequency is done tree-by-tree.
    """
    # TODO: adjust spans by an accessibility mask:
    # need to supply cumulative accessible sequence at each
    # breakpoint

    if node_is_sample is None:
        node_is_sample = np.full(ts.num_nodes, False)
        node_is_sample[list(ts.samples())] = True
    else:
        assert node_is_sample.size == ts.num_nodes

    return _count_mutations(
        node_is_sample,
        ts.mutations_node,
        ts.sites_position[ts.mutations_site],
        ts.edges_parent,
        ts.edges_child,
        ts.edges_left,
        ts.edges_right,
        ts.indexes_edge_insertion_order,
        ts.indexes_edge_removal_order,
        ts.sequence_length,
        size_biased,
    )


@numba_jit(_tuple((_f1w, _f1w, _f1w, _i1w))(_f1r, _f2r, _i1r, _i1r))
def mutational_area(
    nodes_time,
    likelihoods,
    edges_parent,
    edges_child,
):
    """
    Calculate the total number of mutations and mutational area per inter-node
    interval. These are infinitesimal; e.g. the actual count in an interval is
    `returned_count * duration`.

    :param np.ndarray nodes_time: point estimates for node ages
    :param np.ndarray likelihoods: edges are rows; mutation
        counts and mutational span are columns
    :param np.ndarray edges_parent: node index for the parent of each edge
    :param np.ndarray edges_child: node index for the child of each edge
    :param np.ndarray edges_weight: a weight for each edge
    """

    assert edges_parent.size == edges_child.size
    assert likelihoods.shape == (edges_parent.size, 2)

    # index node by unique time breaks
    nodes_order = np.argsort(nodes_time)
    nodes_index = np.zeros(nodes_time.size, dtype=np.int32)
    epoch_breaks = [0.0]
    k = 0
    for i, j in zip(nodes_order[1:], nodes_order[:-1]):
        if nodes_time[i] > nodes_time[j]:
            epoch_breaks.append(nodes_time[i])
            k += 1
        nodes_index[i] = k
    epoch_breaks = np.array(epoch_breaks)
    num_epochs = epoch_breaks.size - 1

    # instantaneous mutation rate per edge
    edges_length = nodes_time[edges_parent] - nodes_time[edges_child]
    edges_subset = edges_length > 0
    edges_counts = likelihoods.copy()
    edges_counts[edges_subset, 0] /= edges_length[edges_subset]

    # pass over edges, measuring overlap with each time interval
    epoch_counts = np.zeros((num_epochs, 2))
    for e in np.flatnonzero(edges_subset):
        p, c = edges_parent[e], edges_child[e]
        a, b = nodes_index[c], nodes_index[p]
        if a < num_epochs:
            epoch_counts[a] += edges_counts[e]
        if b < num_epochs:
            epoch_counts[b] -= edges_counts[e]
    counts = np.cumsum(epoch_counts[:, 0])
    offset = np.cumsum(epoch_counts[:, 1])
    duration = np.diff(epoch_breaks)

    return counts, offset, duration, nodes_index


# --- version before refactor, keeping around for reference ---
# @numba_jit(_unituple(_f1w, 2)(_f1r, _f2r, _f2r, _i1r, _i1r, _f1r, _i))
# def mutational_timescale(
#    nodes_time,
#    likelihoods,
#    constraints,
#    edges_parent,
#    edges_child,
#    edges_weight,
#    max_intervals,
# ):
#    """
#    Rescale node ages so that the instantaneous mutation rate is constant.
#    Edges with a negative duration are ignored when calculating the total
#    rate. Returns a rescaled point estimate and the posterior.
#
#    :param np.ndarray nodes_time: point estimates for node ages
#    :param np.ndarray likelihoods: edges are rows; mutation
#        counts and mutational span are columns
#    :param np.ndarray constraints: lower and upper bounds on node age
#    :param np.ndarray edges_parent: node index for the parent of each edge
#    :param np.ndarray edges_child: node index for the child of each edge
#    :param np.ndarray edges_weight: a weight for each edge
#    :param int max_intervals: maximum number of intervals within which to
#        estimate the time scaling
#    """
#
#    assert edges_parent.size == edges_child.size == edges_weight.size
#    assert likelihoods.shape[0] == edges_parent.size and likelihoods.shape[1] == 2
#    assert constraints.shape[0] == nodes_time.size and constraints.shape[1] == 2
#    assert max_intervals > 0
#
#    nodes_fixed = constraints[:, 0] == constraints[:, 1]
#    assert np.all(nodes_time[nodes_fixed] == constraints[nodes_fixed, 0])
#
#    # index node by unique time breaks
#    nodes_order = np.argsort(nodes_time)
#    nodes_index = np.zeros(nodes_time.size, dtype=np.int32)
#    epoch_breaks = [0.0]
#    k = 0
#    for i, j in zip(nodes_order[1:], nodes_order[:-1]):
#        if nodes_time[i] > nodes_time[j]:
#            epoch_breaks.append(nodes_time[i])
#            k += 1
#        nodes_index[i] = k
#    epoch_breaks = np.array(epoch_breaks)
#    epoch_length = np.diff(epoch_breaks)
#    num_epochs = epoch_length.size
#
#    # instantaneous mutation rate per edge
#    edges_length = nodes_time[edges_parent] - nodes_time[edges_child]
#    edges_subset = edges_length > 0
#    edges_counts = likelihoods.copy()
#    edges_counts[edges_subset, 0] /= edges_length[edges_subset]
#
#    # pass over edges, measuring overlap with each time interval
#    epoch_counts = np.zeros((num_epochs, 2))
#    for e in np.flatnonzero(edges_subset):
#        p, c = edges_parent[e], edges_child[e]
#        a, b = nodes_index[c], nodes_index[p]
#        if a < num_epochs:
#            epoch_counts[a] += edges_counts[e] * edges_weight[e]
#        if b < num_epochs:
#            epoch_counts[b] -= edges_counts[e] * edges_weight[e]
#    counts = np.cumsum(epoch_counts[:, 0])
#    offset = np.cumsum(epoch_counts[:, 1])
#
#    # rescale time such that mutation density is constant between changepoints
#    # TODO: use poisson changepoints to further refine
#    changepoints = _fixed_changepoints(offset * epoch_length, max_intervals)
#    changepoints = np.union1d(changepoints, nodes_index[nodes_fixed])
#    adjust = np.zeros(changepoints.size)
#    k = 0
#    for i, j in zip(changepoints[:-1], changepoints[1:]):
#        assert j > i
#        # TODO: when changepoint intersects a fixed node?
#        n = np.sum(offset[i:j])
#        y = np.sum(counts[i:j])
#        z = np.sum(epoch_length[i:j])
#        assert n > 0, "Zero edge span in interval"
#        adjust[k + 1] = z * y / n
#        k += 1
#    adjust = np.cumsum(adjust)
#    origin = epoch_breaks[changepoints]
#
#    return origin, adjust


@numba_jit(_unituple(_f1w, 2)(_f1r, _f2r, _b1r, _i1r, _i1r, _i))
def mutational_timescale(
    nodes_time,
    likelihoods,
    nodes_fixed,
    edges_parent,
    edges_child,
    max_intervals,
):
    """
    Rescale node ages so that the instantaneous mutation rate is constant.
    Edges with a negative duration are ignored when calculating the total
    rate. Returns a rescaled point estimate and the posterior.

    :param np.ndarray nodes_time: point estimates for node ages
    :param np.ndarray likelihoods: edges are rows; mutation
        counts and mutational span are columns
    :param np.ndarray constraints: lower and upper bounds on node age
    :param np.ndarray edges_parent: node index for the parent of each edge
    :param np.ndarray edges_child: node index for the child of each edge
    :param int max_intervals: maximum number of intervals within which to
        estimate the time scaling
    """

    assert edges_parent.size == edges_child.size
    assert likelihoods.shape[0] == edges_parent.size
    assert likelihoods.shape[1] == 2
    assert nodes_fixed.size == nodes_time.size
    assert max_intervals > 0

    counts, offset, duration, indexes = mutational_area(
        nodes_time,
        likelihoods,
        edges_parent,
        edges_child,
    )

    # rescale time such that mutation density is constant between changepoints
    # TODO: use poisson changepoints to further refine
    epoch_breaks = np.append(0.0, np.cumsum(duration))
    changepoints = _fixed_changepoints(offset * duration, max_intervals)
    changepoints = np.unique(changepoints)
    # changepoints = np.union1d(changepoints, indexes[nodes_fixed])
    adjust = np.zeros(changepoints.size)

    # --- without any internal constraints ---
    k = 0
    for i, j in zip(changepoints[:-1], changepoints[1:]):
        assert j > i
        # TODO: when changepoint intersects a fixed node?
        n = np.sum(offset[i:j])
        y = np.sum(counts[i:j])
        z = np.sum(duration[i:j])
        assert n > 0, "Zero edge span in interval"
        adjust[k + 1] = z * y / n
        k += 1

    adjust = np.cumsum(adjust)
    origin = epoch_breaks[changepoints]

    return origin, adjust


@numba.njit(_f2w(_f2r, _b1r, _f1r, _f1r, _f, _f))
def piecewise_scale_posterior(
    posteriors,
    posteriors_fixed,
    original_breaks,
    rescaled_breaks,
    quantile_width,
    max_shape,
):
    """
    :param np.ndarray posteriors_fixed: if True do not rescale corresponding posterior
    :param float quantile_width: width of interquantile range to use for estimating
        rescaled shape parameter, e.g. 0.5 uses interquartile range
    """

    assert posteriors_fixed.size == posteriors.shape[0]
    assert original_breaks.size == rescaled_breaks.size
    assert 1 > quantile_width > 0

    dim = posteriors.shape[0]
    quant_lower = quantile_width / 2
    quant_upper = 1 - quantile_width / 2

    freed = ~posteriors_fixed
    assert np.all(np.logical_and(posteriors[freed, 0] > -1, posteriors[freed, 1] > 0))

    # use posterior mean as a point estimate
    lower = np.zeros(dim)
    upper = np.zeros(dim)
    midpt = np.zeros(dim)
    for i in np.flatnonzero(freed):
        alpha, beta = posteriors[i]
        lower[i] = gammainc_inv(alpha + 1, quant_lower) / beta
        upper[i] = gammainc_inv(alpha + 1, quant_upper) / beta
        midpt[i] = (alpha + 1) / beta

    # rescale quantiles
    assert np.all(np.diff(rescaled_breaks) > 0), "Use fewer rescaling intervals"
    assert np.all(np.diff(original_breaks) > 0), "Use fewer rescaling intervals"
    scalings = np.append(np.diff(rescaled_breaks) / np.diff(original_breaks), 0)

    def rescale(x):
        i = np.searchsorted(original_breaks, x, "right") - 1
        assert i.min() >= 0  # DEBUG
        assert i.max() < scalings.size  # DEBUG
        return rescaled_breaks[i] + scalings[i] * (x - original_breaks[i])

    midpt = rescale(midpt)
    lower = rescale(lower)
    upper = rescale(upper)

    # reproject posteriors using inter-quantile range
    new_posteriors = np.full(posteriors.shape, np.nan)
    for i in np.flatnonzero(freed):
        alpha, beta = approximate_gamma_iqr(
            quant_lower, quant_upper, lower[i], upper[i], max_shape
        )
        beta = (alpha + 1) / midpt[i]  # choose rate so as to keep mean
        new_posteriors[i] = alpha, beta

    return new_posteriors


@numba_jit(_f1w(_f1r, _b1r, _f1r, _f1r))
def piecewise_scale_point_estimate(
    point_estimate,
    point_fixed,
    original_breaks,
    rescaled_breaks,
):
    assert np.all(np.diff(rescaled_breaks) > 0), "Use fewer rescaling intervals"
    assert np.all(np.diff(original_breaks) > 0), "Use fewer rescaling intervals"
    scalings = np.append(np.diff(rescaled_breaks) / np.diff(original_breaks), 0)
    idx = np.searchsorted(original_breaks, point_estimate, "right") - 1
    rescaled_estimate = rescaled_breaks[idx] + \
        scalings[idx] * (point_estimate - original_breaks[idx])  # fmt: skip
    rescaled_estimate[point_fixed] = point_estimate[point_fixed]
    return rescaled_estimate


# standalone API for rescaling (TODO: needs testing)
def rescale_tree_sequence(
    ts,
    mutation_rate,
    *,
    num_intervals=100,
    num_iterations=10,
    match_segregating_sites=False,
):
    """
    Adjust the time scaling of a tree sequence so that expected mutational area
    matches the expected number of mutations on a path from leaf to root, where
    the expectation is taken over all paths and bases in the sequence.

    :param tskit.TreeSequence ts: the tree sequence to rescale
    :param float mutation_rate: the per-base mutation rate
    :param int num_intervals: the number of time intervals for which
        to estimate a separate time rescaling parameter
    :param int num_iterations: the number of iterations to repeat rescaling
    :param bool match_segregating_sites: if True, match the total number of
        mutations rather than the average number of differences from the ancestral
        state
    :param bool progress: if True, show a progress bar
    """
    samples = list(ts.samples())
    if not np.all(ts.nodes_time[samples] == 0.0):
        raise ValueError("Normalisation not implemented for ancient samples")
    constraints = np.zeros((ts.num_nodes, 2))
    constraints[:, 1] = np.inf
    constraints[samples, :] = ts.nodes_time[samples, np.newaxis]
    if match_segregating_sites:
        mutations_span, mutations_edge = count_mutations(ts)
    else:
        mutations_span, mutations_edge = count_mutations(ts, size_biased=True)
    mutations_span[:, 1] *= mutation_rate
    # rescale node ages
    fixed_nodes = constraints[:, 0] == constraints[:, 1]
    nodes_time = ts.nodes_time.copy()
    for _ in np.arange(num_iterations):
        original_breaks, rescaled_breaks = mutational_timescale(
            nodes_time,
            mutations_span,
            fixed_nodes,
            ts.edges_parent,
            ts.edges_child,
            num_intervals,
        )
        nodes_time = piecewise_scale_point_estimate(
            nodes_time, fixed_nodes, original_breaks, rescaled_breaks
        )
        assert np.allclose(nodes_time[fixed_nodes], ts.nodes_time[fixed_nodes])
    # calculate mutation ages
    mutations_parent = ts.edges_parent[mutations_edge]
    mutations_child = ts.edges_child[mutations_edge]
    mutations_time = (nodes_time[mutations_parent] + nodes_time[mutations_child]) / 2
    above_root = mutations_edge == tskit.NULL
    assert np.allclose(mutations_child[~above_root], ts.mutations_node[~above_root])
    mutations_time[above_root] = nodes_time[ts.mutations_node[above_root]]
    tables = ts.dump_tables()
    tables.nodes.time = nodes_time
    tables.mutations.time = mutations_time
    tables.sort()
    tables.build_index()
    tables.compute_mutation_parents()
    ts = tables.tree_sequence()
    return ts
