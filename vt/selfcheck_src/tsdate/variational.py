# MIT License
#
# Copyright (c) 2021-23 Tskit Developers
# Copyright (c) 2020-21 University of Oxford
#
# Permission is hereby granted, free of charge, to any person obtaining a copy
# of this software and associated documentation files (the "Software"), to deal
# in the Software without restriction, including without limitation the rights
# to use, copy, modify, merge, publish, distribute, sublicense, and/or sell
# copies of the Software, and to permit persons to whom the Software is
# furnished to do so, subject to the following conditions:
#
# The above copyright notice and this permission notice shall be included in
# all copies or substantial portions of the Software.
#
# THE SOFTWARE IS PROVIDED "AS IS", WITHOUT WARRANTY OF ANY KIND, EXPRESS OR
# IMPLIED, INCLUDING BUT NOT LIMITED TO THE WARRANTIES OF MERCHANTABILITY,
# FITNESS FOR A PARTICULAR PURPOSE AND NONINFRINGEMENT. IN NO EVENT SHALL THE
# AUTHORS OR COPYRIGHT HOLDERS BE LIABLE FOR ANY CLAIM, DAMAGES OR OTHER
# LIABILITY, WHETHER IN AN ACTION OF CONTRACT, TORT OR OTHERWISE, ARISING FROM,
# OUT OF OR IN CONNECTION WITH THE SOFTWARE OR THE USE OR OTHER DEALINGS IN THE
# SOFTWARE.
"""
Expectation propagation implementation
"""

import logging
import time

import numba
import numpy as np
import tskit
from numba.types import void as _void
from tqdm.auto import tqdm

from . import approx
from .accelerate import numba_jit
from .approx import _b, _b1r, _f, _f1r, _f1w, _f2r, _f2w, _f3w, _i, _i1r
from .phasing import block_singletons, reallocate_unphased
from .rescaling import (
    count_mutations,
    mutational_timescale,
    piecewise_scale_point_estimate,
    piecewise_scale_posterior,
)
from .util import contains_unary_nodes

logger = logging.getLogger(__name__)

# columns for edge_factors
ROOTWARD = 0  # edge likelihood to parent
LEAFWARD = 1  # edge likelihood to child

# columns for unphased_factors
NODEONE = 0  # block likelihood to first parent
NODETWO = 1  # block likelihood to second parent

# columns for node_factors
MIXPRIOR = 0  # mixture prior to node
CONSTRNT = 1  # bounds on node ages

# columns for constraints
LOWER = 0  # lower bound on node
UPPER = 1  # upper bound on node

# named flags for unphased updates
USE_EDGE_LIKELIHOOD = False
USE_BLOCK_LIKELIHOOD = True

TINY = np.sqrt(np.finfo(np.float64).tiny)  # DEBUG

# dataclass for factors
_EPFactors = [
    ("node", _f3w),
    ("edge", _f3w),
    ("block", _f3w),
    ("scale", _f1w),
    ("_p", _i1r),
    ("_c", _i1r),
    ("_j", _i1r),
    ("_k", _i1r),
]


@numba.experimental.jitclass(_EPFactors)
class EPFactors:
    """
    Mutable state of the EP algorithm, that is the factors associated
    with each edge likelihood / block likelihood / prior factor, that
    together form the posterior.

    Because of constraints on numba's AOT compilation of jitclass,
    this is a dataclass (no intrinsic methods).
    """

    def __init__(
        self,
        node_constraints,
        edge_parents,
        edge_children,
        block_left,
        block_right,
    ):
        assert edge_parents.size == edge_children.size
        assert block_left.size == block_right.size
        num_nodes = node_constraints.shape[0]
        num_edges = edge_parents.size
        num_blocks = block_left.size
        self.node = np.zeros((num_nodes, 2, 2))
        self.edge = np.zeros((num_edges, 2, 2))
        self.block = np.zeros((num_blocks, 2, 2))
        self.scale = np.ones(num_nodes)
        self._p, self._c = edge_parents, edge_children
        self._j, self._k = block_left, block_right


# bypass bug in https://github.com/numba/numba/issues/7808
_fac = numba.deferred_type() if numba.config.DISABLE_JIT \
    else EPFactors.class_type.instance_type  # fmt: skip


# helper functions for numerical stability
@numba_jit(_void(_fac))
def _rescale_factors(factors):
    """
    At each update, all factors associated with a node need to be rescaled.
    This is expensive, so we keep track of the scaling in a separate vector.
    As updates progress, the factors will drift upward in magnitude while
    the scaling drifts downward. To avoid underflow, we may need to
    cancel out the scaling.
    """
    factors.edge[:, ROOTWARD] *= factors.scale[factors._p, np.newaxis]
    factors.edge[:, LEAFWARD] *= factors.scale[factors._c, np.newaxis]
    factors.block[:, ROOTWARD] *= factors.scale[factors._j, np.newaxis]
    factors.block[:, LEAFWARD] *= factors.scale[factors._k, np.newaxis]
    factors.node[:, MIXPRIOR] *= factors.scale[:, np.newaxis]
    factors.node[:, CONSTRNT] *= factors.scale[:, np.newaxis]
    factors.scale[:] = 1.0


@numba_jit(_f2w(_fac))
def _assemble_factors(factors):
    """
    Transform factors into posteriors, intended for debugging purposes only.
    """
    posterior = np.zeros((factors.scale.size, 2))
    for i, (p, c) in enumerate(zip(factors._p, factors._c)):
        posterior[p] += factors.edge[i, ROOTWARD]
        posterior[c] += factors.edge[i, LEAFWARD]
    for i, (j, k) in enumerate(zip(factors._j, factors._k)):
        posterior[j] += factors.block[i, ROOTWARD]
        posterior[k] += factors.block[i, LEAFWARD]
    posterior += factors.node[:, MIXPRIOR]
    posterior += factors.node[:, CONSTRNT]
    return posterior


@numba_jit(_f(_f1r, _f1r, _f))
def _damp(x, y, s):
    """
    If `x - y` is too small, find `d` so that `x - d*y` is large enough:

        x[0] - d*y[0] + 1 >= (x[0] + 1)*s
        x[1] - d*y[1] >= y[1]*s

    for `0 < s < 1`.
    """
    assert x.size == y.size == 2
    if np.all(y == 0.0) and np.all(x == 0.0):
        return 1.0
    assert 0 < s < 1
    assert 0.0 < x[0] + 1
    assert 0.0 < x[1]
    a = 1.0 if (1 + x[0] - y[0] > (1 + x[0]) * s) else (1 - s) * (1 + x[0]) / y[0]
    b = 1.0 if (x[1] - y[1] > x[1] * s) else (1 - s) * x[1] / y[1]
    d = min(a, b)
    assert 0.0 < d <= 1.0
    return d


@numba_jit(_f(_f1r, _f))
def _rescale(x, s):
    """
    Find `d` so that `d*x[0] + 1 <= s[0]` or `d*x[0] + 1 >= 1/s[0]`
    """
    assert x.size == 2
    if np.all(x == 0.0):
        return 1.0
    assert 0 < x[0] + 1
    assert 0 < x[1]
    if 1 + x[0] > s:
        return (s - 1) / x[0]
    elif 1 + x[0] < 1 / s:
        return (1 / s - 1) / x[0]
    return 1.0


# main algorithm
class ExpectationPropagation:
    r"""
    The class that encapsulates running the variational gamma approach to
    tsdate fitting. This contains the Expectation propagation (EP) algorithm
    to infer approximate marginal distributions for node ages.

    The probability model has the form,

    .. math::

        \prod_{i \in \mathcal{N}} f(t_i | \theta_i)
        \prod_{(i,j) \in \mathcal{E}} g(y_ij | t_i - t_j)

    where :math:`f(.)` is a prior distribution on node ages with parameters
    :math:`\\theta` and :math:`g(.)` are Poisson likelihoods per edge. The
    EP approximation to the posterior has the form,

    .. math::

        \prod_{i \in \mathcal{N}} q(t_i | \eta_i)
        \prod_{(i,j) \in \mathcal{E}} q(t_i | \gamma_{ij}) q(t_j | \kappa_{ij})

    where :math:`q(.)` are pseudo-gamma distributions (termed 'factors'), and
    :math:`\eta, \gamma, \kappa` are variational parameters that reflect to
    prior, inside (leaf-to-root), and outside (root-to-edge) information.

    Thus, the EP approximation results in gamma-distribution marginals.  The
    factors :math:`q(.)` do not need to be valid distributions (e.g. the
    shape/rate parameters may be negative), as long as the marginals are valid
    distributions.  For details on how the variational parameters are
    optimized, see Minka (2002) "Expectation Propagation for Approximate
    Bayesian Inference"
    """

    @staticmethod
    @numba_jit(_void(_f2r, _i1r, _i1r))
    def _check_valid_constraints(constraints, edges_parent, edges_child):
        # Check that upper-bound on node age is greater than maximum lower-bound
        # for ages of descendants
        lower_max = constraints[:, LOWER].copy()
        for p, c in zip(edges_parent, edges_child):
            lower_max[p] = max(lower_max[c], lower_max[p])
        if np.any(lower_max > constraints[:, UPPER]):
            raise ValueError(
                "Node age constraints are inconsistent, some descendants have"
                " lower bounds that exceed upper bounds of their ancestors."
            )

    @staticmethod
    def _check_valid_inputs(ts, mutation_rate, allow_unary):
        if not mutation_rate > 0.0:
            raise ValueError("Mutation rate must be positive")
        if not allow_unary and contains_unary_nodes(ts):
            raise ValueError("Tree sequence contains unary nodes, simplify first")

    @staticmethod
    def _check_valid_state(
        posterior,
        factors,
    ):
        # Check that the messages sum to the posterior (debugging only)
        posterior_check = _assemble_factors(factors)
        np.testing.assert_allclose(posterior_check, posterior)

    def __init__(self, ts, *, mutation_rate, allow_unary=False, singletons_phased=True):
        """
        Initialize an expectation propagation algorithm for dating nodes
        in a tree sequence.

        :param ~tskit.TreeSequence ts: a tree sequence containing the partial
            ordering of nodes.
        :param ~float mutation_rate: the expected per-base mutation rate per
            time unit.
        :param ~bool allow_unary: if False, then error out if the tree sequence
            contains non-sample unary nodes.
        :param ~bool singletons_phased: if False, use an algorithm that
            treats singleton phase as unknown.
        """

        self._check_valid_inputs(ts, mutation_rate, allow_unary)
        self.edge_parents = ts.edges_parent
        self.edge_children = ts.edges_child

        # lower and upper bounds on node ages
        fixed_nodes = np.array(list(ts.samples()))
        self.node_constraints = np.zeros((ts.num_nodes, 2))
        self.node_constraints[:, 1] = np.inf
        self.node_constraints[fixed_nodes, :] = ts.nodes_time[fixed_nodes, np.newaxis]
        self._check_valid_constraints(
            self.node_constraints, self.edge_parents, self.edge_children
        )

        # count mutations on edges
        count_timing = time.time()
        self.edge_likelihoods, self.mutation_edges = count_mutations(ts)
        self.edge_likelihoods[:, 1] *= mutation_rate
        self.sizebiased_likelihoods, _ = count_mutations(ts, size_biased=True)
        self.sizebiased_likelihoods[:, 1] *= mutation_rate
        count_timing -= time.time()
        logger.debug(f"Extracted mutations in {abs(count_timing):.2f} seconds")

        # count mutations in singleton blocks
        phase_timing = time.time()
        individual_phased = np.full(ts.num_individuals, singletons_phased)
        self.block_likelihoods, self.block_edges, self.mutation_blocks = \
            block_singletons(ts, ~individual_phased)  # fmt: skip
        self.block_likelihoods[:, 1] *= mutation_rate
        num_blocks = self.block_likelihoods.shape[0]
        self.block_nodes = np.full((2, num_blocks), tskit.NULL, dtype=np.int32)
        self.block_nodes[0] = self.edge_parents[self.block_edges[:, 0]]
        self.block_nodes[1] = self.edge_parents[self.block_edges[:, 1]]
        num_unphased = np.sum(self.mutation_blocks != tskit.NULL)
        phase_timing -= time.time()
        logger.info(f"Found {num_unphased} unphased singleton mutations")
        logger.info(f"Split unphased singleton edges into {num_blocks} blocks")
        logger.debug(f"Phased singletons in {abs(phase_timing):.2f} seconds")

        # mutable
        self.factors = EPFactors(
            self.node_constraints,
            self.edge_parents,
            self.edge_children,
            self.block_nodes[0],
            self.block_nodes[1],
        )
        self.node_posterior = np.zeros((ts.num_nodes, 2))
        self.mutation_posterior = np.full((ts.num_mutations, 2), np.nan)
        self.mutation_phase = np.ones(ts.num_mutations)
        self.mutation_nodes = ts.mutations_node.copy()
        self.edge_logconst = np.zeros(ts.num_edges)
        self.block_logconst = np.zeros(num_blocks)

        # terminal nodes
        has_parent = np.full(ts.num_nodes, False)
        has_child = np.full(ts.num_nodes, False)
        has_parent[self.edge_children] = True
        has_child[self.edge_parents] = True
        self.roots = np.logical_and(has_child, ~has_parent)
        self.leaves = np.logical_and(~has_child, has_parent)
        if np.any(np.logical_and(~has_child, ~has_parent)):
            raise ValueError("Tree sequence contains disconnected nodes")
        # TODO: we don't need to store all these similar vectors
        self.unconstrained_roots = self.roots.copy()
        self.unconstrained_roots[fixed_nodes] = False

        # edge traversal order
        edge_unphased = np.full(ts.num_edges, False)
        edge_unphased[self.block_edges[:, 0]] = True
        edge_unphased[self.block_edges[:, 1]] = True
        edges = np.arange(ts.num_edges, dtype=np.int32)[~edge_unphased]
        self.edge_order = np.concatenate((edges[:-1], np.flip(edges)))
        self.block_order = np.arange(num_blocks, dtype=np.int32)
        self.mutation_order = np.arange(ts.num_mutations, dtype=np.int32)

    @staticmethod
    @numba_jit(_void(_i1r, _i1r, _i1r, _f2r, _f2r, _f2w, _fac, _f1w, _f, _f, _b))
    def propagate_likelihood(
        edge_order,
        edges_parent,
        edges_child,
        likelihoods,
        constraints,
        posterior,
        factors,
        lognorm,
        max_shape,
        min_step,
        unphased,
    ):
        # Update approximating factors for Poisson mutation likelihoods on edges.
        #
        # :param numpy.ndarray edges_parent: integer array of parent ids per edge
        # :param numpy.ndarray edges_child: integer array of child ids per edge
        # :param numpy.ndarray likelihoods: array of dimension `[num_edges, 2]`
        #     containing mutation count and mutational target size per edge.
        # :param numpy.ndarray constraints: array of dimension `[num_nodes, 2]`
        #     containing lower and upper bounds for each node.
        # :param numpy.ndarray posterior: array of dimension `[num_nodes, 2]`
        #     containing natural parameters for each node, updated in-place.
        # :param EPFactors factors: object containing parent and child factors
        #     (natural parameters) for each edge, updated in-place.
        # :param numpy.ndarray lognorm: array of dimension `[num_edges]`
        #     containing the approximate normalizing constants per edge,
        #     updated in-place.
        # :param float max_shape: the maximum allowed shape for node posteriors.
        # :param float min_step: the minimum allowed step size in (0, 1).
        # :param bool unphased: if True, edges are treated as blocks of unphased
        #     singletons in contemporary individuals

        assert constraints.shape == posterior.shape
        assert edges_child.size == edges_parent.size
        assert likelihoods.shape == (edges_parent.size, 2)
        assert max_shape >= 1.0
        assert 0.0 < min_step < 1.0

        def cavity_damping(x, y):
            return _damp(x, y, min_step)

        def posterior_damping(x):
            return _rescale(x, max_shape)

        def leafward_projection(x, y, z):
            if unphased:
                return approx.sideways_projection(x, y, z)
            return approx.leafward_projection(x, y, z)

        def rootward_projection(x, y, z):
            if unphased:
                return approx.sideways_projection(x, y, z)
            return approx.rootward_projection(x, y, z)

        def gamma_projection(x, y, z):
            if unphased:
                return approx.unphased_projection(x, y, z)
            return approx.gamma_projection(x, y, z)

        def twin_projection(x, y):
            assert unphased, "Invalid update"
            return approx.twin_projection(x, y)

        fixed = constraints[:, LOWER] == constraints[:, UPPER]

        scale = factors.scale
        factor = factors.block if unphased else factors.edge
        assert factor.shape == (edges_parent.size, 2, 2)

        for i in edge_order:
            p, c = edges_parent[i], edges_child[i]
            if scale[p] < TINY or scale[c] < TINY:
                # modifies `scale` and `factor` by reference
                _rescale_factors(factors)
            if fixed[p] and fixed[c]:
                continue
            elif fixed[p] and not fixed[c]:
                # in practice this should only occur if a sample is the
                # ancestor of another sample
                child_message = factor[i, LEAFWARD] * scale[c]
                child_delta = cavity_damping(posterior[c], child_message)
                child_cavity = posterior[c] - child_delta * child_message
                edge_likelihood = child_delta * likelihoods[i]
                parent_age = constraints[p, LOWER]
                lognorm[i], posterior[c] = leafward_projection(
                    parent_age,
                    child_cavity,
                    edge_likelihood,
                )
                factor[i, LEAFWARD] *= 1.0 - child_delta
                factor[i, LEAFWARD] += (posterior[c] - child_cavity) / scale[c]
                child_eta = posterior_damping(posterior[c])
                posterior[c] *= child_eta
                scale[c] *= child_eta
            elif fixed[c] and not fixed[p]:
                # in practice this should only occur if a sample has age
                # greater than zero
                parent_message = factor[i, ROOTWARD] * scale[p]
                parent_delta = cavity_damping(posterior[p], parent_message)
                parent_cavity = posterior[p] - parent_delta * parent_message
                edge_likelihood = parent_delta * likelihoods[i]
                child_age = constraints[c, LOWER]
                lognorm[i], posterior[p] = rootward_projection(
                    child_age,
                    parent_cavity,
                    edge_likelihood,
                )
                factor[i, ROOTWARD] *= 1.0 - parent_delta
                factor[i, ROOTWARD] += (posterior[p] - parent_cavity) / scale[p]
                parent_eta = posterior_damping(posterior[p])
                posterior[p] *= parent_eta
                scale[p] *= parent_eta
            else:
                if p == c:  # singleton block with single parent
                    parent_message = factor[i, ROOTWARD] * scale[p]
                    parent_delta = cavity_damping(posterior[p], parent_message)
                    parent_cavity = posterior[p] - parent_delta * parent_message
                    edge_likelihood = parent_delta * likelihoods[i]
                    child_age = constraints[c, LOWER]
                    lognorm[i], posterior[p] = \
                        twin_projection(parent_cavity, edge_likelihood)  # fmt: skip
                    factor[i, ROOTWARD] *= 1.0 - parent_delta
                    factor[i, ROOTWARD] += (posterior[p] - parent_cavity) / scale[p]
                    parent_eta = posterior_damping(posterior[p])
                    posterior[p] *= parent_eta
                    scale[p] *= parent_eta
                else:
                    # lower-bound cavity
                    parent_message = factor[i, ROOTWARD] * scale[p]
                    child_message = factor[i, LEAFWARD] * scale[c]
                    parent_delta = cavity_damping(posterior[p], parent_message)
                    child_delta = cavity_damping(posterior[c], child_message)
                    delta = min(parent_delta, child_delta)

                    parent_cavity = posterior[p] - delta * parent_message
                    child_cavity = posterior[c] - delta * child_message
                    edge_likelihood = delta * likelihoods[i]

                    # match moments and update factors
                    lognorm[i], posterior[p], posterior[c] = gamma_projection(
                        parent_cavity,
                        child_cavity,
                        edge_likelihood,
                    )
                    factor[i, ROOTWARD] *= 1.0 - delta
                    factor[i, ROOTWARD] += (posterior[p] - parent_cavity) / scale[p]
                    factor[i, LEAFWARD] *= 1.0 - delta
                    factor[i, LEAFWARD] += (posterior[c] - child_cavity) / scale[c]

                    # upper-bound posterior
                    parent_eta = posterior_damping(posterior[p])
                    child_eta = posterior_damping(posterior[c])
                    posterior[p] *= parent_eta
                    posterior[c] *= child_eta
                    scale[p] *= parent_eta
                    scale[c] *= child_eta

    @staticmethod
    @numba_jit(_void(_b1r, _f2w, _fac, _f, _i, _f))
    def propagate_prior(free, posterior, factors, max_shape, em_maxitt, em_reltol):
        # Update approximating factors for global prior.
        #
        # :param ndarray free: boolean array for if prior should be applied to node
        # :param ndarray penalty: initial value for regularisation penalty
        # :param ndarray posterior: rows are nodes, columns are first and
        #     second natural parameters of gamma posteriors. Updated in place.
        # :param EPFactors factors: object containing EP messages for nodes.
        #     Updated in place.
        # :param float max_shape: the maximum allowed shape for node posteriors.
        # :param int em_maxitt: the maximum number of EM iterations to use when
        #     fitting the regularisation.
        # :param int em_reltol: the termination criterion for relative change in
        #     log-likelihood.

        assert free.size == posterior.shape[0]
        assert max_shape >= 1.0

        def posterior_damping(x):
            return _rescale(x, max_shape)

        if not np.any(free):
            return

        factor = factors.node
        scale = factors.scale
        assert factor.shape == (free.size, 2, 2)
        assert scale.size == free.size

        # fit an exponential to cavity distributions for unconstrained nodes
        cavity = posterior - factor[:, MIXPRIOR] * scale[:, np.newaxis]
        shape, rate = cavity[free, 0] + 1, cavity[free, 1]
        penalty = 1 / np.mean(shape / rate)
        itt, delta = 0, np.inf
        while abs(delta) > abs(penalty) * em_reltol:
            if itt > em_maxitt:
                break
            delta = 1 / np.mean(shape / (rate + penalty)) - penalty
            penalty += delta
            itt += 1
        assert penalty > 0

        # update posteriors and rescale to keep shape bounded
        posterior[free, 1] = cavity[free, 1] + penalty
        factor[free, MIXPRIOR] = \
            (posterior[free] - cavity[free]) / scale[free, np.newaxis]  # fmt: skip
        for i in np.flatnonzero(free):
            eta = posterior_damping(posterior[i])
            posterior[i] *= eta
            scale[i] *= eta

    @staticmethod
    @numba_jit(_void(_i1r, _f2w, _f1w, _i1r, _i1r, _i1r, _f2r, _f2r, _f2r, _fac, _b))
    def propagate_mutations(
        mutations_order,
        mutations_posterior,
        mutations_phase,
        mutations_edge,
        edges_parent,
        edges_child,
        likelihoods,
        constraints,
        posterior,
        factors,
        unphased,
    ):
        # Calculate posteriors for mutations. (publicly undocumented)
        #
        # :param ndarray mutations_order: integer array giving order in
        #     which to traverse mutations
        # :param ndarray mutations_posterior: array of dimension `(num_mutations, 2)`
        #     containing natural parameters for each mutation, modified in place
        # :param ndarray mutations_phase: array of dimension `(num_mutations, )`
        #     containing mutation phase, modified in place
        # :param ndarray mutations_edge: integer array giving edge for each mutation
        # :param ndarray edges_parent: integer array of parent ids per edge
        # :param ndarray edges_child: integer array of child ids per edge
        # :param ndarray likelihoods: array of dimension `[num_edges, 2]`
        #     containing mutation count and mutational target size per edge.
        # :param ndarray constraints: array of dimension `[num_nodes, 2]`
        #     containing lower and upper bounds for each node.
        # :param ndarray posterior: array of dimension `[num_nodes, 2]`
        #     containing natural parameters for each node
        # :param EPFactors factors: object containing
        #     containing parent and child factors (natural parameters) for each edge
        # :param bool unphased: if True, edges are treated as blocks of unphased
        #     singletons in contemporary individuals

        # TODO: scale should be 1.0, can we delete
        # TODO: we don't seem to need to damp?

        # TODO: assert more stuff here?
        assert mutations_phase.size == mutations_edge.size
        assert mutations_posterior.shape == (mutations_phase.size, 2)
        assert constraints.shape == posterior.shape
        assert edges_child.size == edges_parent.size
        assert likelihoods.shape == (edges_parent.size, 2)

        def leafward_projection(x, y, z):
            if unphased:
                return approx.mutation_sideways_projection(x, y, z)
            return approx.mutation_leafward_projection(x, y, z)

        def rootward_projection(x, y, z):
            if unphased:
                return approx.mutation_sideways_projection(x, y, z)
            return approx.mutation_rootward_projection(x, y, z)

        def gamma_projection(x, y, z):
            if unphased:
                return approx.mutation_unphased_projection(x, y, z)
            return approx.mutation_gamma_projection(x, y, z)

        def fixed_projection(x, y):
            if unphased:
                return approx.mutation_block_projection(x, y)
            return approx.mutation_edge_projection(x, y)

        twin_projection = approx.mutation_twin_projection

        fixed = constraints[:, LOWER] == constraints[:, UPPER]

        scale = factors.scale
        factor = factors.block if unphased else factors.edge
        assert factor.shape == (edges_parent.size, 2, 2)

        for m in mutations_order:
            i = mutations_edge[m]
            if i == tskit.NULL:  # skip mutations above root
                continue
            p, c = edges_parent[i], edges_child[i]
            if fixed[p] and fixed[c]:
                child_age = constraints[c, 0]
                parent_age = constraints[p, 0]
                mutations_phase[m], mutations_posterior[m] = \
                    fixed_projection(parent_age, child_age)  # fmt: skip
            elif fixed[p] and not fixed[c]:
                child_message = factor[i, LEAFWARD] * scale[c]
                child_delta = 1.0  # hopefully we don't need to damp
                child_cavity = posterior[c] - child_delta * child_message
                edge_likelihood = child_delta * likelihoods[i]
                parent_age = constraints[p, LOWER]
                mutations_phase[m], mutations_posterior[m] = leafward_projection(
                    parent_age,
                    child_cavity,
                    edge_likelihood,
                )
            elif fixed[c] and not fixed[p]:
                parent_message = factor[i, ROOTWARD] * scale[p]
                parent_delta = 1.0  # hopefully we don't need to damp
                parent_cavity = posterior[p] - parent_delta * parent_message
                edge_likelihood = parent_delta * likelihoods[i]
                child_age = constraints[c, LOWER]
                mutations_phase[m], mutations_posterior[m] = rootward_projection(
                    child_age,
                    parent_cavity,
                    edge_likelihood,
                )
            else:
                if p == c:  # singleton block with single parent
                    parent_message = factor[i, ROOTWARD] * scale[p]
                    parent_delta = 1.0  # hopefully we don't need to damp
                    parent_cavity = posterior[p] - parent_delta * parent_message
                    edge_likelihood = parent_delta * likelihoods[i]
                    child_age = constraints[c, LOWER]
                    mutations_phase[m], mutations_posterior[m] = \
                        twin_projection(parent_cavity, edge_likelihood)  # fmt: skip
                else:
                    parent_message = factor[i, ROOTWARD] * scale[p]
                    child_message = factor[i, LEAFWARD] * scale[c]
                    parent_delta = 1.0  # hopefully we don't need to damp
                    child_delta = 1.0  # hopefully we don't need to damp
                    delta = min(parent_delta, child_delta)
                    parent_cavity = posterior[p] - delta * parent_message
                    child_cavity = posterior[c] - delta * child_message
                    edge_likelihood = delta * likelihoods[i]
                    mutations_phase[m], mutations_posterior[m] = gamma_projection(
                        parent_cavity,
                        child_cavity,
                        edge_likelihood,
                    )

    def iterate(
        self,
        *,
        max_shape=1000,
        min_step=0.1,
        em_maxitt=10,
        em_reltol=1e-8,
        regularise=True,
        check_valid=False,  # for debugging
    ):
        logger.debug("Passing through singleton blocks")
        self.propagate_likelihood(
            self.block_order,
            self.block_nodes[ROOTWARD],
            self.block_nodes[LEAFWARD],
            self.block_likelihoods,
            self.node_constraints,
            self.node_posterior,
            self.factors,
            self.block_logconst,
            max_shape,
            min_step,
            USE_BLOCK_LIKELIHOOD,
        )

        logger.debug("Rootward + leafward pass through edges")
        self.propagate_likelihood(
            self.edge_order,
            self.edge_parents,
            self.edge_children,
            self.edge_likelihoods,
            self.node_constraints,
            self.node_posterior,
            self.factors,
            self.edge_logconst,
            max_shape,
            min_step,
            USE_EDGE_LIKELIHOOD,
        )

        if regularise:
            logger.debug("Exponential regularization on roots")
            self.propagate_prior(
                self.unconstrained_roots,
                self.node_posterior,
                self.factors,
                max_shape,
                em_maxitt,
                em_reltol,
            )

        logger.debug("Absorbing scaling term into the factors")
        _rescale_factors(self.factors)

        if check_valid:  # for debugging
            self._check_valid_state(self.node_posterior, self.factors)

    def rescale(
        self,
        *,
        rescale_intervals=1000,
        rescale_segsites=False,
        rescale_iterations=10,
        quantile_width=0.5,
        max_shape=1000,
        progress=False,
    ):
        # Normalise posteriors so that empirical mutation rate is constant
        likelihoods = self.edge_likelihoods if rescale_segsites \
            else self.sizebiased_likelihoods  # fmt: skip
        # `mutation_phase` is the probability of the edge on which each singleton has
        # been placed, whereas `reallocate_unphased` expects that of the block's first edge
        singletons = np.flatnonzero(self.mutation_blocks != tskit.NULL)
        first_edge = self.block_edges[self.mutation_blocks[singletons], 0]
        on_second = singletons[self.mutation_edges[singletons] != first_edge]
        block_phase = self.mutation_phase.copy()
        block_phase[on_second] = 1 - block_phase[on_second]
        reallocate_unphased(  # correct mutation counts for unphased singletons
            likelihoods,
            block_phase,
            self.mutation_blocks,
            self.block_edges,
        )
        nodes_fixed = self.node_constraints[:, 0] == self.node_constraints[:, 1]
        mutations_fixed = np.isnan(self.mutation_posterior[:, 0])
        nodes_time, _ = self.node_moments()
        rescaled_nodes_time = nodes_time.copy()
        for _ in np.arange(rescale_iterations):  # estimate time rescaling
            original_breaks, rescaled_breaks = mutational_timescale(
                rescaled_nodes_time,
                likelihoods,
                nodes_fixed,
                self.edge_parents,
                self.edge_children,
                rescale_intervals,
            )
            rescaled_nodes_time = piecewise_scale_point_estimate(
                rescaled_nodes_time,
                nodes_fixed,
                original_breaks,
                rescaled_breaks,
            )
            assert np.allclose(rescaled_nodes_time[nodes_fixed], nodes_time[nodes_fixed])
        # TODO: clean up
        _, unique = np.unique(rescaled_nodes_time[~nodes_fixed], return_index=True)
        original_breaks = piecewise_scale_point_estimate(  # recover original breakpoints
            rescaled_breaks,
            np.full(rescaled_breaks.size, False),
            np.append(0, rescaled_nodes_time[~nodes_fixed][unique]),
            np.append(0, nodes_time[~nodes_fixed][unique]),
        )
        # /TODO
        self.node_posterior[:] = piecewise_scale_posterior(
            self.node_posterior,
            nodes_fixed,
            original_breaks,
            rescaled_breaks,
            quantile_width,
            max_shape,
        )
        self.mutation_posterior[:] = piecewise_scale_posterior(
            self.mutation_posterior,
            mutations_fixed,
            original_breaks,
            rescaled_breaks,
            quantile_width,
            max_shape,
        )

    # TODO change to `date`
    def infer(
        self,
        *,
        ep_iterations,
        max_shape,
        rescale_intervals,
        rescale_iterations,
        regularise,
        rescale_segsites,
        min_step=0.1,
        progress=None,
    ):
        # Run multiple rounds of expectation propagation, and return stats
        self.mean_edge_logconst = []  # Undocumented: can be used to assess convergence
        nodes_timing = time.time()
        for _ in tqdm(
            np.arange(ep_iterations),
            desc="Expectation Propagation",
            disable=not progress,
        ):
            self.iterate(
                max_shape=max_shape,
                min_step=min_step,
                regularise=regularise,
            )
            self.mean_edge_logconst.append(np.mean(self.edge_logconst))

        nodes_timing -= time.time()
        skipped_edges = np.sum(np.isnan(self.edge_logconst))
        logger.info(f"Skipped {skipped_edges} edges with invalid factors")
        logger.info(f"Calculated node posteriors in {abs(nodes_timing):.2f} seconds")

        muts_timing = time.time()
        mutations_phased = self.mutation_blocks == tskit.NULL
        logger.debug("Passing through unphased singletons")
        self.propagate_mutations(  # unphased singletons
            self.mutation_order[~mutations_phased],
            self.mutation_posterior,
            self.mutation_phase,
            self.mutation_blocks,
            self.block_nodes[ROOTWARD],
            self.block_nodes[LEAFWARD],
            self.block_likelihoods,
            self.node_constraints,
            self.node_posterior,
            self.factors,
            USE_BLOCK_LIKELIHOOD,
        )
        logger.debug("Passing through phased mutations")
        self.propagate_mutations(  # phased mutations
            self.mutation_order[mutations_phased],
            self.mutation_posterior,
            self.mutation_phase,
            self.mutation_edges,
            self.edge_parents,
            self.edge_children,
            self.edge_likelihoods,
            self.node_constraints,
            self.node_posterior,
            self.factors,
            USE_EDGE_LIKELIHOOD,
        )
        muts_timing -= time.time()
        skipped_muts = np.sum(np.isnan(self.mutation_posterior[:, 0]))
        logger.info(f"Skipped {skipped_muts} mutations with invalid posteriors")
        logger.info(f"Calculated mutation posteriors in {abs(muts_timing):.2f} seconds")

        singletons = self.mutation_blocks != tskit.NULL
        switched_blocks = self.mutation_blocks[singletons]
        switched_edges = np.where(
            self.mutation_phase[singletons] < 0.5,
            self.block_edges[switched_blocks, 1],
            self.block_edges[switched_blocks, 0],
        )
        self.mutation_edges[singletons] = switched_edges
        self.mutation_nodes[singletons] = self.edge_children[switched_edges]
        switched = self.mutation_phase < 0.5
        self.mutation_phase[switched] = 1 - self.mutation_phase[switched]
        logger.info(f"Switched phase of {np.sum(switched)} singletons")

        if rescale_intervals > 0 and rescale_iterations > 0:
            rescale_timing = time.time()
            self.rescale(
                rescale_intervals=rescale_intervals,
                rescale_iterations=rescale_iterations,
                rescale_segsites=rescale_segsites,
                max_shape=max_shape,
                progress=progress,
            )
            rescale_timing -= time.time()
            logger.info(f"Timescale rescaled in {abs(rescale_timing):.2f} seconds")

    def node_moments(self):
        # Posterior mean and variance of node ages (equivalent to node_posteriors)
        alpha, beta = self.node_posterior.T
        nodes_mn = np.ascontiguousarray(self.node_constraints[:, 0])
        nodes_va = np.zeros(nodes_mn.size)
        free = self.node_constraints[:, 0] != self.node_constraints[:, 1]
        nodes_mn[free] = (alpha[free] + 1) / beta[free]
        nodes_va[free] = nodes_mn[free] / beta[free]
        return nodes_mn, nodes_va

    def mutation_moments(self):
        # Posterior mean and variance of mutation ages
        alpha, beta = self.mutation_posterior.T
        muts_mn = np.full(alpha.size, np.nan)
        muts_va = np.full(alpha.size, np.nan)
        free = np.isfinite(alpha)
        muts_mn[free] = (alpha[free] + 1) / beta[free]
        muts_va[free] = muts_mn[free] / beta[free]
        return muts_mn, muts_va

    def mutation_mapping(self):
        # Map from mutations to edges and subtended node, using estimated singleton
        # phase (if singletons were unphased)

        # TODO: should these be copies? Should members be readonly?
        return self.mutation_nodes

    def marginal_likelihood(self):
        # Return the marginal likelihood of the data given the model

        # TODO: implement
        return None

    def node_posteriors(self):
        """
        Return parameters specifying the inferred posterior distribution of node
        times which can be e.g. read into a ``pandas.DataFrame`` for further analysis.
        The mean times are not strictly constrained by topology, so unlike the
        ``nodes_time`` attribute of a tree sequence, the mean time of a parent node
        may occasionally be less than that of one of its children.

        :return: The distribution of posterior node times as a structured array of
            mean and variance. Row ``i`` gives the mean and variance of inferred
            node times for node ``i``.
        :rtype: numpy.ndarray
        """
        node_mn, node_va = self.node_moments()
        dtype = [("mean", node_mn.dtype), ("variance", node_va.dtype)]
        data = np.empty(node_mn.size, dtype=dtype)
        data["mean"] = node_mn
        data["variance"] = node_va
        return data

    def mutation_posteriors(self):
        """
        Returns parameters specifying the inferred posterior distribution of mutation
        times which can be e.g. read into a ``pandas.DataFrame`` for further analysis.
        These are calculated as the midpoint distribution of the posterior node time
        distributions of the node above and below the mutation. Note that this means
        it is possible for a mean mutation time not to lie between the mean values of
        its parent and child nodes.

        .. note::
            For unphased singletons, the posterior mutation time is integrated over
            the two possible haploid genomes on which the singleton could be placed,
            accounting for the relative branch lengths above each genome.

        :return: The distribution of posterior mutation times as a structured array
            of mean and variance. Row ``i`` gives the mean and variance of inferred
            mutations times for mutation ``i``.
        :rtype: numpy.ndarray
        """
        mut_mn, mut_va = self.mutation_moments()
        dtype = [("mean", mut_mn.dtype), ("variance", mut_va.dtype)]
        data = np.empty(mut_mn.size, dtype=dtype)
        data["mean"] = mut_mn
        data["variance"] = mut_va
        return data


# NB: used for debugging
# def date(
#     ts,
#     *,
#     mutation_rate,
#     singletons_phased=True,
#     max_iterations=10,
#     rescaling_intervals=1000,
#     rescaling_iterations=10,
#     match_segregating_sites=False,
#     regularise_roots=True,
#     constr_iterations=0,
#     progress=True,
# ):
#     """
#     Date a tree sequence with expectation propagation. Returns dated tree
#     sequence and converged ExpectationPropagation object.
#     """
#
#     posterior = variational.ExpectationPropagation(
#         ts,
#         mutation_rate=mutation_rate,
#         singletons_phased=singletons_phased,
#     )
#     posterior.infer(
#         ep_maxitt=max_iterations,
#         max_shape=max_shape,
#         rescale_intervals=rescaling_intervals,
#         rescale_iterations=rescaling_iterations,
#         regularise=regularise_roots,
#         rescale_segsites=match_segregating_sites,
#         progress=progress,
#     )
#
#     node_mn, node_va = posterior.node_moments()
#     mutation_mn, mutation_va = posterior.mutation_moments()
#     mutation_edge, mutation_node = posterior.mutation_mapping()
#
#     tables = ts.dump_tables()
#     tables.nodes.time = \
#        constrain_ages(ts, node_mn, constr_iterations=constr_iterations)
#     tables.mutations.node = mutation_node
#     tables.sort()
#
#     return tables.tree_sequence(), posterior
