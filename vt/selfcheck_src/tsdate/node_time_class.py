# MIT License
#
# Copyright (c) 2021-23 Tskit Developers
# Copyright (c) 2020-21 University of Oxford
#
# Permission is hereby granted, free of charge, to any person obtaining a copy
# of this software and associated documentation files (the "Software"), to deal
# in the Software without restriction, including without limitation the rights
# to use, copy, modify, merge, publish, distribute, sublicense, and/or sell
# copies of the Software, and to permit persons to whom the Software is
# furnished to do so, subject to the following conditions:
#
# The above copyright notice and this permission notice shall be included in
# all copies or substantial portions of the Software.
#
# THE SOFTWARE IS PROVIDED "AS IS", WITHOUT WARRANTY OF ANY KIND, EXPRESS OR
# IMPLIED, INCLUDING BUT NOT LIMITED TO THE WARRANTIES OF MERCHANTABILITY,
# FITNESS FOR A PARTICULAR PURPOSE AND NONINFRINGEMENT. IN NO EVENT SHALL THE
# AUTHORS OR COPYRIGHT HOLDERS BE LIABLE FOR ANY CLAIM, DAMAGES OR OTHER
# LIABILITY, WHETHER IN AN ACTION OF CONTRACT, TORT OR OTHERWISE, ARISING FROM,
# OUT OF OR IN CONNECTION WITH THE SOFTWARE OR THE USE OR OTHER DEALINGS IN THE
# SOFTWARE.
"""
Base classes and internal constants used by tsdate
"""

import numpy as np

FLOAT_DTYPE = np.float64
LIN_GRID = "linear"
LOG_GRID = "logarithmic"
GAMMA_PAR = "gamma_parameter"


class NodeTimeValues:
    """
    A class to store times or discretised distributions of times for node ids. For nodes
    with fixed times, only a single time value needs to be stored. For non-fixed nodes,
    an array of either len(timepoints) probabilties or a set of (gamma) distribution
    parameters is required.

    .. note::

        This class is not intended to be used directly by users and may be subject
        to change of name or internal structure in future versions. For details on
        how to create a ``NodeTimeValues`` object to be used as a prior, see
        :ref:`sec_priors`.

    :ivar num_nodes: The number of nodes that will be stored in this object
    :vartype num_nodes: int
    :ivar nonfixed_nodes: a (possibly empty) numpy array of unique positive node ids each
        of which must be less than num_nodes. Each will have an array of grid_size
        associated with it. All others (up to num_nodes) will be associated with a single
        scalar value instead.
    :vartype nonfixed_nodes: numpy.ndarray
    :ivar timepoints: Array of time points
    :vartype timepoints: numpy.ndarray
    :ivar fill_value: What should we fill the data arrays with to start with
    :vartype fill_value: float
    """

    def __init__(
        self,
        num_nodes,
        nonfixed_nodes,
        timepoints,
        fill_value=np.nan,
        dtype=FLOAT_DTYPE,
    ):
        """
        :param numpy.ndarray grid: The input numpy.ndarray.
        """
        if nonfixed_nodes.ndim != 1:
            raise ValueError("nonfixed_nodes must be a 1D numpy array")
        if np.any((nonfixed_nodes < 0) | (nonfixed_nodes >= num_nodes)):
            raise ValueError(
                "All non fixed node ids must be between zero and the total node number"
            )
        try:
            grid_size = len(timepoints)
            self.probability_space = LIN_GRID
        except TypeError:
            grid_size = timepoints
            self.probability_space = GAMMA_PAR
        self.timepoints = timepoints
        # Make timepoints immutable so no risk of overwritting them with copy
        self.timepoints.setflags(write=False)
        self.num_nodes = num_nodes
        self.nonfixed_nodes = nonfixed_nodes
        self.num_nonfixed = len(nonfixed_nodes)
        self.grid_data = np.full((self.num_nonfixed, grid_size), fill_value, dtype=dtype)
        self.fixed_data = np.full(num_nodes - self.num_nonfixed, fill_value, dtype=dtype)
        self.row_lookup = np.empty(num_nodes, dtype=np.int64)
        # non-fixed nodes get a positive value, indicating lookup in the grid_data array
        self.row_lookup[nonfixed_nodes] = np.arange(self.num_nonfixed)
        # fixed nodes get a negative value from -1, indicating lookup in the scalar array
        self.row_lookup[np.logical_not(np.isin(np.arange(num_nodes), nonfixed_nodes))] = (
            -np.arange(num_nodes - self.num_nonfixed) - 1
        )

    def force_probability_space(self, probability_space):
        """
        probability_space can be "logarithmic" or "linear": this function will force
        the current probability space to the desired type
        """
        descr = (
            self.probability_space,
            "probabilities into",
            probability_space,
            "space",
        )
        if probability_space == LIN_GRID:
            if self.probability_space == LIN_GRID:
                pass
            elif self.probability_space == LOG_GRID:
                self.grid_data = np.exp(self.grid_data)
                self.fixed_data = np.exp(self.fixed_data)
                self.probability_space = LIN_GRID
            else:
                raise TypeError("Cannot force " + " ".join(descr))
        elif probability_space == LOG_GRID:
            if self.probability_space == LOG_GRID:
                pass
            elif self.probability_space == LIN_GRID:
                with np.errstate(divide="ignore", invalid="ignore"):
                    self.grid_data = np.log(self.grid_data)
                    self.fixed_data = np.log(self.fixed_data)
                self.probability_space = LOG_GRID
            else:
                raise TypeError("Cannot force " + " ".join(descr))
        elif probability_space == GAMMA_PAR:
            if self.probability_space == GAMMA_PAR:
                pass
            else:
                raise TypeError("Cannot force " + " ".join(descr))
        else:
            raise ValueError(f"Bad probability space {probability_space}")

    def standardize(self):
        """
        Standardize grid data so the max for each row is one (in linear space) or zero
        (in logarithmic space)

        TODO - is it clear why we omit the first element of the grid?
        """
        rowmax = self.grid_data[:, 1:].max(axis=1)
        if self.probability_space == LIN_GRID:
            self.grid_data = self.grid_data / rowmax[:, np.newaxis]
        elif self.probability_space == LOG_GRID:
            self.grid_data = self.grid_data - rowmax[:, np.newaxis]
        else:
            raise RuntimeError("Probability space is not", LIN_GRID, "or", LOG_GRID)

    def to_probabilities(self):
        """
        Change grid data into probabilities (i.e. each row sums to one in linear or zero
        in logarithmic space)
        """
        if self.probability_space != LIN_GRID:
            raise NotImplementedError("Can only convert to probabilities in linear space")
        assert not np.any(self.grid_data < 0)
        self.grid_data = self.grid_data / self.grid_data.sum(axis=1)[:, np.newaxis]

    def __getitem__(self, node_id):
        index = self.row_lookup[node_id]
        if index < 0:
            return self.fixed_data[1 + index]
        else:
            return self.grid_data[index, :]

    def __setitem__(self, node_id, value):
        index = self.row_lookup[node_id]
        if index < 0:
            self.fixed_data[1 + index] = value
        else:
            self.grid_data[index, :] = value

    def clone_with_new_data(
        self, grid_data=np.nan, fixed_data=None, probability_space=None
    ):
        """
        Take the row indices etc from an existing NodeTimeValues object and make a new
        similar one but with different data. If grid_data is a single number, fill the
        entire data array with that, otherwise assume the data is a numpy array of the
        correct size to fill the gridded data. If grid_data is None, fill with NaN

        If fixed_data is None and grid_data is a single number, use the same value as
        grid_data for the fixed data values. If fixed_data is None and grid_data is an
        array, set the fixed data to np.nan
        """

        def fill_fixed(orig, fixed_data):
            if type(fixed_data) is np.ndarray:
                if orig.fixed_data.shape != fixed_data.shape:
                    raise ValueError(
                        "The fixed data array must be the same shape as the original"
                    )
                return fixed_data
            else:
                return np.full(
                    orig.fixed_data.shape, fixed_data, dtype=orig.fixed_data.dtype
                )

        new_obj = NodeTimeValues.__new__(NodeTimeValues)
        new_obj.num_nodes = self.num_nodes
        new_obj.nonfixed_nodes = self.nonfixed_nodes
        new_obj.num_nonfixed = self.num_nonfixed
        new_obj.row_lookup = self.row_lookup
        new_obj.timepoints = self.timepoints
        if type(grid_data) is np.ndarray:
            if self.grid_data.shape != grid_data.shape:
                raise ValueError(
                    "The grid data array must be the same shape as the original"
                )
            new_obj.grid_data = grid_data
            new_obj.fixed_data = fill_fixed(
                self, np.nan if fixed_data is None else fixed_data
            )
        else:
            if grid_data == 0:  # Fast allocation
                new_obj.grid_data = np.zeros(
                    self.grid_data.shape, dtype=self.grid_data.dtype
                )
            else:
                new_obj.grid_data = np.full(
                    self.grid_data.shape, grid_data, dtype=self.grid_data.dtype
                )
            new_obj.fixed_data = fill_fixed(
                self, grid_data if fixed_data is None else fixed_data
            )
        if probability_space is None:
            new_obj.probability_space = self.probability_space
        else:
            new_obj.probability_space = probability_space
        return new_obj

    def node_probability_array(self):
        """
        Return a structured array with columns for each timepoint and rows for each node.
        Fixed nodes have np.nan in all columns, non-fixed nodes have the grid data.
        """
        if self.probability_space != LIN_GRID:
            raise ValueError("Only valid for linear-space probabilities")
        dtype = self.grid_data.dtype
        struct_dtype = [(str(t), self.grid_data.dtype) for t in self.timepoints]
        result = np.full((self.num_nodes, len(self.timepoints)), np.nan, dtype=dtype)
        result[self.nonfixed_nodes, :] = self.grid_data[:, :]
        return result.ravel().view(dtype=struct_dtype)
