# MIT License
#
# Copyright (c) 2021-23 Tskit Developers
# Copyright (c) 2020-21 University of Oxford
#
# Permission is hereby granted, free of charge, to any person obtaining a copy
# of this software and associated documentation files (the "Software"), to deal
# in the Software without restriction, including without limitation the rights
# to use, copy, modify, merge, publish, distribute, sublicense, and/or sell
# copies of the Software, and to permit persons to whom the Software is
# furnished to do so, subject to the following conditions:
#
# The above copyright notice and this permission notice shall be included in
# all copies or substantial portions of the Software.
#
# THE SOFTWARE IS PROVIDED "AS IS", WITHOUT WARRANTY OF ANY KIND, EXPRESS OR
# IMPLIED, INCLUDING BUT NOT LIMITED TO THE WARRANTIES OF MERCHANTABILITY,
# FITNESS FOR A PARTICULAR PURPOSE AND NONINFRINGEMENT. IN NO EVENT SHALL THE
# AUTHORS OR COPYRIGHT HOLDERS BE LIABLE FOR ANY CLAIM, DAMAGES OR OTHER
# LIABILITY, WHETHER IN AN ACTION OF CONTRACT, TORT OR OTHERWISE, ARISING FROM,
# OUT OF OR IN CONNECTION WITH THE SOFTWARE OR THE USE OR OTHER DEALINGS IN THE
# SOFTWARE.
"""
Tools for approximating combinations of Gamma variates with Gamma distributions
"""

from math import exp, inf, lgamma, log, nan

import numba
import numpy as np

from . import hypergeo
from .accelerate import numba_jit

# TODO: these are reasonable defaults but could
# be set via a control dict
_KLMIN_MAXITT = 100
_KLMIN_RELTOL = np.sqrt(np.finfo(np.float64).eps)


# shorthand for numba readonly array types, [type][dimension][constness]
# type is one of "i" (int32), "f" (float64), "b" (boolean)
# constness is one of "r" (read-only) or "w" (writable)
_f = numba.types.float64
_i = numba.types.int32
_b = numba.types.bool_
_f1w = numba.types.Array(_f, 1, "C", readonly=False)
_f1r = numba.types.Array(_f, 1, "C", readonly=True)
_f2w = numba.types.Array(_f, 2, "C", readonly=False)
_f2r = numba.types.Array(_f, 2, "C", readonly=True)
_f3w = numba.types.Array(_f, 3, "C", readonly=False)
_f3r = numba.types.Array(_f, 3, "C", readonly=True)
_i1w = numba.types.Array(_i, 1, "C", readonly=False)
_i1r = numba.types.Array(_i, 1, "C", readonly=True)
_i2w = numba.types.Array(_i, 2, "C", readonly=False)
_i2r = numba.types.Array(_i, 2, "C", readonly=True)
_i3w = numba.types.Array(_i, 3, "C", readonly=False)
_i3r = numba.types.Array(_i, 3, "C", readonly=True)
_b1w = numba.types.Array(_b, 1, "C", readonly=False)
_b1r = numba.types.Array(_b, 1, "C", readonly=True)
_b2w = numba.types.Array(_b, 2, "C", readonly=False)
_b2r = numba.types.Array(_b, 2, "C", readonly=True)
_b3w = numba.types.Array(_b, 3, "C", readonly=False)
_b3r = numba.types.Array(_b, 3, "C", readonly=True)
_tuple = numba.types.Tuple
_unituple = numba.types.UniTuple
_void = numba.types.void


class KLMinimizationFailedError(Exception):
    pass


@numba_jit(_unituple(_f, 3)(_f, _f))
def approximate_log_moments(mean, variance):
    """
    Approximate log moments via a second-order Taylor series expansion around
    the mean, e.g.:

      E[f(x)] \\approx E[f(mean)] + variance * f''(mean)/2

    Returns approximations to E[log x], E[x log x], E[(log x)^2]
    """
    assert mean > 0
    assert variance > 0
    logx = np.log(mean) - 0.5 * variance / mean**2
    xlogx = mean * np.log(mean) + 0.5 * variance / mean
    logx2 = np.log(mean) ** 2 + (1 - np.log(mean)) * variance / mean**2
    return logx, xlogx, logx2


@numba_jit(_unituple(_f, 2)(_f, _f))
def approximate_gamma_kl(x, logx):
    """
    Use Newton root finding to get gamma natural parameters matching the sufficient
    statistics :math:`E[x]` and :math:`E[\\log x]`, minimizing KL divergence.

    The initial condition uses the upper bound :math:`digamma(x) \\leq log(x) - 1/2x`.

    Returns the shape and rate of the approximating gamma.
    """
    if x <= 0.0 or np.isinf(logx):
        raise KLMinimizationFailedError("Nonpositive or nonfinite moments")
    if not np.log(x) > logx:
        raise KLMinimizationFailedError(
            "log E[t] <= E[log t] violates Jensen's inequality"
        )
    alpha = 0.5 / (np.log(x) - logx)  # lower bound on alpha
    # asymptotically the lower bound becomes sharp
    if 1.0 / alpha < 1e-4:
        return alpha - 1.0, alpha / x
    itt = 0
    delta = np.inf
    # determine convergence when the change in alpha falls below
    # some small value (e.g. square root of machine precision)
    while np.abs(delta) > np.abs(alpha) * _KLMIN_RELTOL:
        if itt > _KLMIN_MAXITT:
            raise KLMinimizationFailedError(
                "Maximum iterations reached in KL minimization"
            )
        delta = hypergeo._digamma(alpha) - np.log(alpha) + np.log(x) - logx
        delta /= hypergeo._trigamma(alpha) - 1 / alpha
        alpha -= delta
        itt += 1
    if not np.isfinite(alpha) or alpha <= 0:
        raise KLMinimizationFailedError("Invalid shape parameter in KL minimization")
    return alpha - 1.0, alpha / x


@numba_jit(_unituple(_f, 2)(_f, _f))
def approximate_gamma_mom(mean, variance):
    """
    Use the method of moments to approximate a distribution with a gamma of the
    same mean and variance, returning natural parameters
    """
    if not (mean > 0.0 and variance > 0.0):
        raise KLMinimizationFailedError("Nonpositive central moments")
    shape = mean**2 / variance
    rate = mean / variance
    return shape - 1.0, rate


@numba.njit(_unituple(_f, 2)(_f, _f, _f, _f, _f))
def approximate_gamma_iqr(q1, q2, x1, x2, max_shape):
    """Find gamma natural parameters that match empirical quantiles"""

    def upper_bound(q, x):  # cap shape parameter
        beta = hypergeo._gammainc_inv(max_shape, q) / x
        return max_shape - 1, beta

    if x2 == x1:
        return upper_bound(q1, x1)
    if not (q2 > q1 and x2 > x1):
        raise KLMinimizationFailedError("Quantiles must be sorted")
    alpha = log(q2 / q1) / log(x2 / x1)  # lower bound
    if alpha > max_shape:
        return upper_bound(q1, x1)

    # refine with newton iteration
    delta = inf
    itt = 0
    while abs(delta) > abs(alpha) * _KLMIN_RELTOL:
        if itt > _KLMIN_MAXITT:
            raise KLMinimizationFailedError(
                "Maximum iterations reached in quantile matching"
            )
        y1 = hypergeo._gammainc_inv(alpha, q1)
        y2 = hypergeo._gammainc_inv(alpha, q2)
        obj = y2 / y1 - x2 / x1
        inv_1 = -exp(y1 + log(y1) * (1 - alpha) + lgamma(alpha))
        inv_2 = -exp(y2 + log(y2) * (1 - alpha) + lgamma(alpha))
        # print(itt, alpha, y1, y2) #DEBUG
        gra_1 = hypergeo._gammainc_der(alpha, y1) * inv_1
        gra_2 = hypergeo._gammainc_der(alpha, y2) * inv_2
        gra = (gra_2 * y1 - gra_1 * y2) / y1**2
        delta = -obj / gra
        alpha += delta
        itt += 1

    if not alpha > 0:
        raise KLMinimizationFailedError("Negative shape parameter")
    if alpha > max_shape:
        return upper_bound(q1, x1)
    beta = hypergeo._gammainc_inv(alpha, q1) / x1
    return alpha - 1, beta


@numba_jit(_unituple(_f, 2)(_f1r, _f1r))
def average_gammas(alpha, beta):
    """
    Given natural parameters for a set of gammas, average sufficient
    statistics so as to get a "global" gamma, returning natural
    parameters
    """
    assert alpha.size == beta.size, "Array sizes are not equal"
    avg_x = 0.0
    avg_logx = 0.0
    for shape, rate in zip(alpha + 1.0, beta):
        avg_logx += hypergeo._digamma(shape) - np.log(rate)
        avg_x += shape / rate
    avg_x /= alpha.size
    avg_logx /= alpha.size
    return approximate_gamma_kl(avg_x, avg_logx)


@numba_jit(_b(_f, _f))
def _valid_moments(mn, va):
    if not (np.isfinite(mn) and np.isfinite(va)):
        return False
    if not (mn > 0.0 and va > 0.0):
        return False
    return True


@numba_jit(_b(_f, _f))
def _valid_gamma(s, r):
    if not (np.isfinite(s) and np.isfinite(r)):
        return False
    if s <= 0.0 or r <= 0.0:
        return False
    return True


@numba_jit(_b(_f, _f, _f))
def _valid_hyp1f1(a, b, z):
    if not (np.isfinite(a) and np.isfinite(b) and np.isfinite(z)):
        return False
    if not (b >= a > 0.0):
        return False
    return True


@numba_jit(_b(_f, _f, _f))
def _valid_hyperu(a, b, z):
    if not (np.isfinite(a) and np.isfinite(b) and np.isfinite(z)):
        return False
    if z <= 0.0:
        return False
    if not (b > a > 0.0):
        return False
    return True


@numba_jit(_b(_f, _f, _f, _f))
def _valid_hyp2f1(a, b, c, z):
    if not (np.isfinite(a) and np.isfinite(b) and np.isfinite(c)):
        return False
    if not np.isfinite(z) or z >= 1 or z / (z - 1) >= 1:
        return False
    if not (a > 0 and b > 0 and c > 0):
        return False
    return True


# --- various EP updates --- #


@numba_jit(_unituple(_f, 5)(_f, _f, _f, _f, _f, _f))
def moments(a_i, b_i, a_j, b_j, y_ij, mu_ij):
    r"""
    log p(t_i, t_j) := \
        log(t_i - t_j) * y_ij - mu_ij * (t_i - t_j) + \
        log(t_i) * (a_i - 1) - b_i * t_i + \
        log(t_j) * (a_j - 1) - b_j * t_j

    Returns normalizing constant, E[t_i], V[t_i], E[t_j], V[t_j].
    """

    a = a_j
    b = a_i + a_j + y_ij
    c = a_j + y_ij + 1
    t = mu_ij + b_i
    z = (mu_ij - b_j) / t if t > 0 else nan

    if not _valid_hyp2f1(a, b, c, z):
        return nan, nan, nan, nan, nan

    hyp2f1 = hypergeo._hyp2f1_laplace
    f0 = hyp2f1(a + 0, b + 0, c + 0, z)
    f1 = hyp2f1(a + 1, b + 1, c + 1, z)
    f2 = hyp2f1(a + 2, b + 2, c + 2, z)
    s1 = a * b / c
    s2 = s1 * (a + 1) * (b + 1) / (c + 1)
    d1 = s1 * exp(f1 - f0)
    d2 = s2 * exp(f2 - f0)

    logl = f0 + hypergeo._betaln(y_ij + 1, a) + lgamma(b) - b * log(t)

    mn_j = d1 / t
    sq_j = d2 / t**2
    va_j = sq_j - mn_j**2

    mn_i = mn_j * z + b / t
    sq_i = sq_j * z**2 + (b + 1) * (mn_i + mn_j * z) / t
    va_i = sq_i - mn_i**2

    return logl, mn_i, va_i, mn_j, va_j


@numba_jit(_unituple(_f, 3)(_f, _f, _f, _f, _f))
def rootward_moments(t_j, a_i, b_i, y_ij, mu_ij):
    r"""
    log p(t_i) := \
        log(t_i - t_j) * y_ij - mu_ij * (t_i - t_j) + \
        log(t_i) * (a_i - 1) - b_i * t_i

    Returns normalizing constant, E[t_i], V[t_i].
    """

    assert t_j >= 0.0

    s = a_i + y_ij
    r = mu_ij + b_i

    if not _valid_gamma(s, r):
        return nan, nan, nan

    if t_j == 0.0:
        logl = lgamma(s) - s * log(r)
        mn_i = s / r
        va_i = s / r**2
        return logl, mn_i, va_i

    a = y_ij + 1
    b = s + 1
    z = t_j * r

    if not _valid_hyperu(a, b, z):
        return nan, nan, nan

    hyperu = hypergeo._hyperu_laplace
    f0, d0 = hyperu(a + 0, b + 0, z)
    f1, d1 = hyperu(a + 1, b + 1, z)

    logl = f0 - b_i * t_j + (b - 1) * log(t_j) + lgamma(a)
    mn_i = t_j * (1 - d0)
    va_i = t_j**2 * d0 * (d1 - d0)

    return logl, mn_i, va_i


@numba_jit(_unituple(_f, 3)(_f, _f, _f, _f, _f))
def leafward_moments(t_i, a_j, b_j, y_ij, mu_ij):
    r"""
    log p(t_j) := \
        log(t_i - t_j) * y_ij - mu_ij * (t_i - t_j) + \
        log(t_j) * (a_j - 1) - b_j * t_j

    Returns normalizing constant, E[t_j], V[t_j].
    """

    assert t_i > 0.0

    a = a_j
    b = a_j + y_ij + 1
    z = t_i * (mu_ij - b_j)

    if not _valid_hyp1f1(a, b, z):
        return nan, nan, nan

    hyp1f1 = hypergeo._hyp1f1_laplace
    f0 = hyp1f1(a + 0, b + 0, z)
    f1 = hyp1f1(a + 1, b + 1, z)
    f2 = hyp1f1(a + 2, b + 2, z)
    d1 = a / b * exp(f1 - f0)
    d2 = a / b * (a + 1) / (b + 1) * exp(f2 - f0)

    logl = f0 - mu_ij * t_i + (b - 1) * log(t_i) + hypergeo._betaln(a, b - a)
    mn_j = t_i * d1
    sq_j = t_i**2 * d2
    va_j = sq_j - mn_j**2

    return logl, mn_j, va_j


@numba_jit(_unituple(_f, 5)(_f, _f, _f, _f, _f, _f))
def unphased_moments(a_i, b_i, a_j, b_j, y_ij, mu_ij):
    r"""
    log p(t_i, t_j) := \
        log(t_i + t_j) * y_ij - mu_ij * (t_i + t_j) + \
        log(t_i) * (a_i - 1) - b_i * t_i + \
        log(t_j) * (a_j - 1) - b_j * t_j

    Returns normalizing constant, E[t_i], V[t_i], E[t_j], V[t_j].
    """

    a = a_j
    b = a_i + a_j + y_ij
    c = a_j + a_i
    t = mu_ij + b_i
    z = (mu_ij + b_j) / t if t > 0 else nan

    if not _valid_hyp2f1(a, b, c, 1 - z):
        return nan, nan, nan, nan, nan

    hyp2f1 = hypergeo._hyp2f1_laplace
    f0 = hyp2f1(a + 0, b + 0, c + 0, 1 - z)
    f1 = hyp2f1(a + 1, b + 1, c + 1, 1 - z)
    f2 = hyp2f1(a + 2, b + 2, c + 2, 1 - z)
    s1 = a * b / c
    s2 = s1 * (a + 1) * (b + 1) / (c + 1)
    d1 = s1 * exp(f1 - f0)
    d2 = s2 * exp(f2 - f0)

    logl = f0 + hypergeo._betaln(a_j, a_i) + lgamma(b) - b * log(t)

    mn_j = d1 / t
    sq_j = d2 / t**2
    va_j = sq_j - mn_j**2

    mn_i = b / t - mn_j * z
    sq_i = sq_j * z**2 + (b + 1) * (mn_i - mn_j * z) / t
    va_i = sq_i - mn_i**2

    return logl, mn_i, va_i, mn_j, va_j


@numba_jit(_unituple(_f, 3)(_f, _f, _f, _f))
def twin_moments(a_i, b_i, y_ij, mu_ij):
    r"""
    log p(t_i) := \
        log(2 * t_i) * y_ij - mu_ij * (2 * t_i) + \
        log(t_i) * (a_i - 1) - b_i * t_i

    Returns normalizing constant, E[t_i], V[t_i].
    """
    s = a_i + y_ij
    r = b_i + 2 * mu_ij
    logl = log(2) * y_ij + lgamma(s) - log(r) * s
    mn_i = s / r
    va_i = s / r**2
    return logl, mn_i, va_i


@numba_jit(_unituple(_f, 3)(_f, _f, _f, _f, _f))
def sideways_moments(t_i, a_j, b_j, y_ij, mu_ij):
    r"""
    log p(t_j) := \
        log(t_i + t_j) * y_ij - mu_ij * (t_i + t_j) + \
        log(t_j) * (a_j - 1) - b_j * t_j

    Returns normalizing constant, E[t_j], V[t_j].
    """

    assert t_i > 0.0

    a = a_j
    b = a_j + y_ij + 1
    z = t_i * (mu_ij + b_j)

    if not _valid_hyperu(a, b, z):
        return nan, nan, nan

    hyperu = hypergeo._hyperu_laplace
    f0, d0 = hyperu(a + 0, b + 0, z)
    f1, d1 = hyperu(a + 1, b + 1, z)

    logl = f0 - mu_ij * t_i + (b - 1) * log(t_i) + lgamma(a)
    mn_j = -t_i * d0
    va_j = t_i**2 * d0 * (d1 - d0)

    return logl, mn_j, va_j


@numba_jit(_unituple(_f, 2)(_f, _f, _f, _f, _f, _f))
def mutation_moments(a_i, b_i, a_j, b_j, y_ij, mu_ij):
    r"""
    log p(t_m, t_i, t_j) = \
        log(t_i - t_j) * y_ij - mu_ij * (t_i - t_j) + \
        log(t_i) * (a_i - 1) - b_i * t_i + \
        log(t_j) * (a_j - 1) - b_j * t_j - \
        log(t_i - t_j) + log(int(t_j < t_m < t_i))

    Returns E[t_m], V[t_m].
    """

    a = a_j
    b = a_i + a_j + y_ij
    c = a_j + y_ij + 1
    t = mu_ij + b_i
    z = (mu_ij - b_j) / t if t > 0 else nan

    if not _valid_hyp2f1(a, b, c, z):
        return nan, nan

    hyp2f1 = hypergeo._hyp2f1_laplace
    f000 = hyp2f1(a + 0, b + 0, c + 0, z)
    f020 = hyp2f1(a + 0, b + 2, c + 0, z)
    f111 = hyp2f1(a + 1, b + 1, c + 1, z)
    f121 = hyp2f1(a + 1, b + 2, c + 1, z)
    f222 = hyp2f1(a + 2, b + 2, c + 2, z)

    s1 = a * b / c
    d1 = b * (b + 1) / t**2
    d2 = d1 * a / c
    d3 = d2 * (a + 1) / (c + 1)

    mn_m = s1 * exp(f111 - f000) / t / 2 * (1 + z) + b / t / 2
    sq_m = (
        d1 * exp(f020 - f000) / 3 + d2 * exp(f121 - f000) / 3 + d3 * exp(f222 - f000) / 3
    )
    va_m = sq_m - mn_m**2

    return mn_m, va_m


@numba_jit(_unituple(_f, 2)(_f, _f, _f, _f, _f))
def mutation_rootward_moments(t_j, a_i, b_i, y_ij, mu_ij):
    r"""
    log p(t_m, t_i) := \
        log(t_i - t_j) * y_ij - mu_ij * (t_i - t_j) + \
        log(t_i) * (a_i - 1) - b_i * t_i - \
        log(t_i - t_j) + log(int(t_j < t_m < t_i))

    Returns E[t_m], V[t_m].
    """

    logl, mn_i, va_i = rootward_moments(t_j, a_i, b_i, y_ij, mu_ij)
    mn_m = mn_i / 2 + t_j / 2
    sq_m = (va_i + mn_i**2 + mn_i * t_j + t_j**2) / 3
    va_m = sq_m - mn_m**2

    return mn_m, va_m


@numba_jit(_unituple(_f, 2)(_f, _f, _f, _f, _f))
def mutation_leafward_moments(t_i, a_j, b_j, y_ij, mu_ij):
    r"""
    log p(t_m, t_j) := \
        log(t_i - t_j) * y_ij - mu_ij * (t_i - t_j) + \
        log(t_j) * (a_j - 1) - b_j * t_j - \
        log(t_i - t_j) + log(int(t_j < t_m < t_i))

    Returns E[t_m], V[t_m].
    """

    logl, mn_j, va_j = leafward_moments(t_i, a_j, b_j, y_ij, mu_ij)
    mn_m = mn_j / 2 + t_i / 2
    sq_m = (va_j + mn_j**2 + mn_j * t_i + t_i**2) / 3
    va_m = sq_m - mn_m**2

    return mn_m, va_m


@numba_jit(_unituple(_f, 3)(_f, _f, _f, _f, _f, _f))
def mutation_unphased_moments(a_i, b_i, a_j, b_j, y_ij, mu_ij):
    r"""
    log p(t_m, t_i, t_j) := \
        log(t_i + t_j) * y_ij - mu_ij * (t_i + t_j) + \
        log(t_i) * (a_i - 1) - b_i * t_i + \
        log(t_j) * (a_j - 1) - b_j * t_j + \
        log(t_i / (t_i + t_j) * int(0 < t_m < t_i) / t_i + \
            t_j / (t_i + t_j) * int(0 < t_m < t_j) / t_j)

    Returns P[m under i], E[t_m], V[t_m].
    """

    # Conditioning on ages of parents:
    #   P[x under i | t_i, t_j] = t_i / (t_i + t_j)
    #   E[x | x under t_i, t_i] = t_i / 2
    #   E[x^2 | x under t_i, t_i] = t_i**2 / 3
    # and equivalently for t_j. Integrating these moments over the EP surrogate
    # density leads to hypergeometric functions similar to the node case, but
    # with integer perturbations of a_i, a_j, y_ij.

    a = a_j
    b = a_j + a_i + y_ij
    c = a_j + a_i
    t = mu_ij + b_i
    z = (mu_ij + b_j) / t if t > 0 else nan

    if not _valid_hyp2f1(a, b, c, 1 - z):
        return nan, nan, nan

    hyp2f1 = hypergeo._hyp2f1_laplace
    f000 = hyp2f1(a + 0, b + 0, c + 0, 1 - z)
    f001 = hyp2f1(a + 0, b + 0, c + 1, 1 - z)
    f012 = hyp2f1(a + 0, b + 1, c + 2, 1 - z)
    f023 = hyp2f1(a + 0, b + 2, c + 3, 1 - z)
    f212 = hyp2f1(a + 2, b + 1, c + 2, 1 - z)
    f323 = hyp2f1(a + 3, b + 2, c + 3, 1 - z)

    s0 = b / t / c / (c + 1)
    s1 = (c - a) * (c - a + 1)
    s2 = a * (a + 1)
    d0 = s0 * (b + 1) / t / (c + 2)
    d1 = s1 * (c - a + 2)
    d2 = s2 * (a + 2)

    mn_m = s0 * s1 * exp(f012 - f000) / 2 + s0 * s2 * exp(f212 - f000) / 2
    sq_m = d0 * d1 * exp(f023 - f000) / 3 + d0 * d2 * exp(f323 - f000) / 3
    va_m = sq_m - mn_m**2
    pr_m = (c - a) / c * exp(f001 - f000)

    return pr_m, mn_m, va_m


@numba_jit(_unituple(_f, 3)(_f, _f, _f, _f))
def mutation_twin_moments(a_i, b_i, y_ij, mu_ij):
    r"""
    log p(t_m, t_i) := \
        log(2 * t_i) * y_ij - mu_ij * (2 * t_i) + \
        log(t_i) * (a_i - 1) - b_i * t_i + \
        log(int(0 < t_m < t_i) / t_i)
    """

    s = a_i + y_ij
    r = b_i + 2 * mu_ij
    pr_m = 0.5
    mn_m = s / r / 2
    sq_m = (s + 1) * s / 3 / r**2
    va_m = sq_m - mn_m**2

    return pr_m, mn_m, va_m


@numba_jit(_unituple(_f, 3)(_f, _f, _f, _f, _f))
def mutation_sideways_moments(t_i, a_j, b_j, y_ij, mu_ij):
    r"""
    log p(t_m, t_j) := \
        log(t_i + t_j) * y_ij - mu_ij * (t_i + t_j) + \
        log(t_j) * (a_j - 1) - b_j * t_j + \
        log(t_i / (t_i + t_j) * int(0 < t_m < t_i) / t_i + \
            t_j / (t_i + t_j) * int(0 < t_m < t_j) / t_j)

    Returns P[m under i], E[t_m], V[t_m].
    """

    assert t_i > 0

    # Conditioning on ages of parents:
    #   P[x under i | t_i, t_j] = t_i / (t_i + t_j)
    #   E[x | x under t_i, t_i] = t_i / 2
    #   E[x^2 | x under t_i, t_i] = t_i**2 / 3
    # and equivalently for t_j. Integrating these moments over the EP surrogate
    # density leads to Tricomi functions similar to the node case, but
    # with integer perturbations of a_j, y_ij.

    a = a_j
    b = a_j + y_ij + 1
    z = t_i * (mu_ij + b_j)

    if not _valid_hyperu(a, b, z):
        return nan, nan, nan

    # direct but unstable:
    hyperu = hypergeo._hyperu_laplace
    f00, d00 = hyperu(a + 0, b + 0, z)
    f10, d10 = hyperu(a + 1, b + 0, z)
    f21, d21 = hyperu(a + 2, b + 1, z)
    f32, d32 = hyperu(a + 3, b + 2, z)
    pr_m = 1.0 - exp(f10 - f00) * a
    mn_m = pr_m * t_i / 2 + t_i * exp(f21 - f00) * a * (a + 1) / 2
    sq_m = pr_m * t_i**2 / 3 + t_i**2 * exp(f32 - f00) * a * (a + 1) * (a + 2) / 3

    # TODO: use a stabler approach with derivatives
    # note that exp(f10 - f00) = (a + z * d00) / (a - b + 1)
    # however the denominator is 0 if y_ij is 0
    # note that when y_ij == 0 then a == b + 1 and f00 = z**(-a)

    va_m = sq_m - mn_m**2

    return pr_m, mn_m, va_m


@numba_jit(_unituple(_f, 2)(_f, _f))
def mutation_edge_moments(t_i, t_j):
    r"""
    log p(t_m) := \
        log(t_i - t_j) + log(int(t_j < t_m < t_i))

    Returns E[t_m], V[t_m].
    """

    mn_m = 1 / 2 * (t_i + t_j)
    va_m = 1 / 12 * (t_i - t_j) ** 2

    return mn_m, va_m


@numba_jit(_unituple(_f, 3)(_f, _f))
def mutation_block_moments(t_i, t_j):
    r"""
    log p(t_m) := \
        log(t_i / (t_i + t_j) * int(0 < t_m < t_i) / t_i + \
            t_j / (t_i + t_j) * int(0 < t_m < t_j) / t_j)

    Returns P[m under i], E[t_m], V[t_m].
    """

    assert t_i > 0
    assert t_j > 0

    pr_m = t_i / (t_i + t_j)
    mn_m = pr_m * t_i / 2 + (1 - pr_m) * t_j / 2
    sq_m = pr_m * t_i**2 / 3 + (1 - pr_m) * t_j**2 / 3
    va_m = sq_m - mn_m**2

    return pr_m, mn_m, va_m


# --- wrappers around updates --- #


@numba_jit(_tuple((_f, _f1r, _f1r))(_f1r, _f1r, _f1r))
def gamma_projection(pars_i, pars_j, pars_ij):
    r"""
    log p(t_i, t_j) := \
        log(t_i - t_j) * y_ij - mu_ij * (t_i - t_j) + \
        log(t_i) * (a_i - 1) - b_i * t_i + \
        log(t_j) * (a_j - 1) - b_j * t_j

    Returns normalizing constant, gamma natural parameters for parent and child ages
    """
    a_i, b_i = pars_i
    a_j, b_j = pars_j
    y_ij, mu_ij = pars_ij
    a_i += 1
    a_j += 1

    logl, mn_i, va_i, mn_j, va_j = moments(a_i, b_i, a_j, b_j, y_ij, mu_ij)

    if not (_valid_moments(mn_i, va_i) and _valid_moments(mn_j, va_j)):
        return np.nan, pars_i, pars_j

    proj_i = approximate_gamma_mom(mn_i, va_i)
    proj_j = approximate_gamma_mom(mn_j, va_j)

    return logl, np.array(proj_i), np.array(proj_j)


@numba_jit(_tuple((_f, _f1r))(_f, _f1r, _f1r))
def leafward_projection(t_i, pars_j, pars_ij):
    r"""
    log p(t_j) := \
        log(t_i - t_j) * y_ij - mu_ij * (t_i - t_j) + \
        log(t_j) * (a_j - 1) - b_j * t_j

    Returns normalizing constant, gamma natural parameters for child age
    """
    a_j, b_j = pars_j
    y_ij, mu_ij = pars_ij
    a_j += 1

    logl, mn_j, va_j = leafward_moments(t_i, a_j, b_j, y_ij, mu_ij)

    if not _valid_moments(mn_j, va_j):
        return np.nan, pars_j

    proj_j = approximate_gamma_mom(mn_j, va_j)

    return logl, np.array(proj_j)


@numba_jit(_tuple((_f, _f1r))(_f, _f1r, _f1r))
def rootward_projection(t_j, pars_i, pars_ij):
    r"""
    log p(t_i) := \
        log(t_i - t_j) * y_ij - mu_ij * (t_i - t_j) + \
        log(t_i) * (a_i - 1) - b_i * t_i

    Returns normalizing constant, gamma natural parameters for parent age
    """
    a_i, b_i = pars_i
    y_ij, mu_ij = pars_ij
    a_i += 1

    logl, mn_i, va_i = rootward_moments(t_j, a_i, b_i, y_ij, mu_ij)

    if not _valid_moments(mn_i, va_i):
        return np.nan, pars_i

    proj_i = approximate_gamma_mom(mn_i, va_i)

    return logl, np.array(proj_i)


@numba_jit(_tuple((_f, _f1r, _f1r))(_f1r, _f1r, _f1r))
def unphased_projection(pars_i, pars_j, pars_ij):
    r"""
    log p(t_i, t_j) := \
        log(t_i + t_j) * y_ij - mu_ij * (t_i + t_j) + \
        log(t_i) * (a_i - 1) - b_i * t_i + \
        log(t_j) * (a_j - 1) - b_j * t_j

    Returns normalizing constant, gamma natural parameters for parent ages
    """
    a_i, b_i = pars_i
    a_j, b_j = pars_j
    y_ij, mu_ij = pars_ij
    a_i += 1
    a_j += 1

    logl, mn_i, va_i, mn_j, va_j = unphased_moments(a_i, b_i, a_j, b_j, y_ij, mu_ij)

    if not _valid_moments(mn_i, va_i) or not _valid_moments(mn_j, va_j):
        return np.nan, pars_i, pars_j

    proj_i = approximate_gamma_mom(mn_i, va_i)
    proj_j = approximate_gamma_mom(mn_j, va_j)

    return logl, np.array(proj_i), np.array(proj_j)


@numba_jit(_tuple((_f, _f1r))(_f1r, _f1r))
def twin_projection(pars_i, pars_ij):
    r"""
    log p(t_i) := \
        log(2 * t_i) * y_ij - mu_ij * (2 * t_i) + \
        log(t_i) * (a_i - 1) - b_i * t_i

    Returns normalizing constant, gamma natural parameters for parent ages
    """
    a_i, b_i = pars_i
    y_ij, mu_ij = pars_ij
    a_i += 1

    logl, mn_i, va_i = twin_moments(a_i, b_i, y_ij, mu_ij)

    if not _valid_moments(mn_i, va_i):
        return np.nan, pars_i

    proj_i = approximate_gamma_mom(mn_i, va_i)

    return logl, np.array(proj_i)


@numba_jit(_tuple((_f, _f1r))(_f, _f1r, _f1r))
def sideways_projection(t_i, pars_j, pars_ij):
    r"""
    log p(t_j) := \
        log(t_i + t_j) * y_ij - mu_ij * (t_i + t_j) + \
        log(t_j) * (a_j - 1) - b_j * t_j

    Returns normalizing constant, gamma natural parameters for nonfixed parent age
    """
    a_j, b_j = pars_j
    y_ij, mu_ij = pars_ij
    a_j += 1

    logl, mn_j, va_j = sideways_moments(t_i, a_j, b_j, y_ij, mu_ij)

    if not _valid_moments(mn_j, va_j):
        return np.nan, pars_j

    proj_j = approximate_gamma_mom(mn_j, va_j)

    return logl, np.array(proj_j)


@numba_jit(_tuple((_f, _f1r))(_f1r, _f1r, _f1r))
def mutation_gamma_projection(pars_i, pars_j, pars_ij):
    r"""
    log p(t_m, t_i, t_j) = \
        log(t_i - t_j) * y_ij - mu_ij * (t_i - t_j) + \
        log(t_i) * (a_i - 1) - b_i * t_i + \
        log(t_j) * (a_j - 1) - b_j * t_j - \
        log(t_i - t_j) + log(int(t_j < t_m < t_i))

    Returns phase probability, gamma natural parameters for mutation age
    """
    a_i, b_i = pars_i
    a_j, b_j = pars_j
    y_ij, mu_ij = pars_ij
    a_i += 1
    a_j += 1

    mn_m, va_m = mutation_moments(a_i, b_i, a_j, b_j, y_ij, mu_ij)

    if not _valid_moments(mn_m, va_m):
        return np.nan, np.full(2, np.nan)

    proj_m = approximate_gamma_mom(mn_m, va_m)

    return 1.0, np.array(proj_m)


@numba_jit(_tuple((_f, _f1r))(_f, _f1r, _f1r))
def mutation_leafward_projection(t_i, pars_j, pars_ij):
    r"""
    log p(t_m, t_j) := \
        log(t_i - t_j) * y_ij - mu_ij * (t_i - t_j) + \
        log(t_j) * (a_j - 1) - b_j * t_j - \
        log(t_i - t_j) + log(int(t_j < t_m < t_i))

    Returns phase probability, gamma natural parameters for mutation age
    """
    a_j, b_j = pars_j
    y_ij, mu_ij = pars_ij
    a_j += 1

    mn_m, va_m = mutation_leafward_moments(t_i, a_j, b_j, y_ij, mu_ij)

    if not _valid_moments(mn_m, va_m):
        return np.nan, np.full(2, np.nan)

    proj_m = approximate_gamma_mom(mn_m, va_m)

    return 1.0, np.array(proj_m)


@numba_jit(_tuple((_f, _f1r))(_f, _f1r, _f1r))
def mutation_rootward_projection(t_j, pars_i, pars_ij):
    r"""
    log p(t_m, t_i) := \
        log(t_i - t_j) * y_ij - mu_ij * (t_i - t_j) + \
        log(t_i) * (a_i - 1) - b_i * t_i - \
        log(t_i - t_j) + log(int(t_j < t_m < t_i))

    Returns phase probability, gamma natural parameters for mutation age
    """
    a_i, b_i = pars_i
    y_ij, mu_ij = pars_ij
    a_i += 1

    mn_m, va_m = mutation_rootward_moments(t_j, a_i, b_i, y_ij, mu_ij)

    if not _valid_moments(mn_m, va_m):
        return np.nan, np.full(2, np.nan)

    proj_m = approximate_gamma_mom(mn_m, va_m)

    return 1.0, np.array(proj_m)


@numba_jit(_tuple((_f, _f1r))(_f, _f))
def mutation_edge_projection(t_i, t_j):
    r"""
    log p(t_m) := \
        log(t_i - t_j) + log(int(t_j < t_m < t_i))

    Returns phase probability, gamma natural parameters for mutation age
    """
    mn_m, va_m = mutation_edge_moments(t_i, t_j)

    if not _valid_moments(mn_m, va_m):
        return np.nan, np.full(2, np.nan)

    proj_m = approximate_gamma_mom(mn_m, va_m)

    return 1.0, np.array(proj_m)


@numba_jit(_tuple((_f, _f1r))(_f1r, _f1r, _f1r))
def mutation_unphased_projection(pars_i, pars_j, pars_ij):
    r"""
    log p(t_m, t_i, t_j) := \
        log(t_i + t_j) * y_ij - mu_ij * (t_i + t_j) + \
        log(t_i) * (a_i - 1) - b_i * t_i + \
        log(t_j) * (a_j - 1) - b_j * t_j + \
        log(t_i / (t_i + t_j) * int(0 < t_m < t_i) + \
            t_j / (t_i + t_j) * int(0 < t_m < t_j))

    Returns phase probability, gamma natural parameters for mutation age
    """
    a_i, b_i = pars_i
    a_j, b_j = pars_j
    y_ij, mu_ij = pars_ij
    a_i += 1
    a_j += 1

    pr_m, mn_m, va_m = mutation_unphased_moments(a_i, b_i, a_j, b_j, y_ij, mu_ij)

    if not _valid_moments(mn_m, va_m) or not (0 <= pr_m <= 1):
        return np.nan, np.full(2, np.nan)

    proj_m = approximate_gamma_mom(mn_m, va_m)

    return pr_m, np.array(proj_m)


@numba_jit(_tuple((_f, _f1r))(_f1r, _f1r))
def mutation_twin_projection(pars_i, pars_ij):
    r"""
    log p(t_m, t_i) := \
        log(2 * t_i) * y_ij - mu_ij * (2 * t_i) + \
        log(t_i) * (a_i - 1) - b_i * t_i + \
        log(int(0 < t_m < t_i) / t_i)

    Returns phase probability, gamma natural parameters for mutation age
    """
    a_i, b_i = pars_i
    y_ij, mu_ij = pars_ij
    a_i += 1

    pr_m, mn_m, va_m = mutation_twin_moments(a_i, b_i, y_ij, mu_ij)

    if not _valid_moments(mn_m, va_m) or not (0 <= pr_m <= 1):
        return np.nan, np.full(2, np.nan)

    proj_m = approximate_gamma_mom(mn_m, va_m)

    return pr_m, np.array(proj_m)


@numba_jit(_tuple((_f, _f1r))(_f, _f1r, _f1r))
def mutation_sideways_projection(t_i, pars_j, pars_ij):
    r"""
    log p(t_m, t_j) := \
        log(t_i + t_j) * y_ij - mu_ij * (t_i + t_j) + \
        log(t_j) * (a_j - 1) - b_j * t_j + \
        log(t_i / (t_i + t_j) * int(0 < t_m < t_i) + \
            t_j / (t_i + t_j) * int(0 < t_m < t_j))

    Returns phase probability, gamma natural parameters for mutation age
    """
    a_j, b_j = pars_j
    y_ij, mu_ij = pars_ij
    a_j += 1

    pr_m, mn_m, va_m = mutation_sideways_moments(t_i, a_j, b_j, y_ij, mu_ij)

    if not _valid_moments(mn_m, va_m) or not (0 <= pr_m <= 1):
        return np.nan, np.full(2, np.nan)

    proj_m = approximate_gamma_mom(mn_m, va_m)

    return pr_m, np.array(proj_m)


@numba_jit(_tuple((_f, _f1r))(_f, _f))
def mutation_block_projection(t_i, t_j):
    r"""
    log p(t_m) := \
        log(t_i / (t_i + t_j) * int(0 < t_m < t_i) + \
            t_j / (t_i + t_j) * int(0 < t_m < t_j))

    Returns phase probability, gamma natural parameters for mutation age
    """
    pr_m, mn_m, va_m = mutation_block_moments(t_i, t_j)

    if not _valid_moments(mn_m, va_m) or not (0 <= pr_m <= 1):
        return np.nan, np.full(2, np.nan)

    proj_m = approximate_gamma_mom(mn_m, va_m)

    return pr_m, np.array(proj_m)
