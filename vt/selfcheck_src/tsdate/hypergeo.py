# MIT License
#
# Copyright (c) 2021-23 Tskit Developers
# Copyright (c) 2020-21 University of Oxford
#
# Permission is hereby granted, free of charge, to any person obtaining a copy
# of this software and associated documentation files (the "Software"), to deal
# in the Software without restriction, including without limitation the rights
# to use, copy, modify, merge, publish, distribute, sublicense, and/or sell
# copies of the Software, and to permit persons to whom the Software is
# furnished to do so, subject to the following conditions:
#
# The above copyright notice and this permission notice shall be included in
# all copies or substantial portions of the Software.
#
# THE SOFTWARE IS PROVIDED "AS IS", WITHOUT WARRANTY OF ANY KIND, EXPRESS OR
# IMPLIED, INCLUDING BUT NOT LIMITED TO THE WARRANTIES OF MERCHANTABILITY,
# FITNESS FOR A PARTICULAR PURPOSE AND NONINFRINGEMENT. IN NO EVENT SHALL THE
# AUTHORS OR COPYRIGHT HOLDERS BE LIABLE FOR ANY CLAIM, DAMAGES OR OTHER
# LIABILITY, WHETHER IN AN ACTION OF CONTRACT, TORT OR OTHERWISE, ARISING FROM,
# OUT OF OR IN CONNECTION WITH THE SOFTWARE OR THE USE OR OTHER DEALINGS IN THE
# SOFTWARE.
"""
Numerically stable implementations of the Gauss hypergeometric function with numba.
"""

import ctypes
from math import erf, exp, lgamma, log, pi, pow, sqrt  # noqa: A004

import numba
import numpy as np
from numba.extending import get_cython_function_address

from .accelerate import numba_jit

_HYP2F1_TOL = 1e-10
_HYP2F1_MAXTERM = int(1e6)


class Invalid2F1(Exception):  # noqa N818
    pass


# --- numba bindings for scipy cython interface --- #

_dbl = ctypes.c_double

# for caching reasons, we use math.lgamma rather than scipy.special.cython_special.gammaln

# gammaincinv
_gammaincinv_addr = get_cython_function_address(
    "scipy.special.cython_special", "gammaincinv"
)
_gammaincinv_functype = ctypes.CFUNCTYPE(_dbl, _dbl, _dbl)
_gammaincinv_f8 = _gammaincinv_functype(_gammaincinv_addr)


@numba.cfunc("f8(f8, f8)")
def _gammainc_inv(a, x):
    """scipy.special.cython_special.gammaincinv"""
    return _gammaincinv_f8(a, x)


@numba_jit("f8(f8)")
def _digamma(x):
    """
    Digamma (psi) function, from asymptotic series expansion.
    """
    if x <= 0.0:
        return _digamma(1 - x) - np.pi / np.tan(np.pi * x)
    if x <= 1e-5:
        return -np.euler_gamma - (1 / x)
    if x < 8.5:
        return _digamma(1 + x) - 1 / x
    xpm2 = 1 / x**2
    return (
        np.log(x)
        - 0.5 / x
        - 0.083333333333333333 * xpm2
        + 0.008333333333333333 * xpm2**2
        - 0.003968253968253968 * xpm2**3
        + 0.004166666666666667 * xpm2**4
        - 0.007575757575757576 * xpm2**5
        + 0.021092796092796094 * xpm2**6
    )


@numba_jit("f8(f8)")
def _trigamma(x):
    """
    Trigamma function, from asymptotic series expansion
    """
    if x <= 0.0:
        return -_trigamma(1 - x) + np.pi**2 / np.sin(np.pi * x) ** 2
    if x <= 1e-4:
        return 1 / x**2
    if x < 5:
        return _trigamma(1 + x) + 1 / x**2
    xpm1 = 1 / x
    xpm2 = 1 / x**2
    return xpm1 * (
        1.000000000000000000
        + 0.500000000000000000 * xpm1
        + 0.166666666666666667 * np.power(xpm2, 1)
        - 0.033333333333333333 * np.power(xpm2, 2)
        + 0.023809523809523808 * np.power(xpm2, 3)
        - 0.033333333333333333 * np.power(xpm2, 4)
        + 0.075757575757575756 * np.power(xpm2, 5)
        - 0.253113553113553102 * np.power(xpm2, 6)
        + 1.166666666666666741 * np.power(xpm2, 7)
    )


@numba_jit("f8(f8, f8)")
def _betaln(p, q):
    return lgamma(p) + lgamma(q) - lgamma(p + q)


@numba_jit("UniTuple(f8, 2)(f8, f8, f8)")
def _hyperu_laplace(a, b, x):
    """
    Approximate Tricomi's confluent hypergeometric function with real
    arguments, using Laplace's method with a calibration point.

    Also returns derivative wrt x.

    TODO: details
    """

    assert b >= a > 0.0
    assert x > 0.0

    t = b - x - 1
    u = 2 * a / (sqrt(t**2 + 4 * x * a) - t)
    r = (b - a - 1) * u**2 + a * (1 + u) ** 2
    g = (b - a) * log(1 + u) + a * (1 + log(u)) - x * u - log(a) * (a - 1 / 2)

    w = (b - 1) * u + a
    v = u * (1 + u)
    dr = w / (w * u + a * (1 + u))
    dg = (w - x * v + u) / v
    du = -u * v / (w - x * u + a)

    return g - log(r) / 2, (dg - dr) * du - u


@numba_jit("f8(f8, f8, f8)")
def _hyp1f1_laplace(a, b, x):
    """
    Approximate Kummer's confluent hypergeometric function with real arguments,
    using Laplace's method with a calibration point.

    TODO: details
    """

    assert b > a > 0.0

    if x == 0.0:
        return 0.0

    t = x - b
    u = 2 * a / (sqrt(t**2 + 4 * x * a) - t)
    r = u**2 * b / a + (1 - u) ** 2 * b / (b - a)
    g = (
        (b - a) * log(1 - u)
        + a * log(u)
        + b * log(b)
        - (b - a) * log(b - a)
        - a * log(a)
        + x * u
    )

    return g - log(r) / 2


@numba_jit("f8(f8, f8, f8, f8)")
def _hyp2f1_laplace(a, b, c, x):
    r"""
    Approximate a Gaussian hypergeometric function with real arguments,
    using Laplace's method with a calibration point.

    TODO: details
    """

    def _hyp2f1_unity(a, b, c, x):
        """
        Gauss hypergeometric function when `x` is near unity

        See limits in DLMF 15.4.

        TODO: this works in practice, but when (c - a - b) is close to zero the
        limits don't converge. A good reference is Buhring 2003 "Partial sums of
        hypergeometric series of unit argument"
        """
        assert np.isclose(x, 1.0)
        assert x < 1.0

        g = c - a - b

        if g < 0.0:
            return lgamma(c) + lgamma(-g) - lgamma(a) - lgamma(b) + g * log(1 - x)
        elif g > 0.0:
            # will only occur when a_i + a_j < 1
            return lgamma(c) + lgamma(g) - lgamma(c - a) - lgamma(c - b)
        else:
            # will only occur when a_i + a_j == 1
            return log(-log(1 - x)) + lgamma(a + b) - lgamma(a) - lgamma(b)

    # TODO: simplify, we can safely assume a,b > 0?
    assert c > 0.0
    assert a >= 0.0
    assert b >= 0.0
    assert c >= a
    assert x < 1.0

    if x == 0.0:
        return 0.0

    s = 0.0
    if x < 0.0:
        s = -b * log(1 - x)
        a = c - a
        x = x / (x - 1)

    if np.isclose(x, 1.0):
        return s + _hyp2f1_unity(a, b, c, x)

    t = x * (b - a) - c
    u = sqrt(t**2 - 4 * a * x * (c - b)) - t
    y = 2 * a / u

    assert 0 < y < 1, "Root on boundary"

    yy = y**2 / a
    my = (1 - y) ** 2 / (c - a)
    ymy = x**2 * b * yy * my / (1 - x * y) ** 2
    r = yy + my - ymy
    f = (
        (c - 1 / 2) * log(c)
        + a * (log(y) - log(a))
        + (c - a) * (log(1 - y) - log(c - a))
        - b * log(1 - x * y)
    )

    return f - log(r) / 2 + s


@numba_jit("f8(f8, f8)")
def _gammainc_der(p, x):
    """
    Derivative of lower incomplete gamma function with regards to `p`.

    Based on Shea B (1988) "Algorithm AS 239" Applied Statistics 37: 466-473

    Adapted from https://people.math.sc.edu/Burkardt/cpp_src/asa239/asa239.cpp
    """

    elimit = -88.0
    oflo = 1.0e37
    plimit = 1.0e3
    tol = 1.0e-14
    xbig = 1.0e8

    assert x >= 0.0
    assert p > 0.0

    if x == 0:
        value, grad = 0.0, 0.0
        return grad

    if x > xbig:
        value, grad = 1.0, 0.0
        return grad

    if p > plimit:  # gaussian approximation
        pn1 = 3 * sqrt(p) * (pow(x / p, 1 / 3) + 1 / (9 * p) - 1)
        grad = pn1 / (2 * p) - 1 / sqrt(p) * (pow(x / p, 1 / 3) + 1 / (3 * p))
        grad *= 1 / sqrt(2 * pi) * exp(-(pn1**2) / 2)
        value = (1 + erf(pn1 / sqrt(2))) / 2
        return grad

    if x <= 1 or x < p:  # series expansion
        arg = p * log(x) - x - lgamma(p + 1)
        value, grad = 1.0, 0.0
        c, dc = 1.0, 0.0
        a = p
        while True:
            a += 1.0
            dc = -c * x / a**2 + dc * x / a
            c *= x / a
            value += c
            grad += dc
            if c <= tol:
                break
        darg = exp(arg) * (log(x) - _digamma(p + 1))
        grad = grad * exp(arg) + value * darg
        arg += log(value)
        if arg >= elimit:
            value = exp(arg)
        else:
            grad = 0.0
            value = 0.0
        return grad
    else:  # continued fraction
        arg = p * log(x) - x - lgamma(p)
        a = 1.0 - p
        b = a + x + 1.0
        c = 0.0
        pn1, pn2, pn3, pn4 = 1.0, x, x + 1.0, x * b
        dpn1, dpn2, dpn3, dpn4 = 0.0, 0.0, 0.0, -x
        value, grad = pn3 / pn4, 0.0
        while True:
            a += 1.0
            b += 2.0
            c += 1.0
            an = a * c
            pn5 = b * pn3 - an * pn1
            pn6 = b * pn4 - an * pn2
            dpn5 = b * dpn3 - pn3 - an * dpn1 + c * pn1
            dpn6 = b * dpn4 - pn4 - an * dpn2 + c * pn2
            if pn6 != 0.0:
                rn = pn5 / pn6
                grad = (dpn5 * pn6 - pn5 * dpn6) / pn6**2
                if abs(value - rn) <= min(tol, tol * rn):
                    break
                value = rn
            pn1, pn2, pn3, pn4 = pn3, pn4, pn5, pn6
            dpn1, dpn2, dpn3, dpn4 = dpn3, dpn4, dpn5, dpn6
            if oflo <= abs(pn5):
                pn1 /= oflo
                pn2 /= oflo
                pn3 /= oflo
                pn4 /= oflo
                dpn1 /= oflo
                dpn2 /= oflo
                dpn3 /= oflo
                dpn4 /= oflo
        darg = exp(arg) * (log(x) - _digamma(p))
        grad = grad * exp(arg) + value * darg
        arg += log(value)
        if arg >= elimit:
            grad *= -1.0
            value = 1.0 - exp(arg)
        else:
            grad = 0.0
            value = 1.0
        return grad
