# MIT License
#
# Copyright (c) 2020 University of Oxford
# Copyright (c) 2021-2023 Tskit Developers
#
# Permission is hereby granted, free of charge, to any person obtaining a copy
# of this software and associated documentation files (the "Software"), to deal
# in the Software without restriction, including without limitation the rights
# to use, copy, modify, merge, publish, distribute, sublicense, and/or sell
# copies of the Software, and to permit persons to whom the Software is
# furnished to do so, subject to the following conditions:
#
# The above copyright notice and this permission notice shall be included in
# all copies or substantial portions of the Software.
#
# THE SOFTWARE IS PROVIDED "AS IS", WITHOUT WARRANTY OF ANY KIND, EXPRESS OR
# IMPLIED, INCLUDING BUT NOT LIMITED TO THE WARRANTIES OF MERCHANTABILITY,
# FITNESS FOR A PARTICULAR PURPOSE AND NONINFRINGEMENT. IN NO EVENT SHALL THE
# AUTHORS OR COPYRIGHT HOLDERS BE LIABLE FOR ANY CLAIM, DAMAGES OR OTHER
# LIABILITY, WHETHER IN AN ACTION OF CONTRACT, TORT OR OTHERWISE, ARISING FROM,
# OUT OF OR IN CONNECTION WITH THE SOFTWARE OR THE USE OR OTHER DEALINGS IN THE
# SOFTWARE.
"""
Routines and classes for creating priors and timeslices for use in tsdate
"""

import logging
import os
import tempfile
from collections import defaultdict, namedtuple

import numpy as np
import scipy.cluster
import scipy.special
import scipy.stats
import tskit
from tqdm.auto import tqdm

from . import cache, demography, node_time_class, provenance, util
from .accelerate import numba_jit

#: The default value for `approx_prior_size` (see :func:`~tsdate.build_prior_grid` and
#: :func:`~tsdate.build_parameter_grid`)
DEFAULT_APPROX_PRIOR_SIZE = 10000


class PriorParams(namedtuple("PriorParamsBase", "alpha, beta, mean, var")):
    @classmethod
    def field_index(cls, fieldname):
        return np.where([f == fieldname for f in cls._fields])[0][0]


def lognorm_approx(mean, var):
    """
    alpha is mean of underlying normal distribution
    beta is variance of underlying normal distribution
    """
    beta = np.log(var / (mean**2) + 1)
    alpha = np.log(mean) - 0.5 * beta
    return alpha, beta


def gamma_approx(mean, variance):
    """
    Returns alpha and beta of a gamma distribution for a given mean and variance
    """

    return (mean**2) / variance, mean / variance


@numba_jit("float64[:, :](float64[:, :])")
def _marginalize_over_ancestors(val):
    """
    Integrate an expectation over counts of extant ancestors. In a tree with
    "n" tips, the probability that there are "a" extent ancestors when a
    subtree of size "k" coalesces is hypergeometric-ish (Wuif & Donnelly 1998),
    and may be calculated recursively over increasing "a" and decreasing "k"
    (e.g. using recursive relationships for binomial coefficients).
    """
    n, N = val.shape  # number of tips, number of moments
    pr_a_ln = [np.nan, np.nan, 0.0]  # log Pr(a | k, n)
    out = np.zeros((n + 1, N))
    for k in range(n - 1, 1, -1):
        const = np.log(n - k) + np.log(k - 2) - np.log(k + 1)
        for a in range(2, n - k + 2):
            out[k] += np.exp(pr_a_ln[a]) * val[a]
            if k > 2:  # Pr(a | k, n) to Pr(a | k - 1, n)
                pr_a_ln[a] += const - np.log(n - a - k + 2)
        if k > 2:  # Pr(n - k + 1 | k - 1, n) to Pr(n - k + 2 | k - 1, n)
            pr_a_ln.append(pr_a_ln[-1] + np.log(n - k + 2) - np.log(k + 1) - const)
    out[n] = val[1]
    return out


@numba_jit("float64[:](uint64)")
def conditional_coalescent_variance(num_tips):
    """
    Variance of node age conditional on the number of descendant leaves, under
    the standard coalescent. Returns array indexed by number of descendant
    leaves.
    """

    coal_rates = np.array(
        [2 / (i * (i - 1)) if i > 1 else 0.0 for i in range(1, num_tips + 1)]
    )

    # hypoexponential mean and variance; e.g. conditional on the number of
    # extant ancestors when the node coalesces, the expected time of
    # coalescence is the sum of exponential RVs (Wuif and Donnelly 1998)
    mean = coal_rates.copy()
    variance = coal_rates.copy() ** 2
    for i in range(coal_rates.size - 2, 0, -1):
        mean[i] += mean[i + 1]
        variance[i] += variance[i + 1]

    # marginalize over number of ancestors using recursive algorithm
    moments = _marginalize_over_ancestors(np.stack((mean, variance + mean**2), 1))

    return moments[:, 1] - moments[:, 0] ** 2


class ConditionalCoalescentTimes:
    """
    Make and store conditional coalescent priors for different numbers of total samples
    """

    def __init__(
        self,
        precalc_approximation_n,
        prior_distr="lognorm",
        progress=False,
    ):
        """
        :param bool precalc_approximation_n: the size of tree used for
            approximate prior (larger numbers give a better approximation).
            If 0 or otherwise falsey, do not precalculate,
            and therefore do not allow approximate priors to be used
        """
        self.n_approx = precalc_approximation_n
        self.prior_store = {}
        self.progress = progress
        self.mean_column = PriorParams.field_index("mean")
        self.var_column = PriorParams.field_index("var")

        if precalc_approximation_n:
            # Create lookup table based on a large n that can be used for n > ~50
            filename = self.get_precalc_cache(precalc_approximation_n)
            self.approx_priors = None
            if os.path.isfile(filename):
                # Have already calculated and stored this
                self.approx_priors = self.read_precalculated_priors(
                    filename, precalc_approximation_n
                )
            if self.approx_priors is None:
                # Calc and store
                self.approx_priors = self.precalculate_priors_for_approximation(
                    precalc_approximation_n,
                )
        else:
            self.approx_priors = None

        self.prior_distr = prior_distr
        if prior_distr == "lognorm":
            self.func_approx = lognorm_approx
        elif prior_distr == "gamma":
            self.func_approx = gamma_approx
        else:
            raise ValueError("prior distribution must be lognorm or gamma")

    def __getitem__(self, total_tips):
        """
        Return a numpy array of conditional coalescent prior parameters plus mean and
        var (row N indicates the parameters for a N descendant tips) for a given
        number of total tips in the tree
        """
        return self.prior_store[total_tips]

    def __str__(self):
        s = [f"Conditional coalescent params under the {self.prior_distr} distibution:"]
        for t, priors in self.prior_store.items():
            indent = len(str(t))
            s.append(f"{t} total tips  ({list(PriorParams._fields)})")
            for i, prior_params in enumerate(priors):
                s.append(f" {i:>{indent}} descendants {prior_params}")
        return "\n".join(s)

    def prior_with_max_total_tips(self):
        return self.prior_store.get(max(self.prior_store.keys()))

    def add(self, total_tips, approximate=None):
        """
        Create and store a numpy array used to lookup prior params and mean + variance
        of ages for nodes with descendant sample tips range from 2..``total_tips``
        given that the total number of tips in the coalescent tree is
        ``total_tips``. The array is indexed by (num_tips / total_tips).
        """
        if total_tips in self.prior_store:
            return  # Already calculated for this number of total tips
        if approximate is not None:
            self.approximate = approximate
        else:
            if total_tips >= DEFAULT_APPROX_PRIOR_SIZE:
                self.approximate = True
            else:
                self.approximate = False

        if self.approximate and self.approx_priors is None:
            raise RuntimeError(
                "You cannot add an approximate prior unless you initialize"
                " the ConditionalCoalescentTimes object with a non-zero number"
            )

        if not self.approximate and total_tips >= DEFAULT_APPROX_PRIOR_SIZE:
            logging.warning(
                "Calculating exact priors for more than "
                f"{DEFAULT_APPROX_PRIOR_SIZE} tips. Consider "
                "setting `approximate=True` for a faster calculation."
            )

        # alpha/beta and mean/var are simply transformations of one another
        # for the gamma, mean = alpha / beta and var = alpha / (beta **2)
        # for the lognormal, see lognorm_approx for definition
        # mean and var are used in generating the mixture prior
        # alpha and beta are used for generating prior probabilities
        # they are stored separately to obviate need to move between them
        # We should only use prior[2] upwards
        priors = np.full(
            (total_tips + 1, len(PriorParams._fields)),
            np.nan,
            dtype=node_time_class.FLOAT_DTYPE,
        )

        if self.approximate:
            get_tau_var = self.tau_var_lookup
        else:
            get_tau_var = self.tau_var_exact

        all_tips = np.arange(2, total_tips + 1)
        variances = get_tau_var(total_tips, all_tips)
        # priors.loc[1] is distribution of times of a "coalescence node" ending
        # in a single sample - equivalent to the time of the sample itself, so
        # it should have var = 0 and mean = sample.time
        if self.prior_distr == "lognorm":
            # For a lognormal, alpha = -inf and beta = 0 sets mean == var == 0
            priors[1] = PriorParams(alpha=-np.inf, beta=0, mean=0, var=0)
        elif self.prior_distr == "gamma":
            # For a gamma, alpha = 0 and beta = 1 sets mean (a/b) == var (a / b^2) == 0
            priors[1] = PriorParams(alpha=0, beta=1, mean=0, var=0)
        for var, tips in zip(variances, all_tips):
            # NB: it should be possible to vectorize this in numpy
            expectation = self.tau_expect(tips, total_tips)
            alpha, beta = self.func_approx(expectation, var)
            priors[tips] = PriorParams(alpha=alpha, beta=beta, mean=expectation, var=var)
        self.prior_store[total_tips] = priors

    def precalculate_priors_for_approximation(self, precalc_approximation_n):
        n = precalc_approximation_n
        logging.warning(
            "Initialising your tsdate installation by creating a user cache of "
            f"conditional coalescent prior values for {n} tips"
        )
        logging.info(
            f"Creating prior lookup table for a total tree of n={n} tips"
            f" in `{self.get_precalc_cache(n)}`, this may take some time for large n"
        )
        # The first value should be zero tips, we don't want the 1 tip value
        prior_lookup_table = np.zeros((n, 2))
        all_tips = np.arange(2, n + 1)
        prior_lookup_table[1:, 0] = all_tips / n
        prior_lookup_table[1:, 1] = conditional_coalescent_variance(n + 1)[all_tips]
        # Write to a temporary file and rename, so that a crash or a concurrent writer
        # can never leave a partial table under the final name
        filename = self.get_precalc_cache(n)
        fd, tmp_filename = tempfile.mkstemp(
            dir=os.path.dirname(filename), prefix=os.path.basename(filename), suffix=".tmp"
        )
        try:
            with os.fdopen(fd, "w") as f:
                np.savetxt(f, prior_lookup_table)
            os.replace(tmp_filename, filename)
        except BaseException:
            if os.path.exists(tmp_filename):
                os.remove(tmp_filename)
            raise
        return prior_lookup_table

    @staticmethod
    def read_precalculated_priors(filename, n):
        # Return the cached lookup table, or None if the file does not hold a
        # complete table for n tips (in which case it should be recalculated)
        try:
            with open(filename) as f:
                text = f.read()
            if not text.endswith("\n"):
                return None  # cut short, possibly in the middle of the last number
            table = np.loadtxt(filename, ndmin=2)
        except (OSError, ValueError):
            return None
        if table.shape != (n, 2) or not np.all(np.isfinite(table)):
            return None
        return table

    def clear_precalculated_priors(self):
        if os.path.isfile(self.get_precalc_cache(self.n_approx)):
            os.remove(self.get_precalc_cache(self.n_approx))
        else:
            logging.debug(
                f"Precalculated priors in `{self.get_precalc_cache(self.n_approx)}`"
                "not yet created, so cannot be cleared"
            )

    @staticmethod
    def get_precalc_cache(precalc_approximation_n):
        cache_dir = cache.get_cache_dir()
        return os.path.join(
            cache_dir,
            f"prior_{precalc_approximation_n}df_{provenance.__version__}.txt",
        )

    @staticmethod
    def tau_expect(i, n):
        if i == n:
            return 2 * (1 - (1 / n))
        else:
            return (i - 1) / n

    @staticmethod
    def tau_var_mrca(n):
        value = np.arange(2, n + 1)
        var = np.sum(1 / ((value**2) * ((value - 1) ** 2)))
        return np.abs(4 * var)

    # The following are not static as they may need to access self.approx_priors for this
    # instance
    def tau_var_lookup(self, total_tips, all_tips):
        """
        Lookup tau_var if approximate is True
        """
        interpolated_priors = np.interp(
            all_tips / total_tips, self.approx_priors[:, 0], self.approx_priors[:, 1]
        )

        # insertion_point = np.searchsorted(all_tips / self.total_tips,
        #    self.approx_priors[:, 0])
        # interpolated_priors = self.approx_priors[insertion_point, 1]

        # The final MRCA we calculate exactly
        interpolated_priors[all_tips == total_tips] = self.tau_var_mrca(total_tips)
        return interpolated_priors

    def tau_var_exact(self, total_tips, all_tips):
        return conditional_coalescent_variance(total_tips)[all_tips]

    def mixture_expect_and_var(self, mixture, weight_by_log_span=False):
        """
        Return the expectation and variance of a coalescent mixture
        mixture is a dict of numpy recarrays of the form
        {N: {descendant_tips: [N_tips], span: [N_spans]}}

        weight_by_log_span is a boolean that determines whether the
        weights are taken as the log of the span of the node
        (plus one to avoid log(0). Testing indicates that
        this gives a slightly better fit to the observed values
        under the coalescent with recombination.

        Note, however, that both the expected mean and (especially)
        the expected variance are substantially affected by the
        *total length* of the span rather than just the relative
        weights, which is not taken into account here

        """
        expectation = 0
        first = secnd = 0
        weight_sum = 0
        for N, tip_dict in mixture.items():
            # assert 1 not in tip_dict.descendant_tips
            mean_time = self[N][tip_dict["descendant_tips"], self.mean_column]
            var_time = self[N][tip_dict["descendant_tips"], self.var_column]
            # Add one to avoid log(0)
            w = np.log(tip_dict["span"] + 1) if weight_by_log_span else tip_dict["span"]
            # Mixture expectation
            expectation += np.sum(mean_time * w)
            # Mixture variance
            first += np.sum(var_time * w)
            secnd += np.sum(mean_time**2 * w)
            weight_sum += np.sum(w)
        mean = expectation / weight_sum
        var = (first + secnd) / weight_sum - (mean**2)
        return mean, var

    def get_mixture_prior_params(self, spans_by_samples):
        """
        Given an object that can be queried for spans by num descendant tips
        for a node, and a set of conditional coalescent priors for different
        numbers of sample tips under a node, return distribution parameters
        (shape and scale) that best fit the distribution for that node.

        :param .SpansBySamples spans_by_samples: An instance of the
            :class:`SpansBySamples` class that can be used to obtain
            spans for each node to use as weights.
        :return: A numpy array whose rows corresponds to the node id in
            ``spans_by_samples.nodes_to_date`` and whose columns are the parameter
            columns in PriorParams (i.e. not including the mean and variance)
            This can be used to approximate the probabilities of times for that
            node by matching against an appropriate distribution (e.g. gamma or lognorm)
        :rtype:  numpy.ndarray
        """

        param_cols = np.array(
            [i for i, f in enumerate(PriorParams._fields) if f not in ("mean", "var")]
        )

        seen_mixtures = {}
        # allocate space for params for all nodes, even though we only use nodes_to_date
        num_nodes, num_params = spans_by_samples.ts.num_nodes, len(param_cols)
        priors = np.full(
            (num_nodes + 1, num_params), np.nan, dtype=node_time_class.FLOAT_DTYPE
        )
        for node in tqdm(
            spans_by_samples.nodes_to_date,
            total=len(spans_by_samples.nodes_to_date),
            disable=not self.progress,
            desc="Find Mixture Priors",
        ):
            mixture = spans_by_samples.get_spans(node)
            if len(mixture) == 1:
                # The norm: this node spans trees that all have the same set of samples
                total_tips, span_arr = next(iter(mixture.items()))
                if span_arr.shape[0] == 1:
                    d_tips = span_arr["descendant_tips"][0]
                    # This node is not a mixture - can use the standard coalescent prior
                    priors[node] = self[total_tips][d_tips, param_cols]
                elif span_arr.shape[0] <= 5:
                    # Making mixture priors is a little expensive. We can help by caching
                    # in those cases where we have only a few mixtures
                    # (arbitrarily set here as <= 5 mixtures)
                    mixture_hash = (total_tips, span_arr.tobytes())
                    if mixture_hash not in seen_mixtures:
                        priors[node] = seen_mixtures[mixture_hash] = self.func_approx(
                            *self.mixture_expect_and_var(mixture)
                        )
                    else:
                        priors[node] = seen_mixtures[mixture_hash]
                else:
                    # a large number of mixtures in this node - don't bother caching
                    priors[node] = self.func_approx(*self.mixture_expect_and_var(mixture))
            else:
                # The node spans trees with multiple total tip numbers,
                # don't use the cache
                priors[node] = self.func_approx(*self.mixture_expect_and_var(mixture))
        # Check that references to the tskit.NULL'th node return NaNs, as we will later
        # be indexing into the prior array using a node mapping which could have NULLs
        assert np.all(np.isnan(priors[tskit.NULL, :]))
        return priors


class SpansBySamples:
    """
    A class to efficiently calculate the genomic spans covered by each
    non-sample node, broken down by the number of samples that descend
    directly from that node. This is used to calculate the conditional
    coalescent prior. The main method is :meth:`get_spans`, which
    returns the spans for each node, broken down by the number of
    samples under different regions.

    .. note:: This assumes that all edges connect to the same tree - i.e.
        there is only a single topology present at each point in the
        genome. Equivalently, it assumes that only one of the roots in
        a tree has descending edges (all other roots represent isolated
        "missing data" nodes.

    :ivar tree_sequence: A reference to the tree sequence that was used to
        generate the spans
    :vartype tree_sequence: tskit.TreeSequence
    :ivar total_fixed_at_0_counts: A numpy array of unique numbers which list,
        in no particular order, the various sample counts among the trees
        in this tree sequence. In the simplest case of a tree sequence with
        no missing data, all trees have the same count of numbers of samples,
        and there will be only a single number in this array, equal to
        :attr:`.tree_sequence.num_samples`. However, where samples contain
        :ref:`missing data <sec_data_model_missing_data>`,
        some trees will contain fewer sample nodes, so this array will also
        contain additional numbers, all of which will be less than
        :attr:`.tree_sequence.num_samples`.
    :vartype total_fixed_at_0_counts: numpy.ndarray (dtype=np.uint64)
    :ivar node_spans: A numpy array of size :attr:`.tree_sequence.num_nodes`
        containing the genomic span covered by each node (including sample nodes)
    :vartype node_spans: numpy.ndarray (dtype=np.uint64)
    :ivar nodes_to_date: An numpy array containing all the node ids in the tree
        sequence that we wish to date. These are usually all the non-sample nodes,
        and also provide the node numbers that are valid parameters for the
        :meth:`get_spans` method.
    :vartype nodes_to_date: numpy.ndarray (dtype=np.uint32)
    """

    def __init__(self, tree_sequence, *, progress=False, allow_unary=False):
        """
        :param TreeSequence tree_sequence: The input :class:`tskit.TreeSequence`.
        """

        self.ts = tree_sequence
        self.sample_node_set = set(self.ts.samples())
        if np.any(self.ts.nodes_time[self.ts.samples()] != 0):
            raise ValueError(
                "The SpansBySamples class needs a tree seq with all samples at time 0"
            )
        self.progress = progress

        # We will store the spans in here, and normalize them at the end
        self._spans = defaultdict(
            lambda: defaultdict(lambda: defaultdict(node_time_class.FLOAT_DTYPE))
        )

        if not allow_unary:
            if has_locally_unary_nodes(self.ts):
                raise ValueError(
                    "The input tree sequence has unary nodes: tsdate currently requires "
                    "that these are removed using `simplify(keep_unary=False)`"
                )

        with tqdm(total=3, desc="TipCount", disable=not self.progress) as progressbar:
            (
                node_spans,
                trees_with_undated,
                total_fixed_at_0_per_tree,
            ) = self.first_pass(allow_unary=allow_unary)
            progressbar.update()

            # A set of the total_num_tips in different trees (used for missing data)
            self.total_fixed_at_0_counts = set(np.unique(total_fixed_at_0_per_tree))
            # The complete spans for each node, used e.g. for normalizing
            self.node_spans = node_spans

            # Check for remaining undated nodes (all unary ones)
            if self.nodes_remain_to_date():
                self.second_pass(trees_with_undated, total_fixed_at_0_per_tree)
            progressbar.update()
            if self.nodes_remain_to_date():
                self.third_pass(trees_with_undated, total_fixed_at_0_per_tree)
            progressbar.update()
        self.finalize()
        progressbar.close()

    def __repr__(self):
        ret = []
        for n in range(self.ts.num_nodes):
            items = []
            for tot_tips, spans in self.get_spans(n).items():
                items.append(
                    "[{}] / {} ".format(
                        ", ".join([f"{a}: {b}" for a, b in spans]), tot_tips
                    )
                )
            ret.append(f"Node {n: >3}: " + "{" + ", ".join(items) + "}")
        return "\n".join(ret)

    def nodes_remaining_to_date(self):
        """
        Return a set of the node IDs that we want to date, but which haven't had a
        set of spans allocated which could be used to date the node.
        """
        return {
            n
            for n in range(self.ts.num_nodes)
            if not (n in self._spans or n in self.sample_node_set)
        }

    def nodes_remain_to_date(self):
        """
        A more efficient version of nodes_remaining_to_date() that simply tells us if
        there are any more nodes that remain to date, but does not identify which ones
        """
        if self.ts.num_nodes - len(self.sample_node_set) - len(self._spans) != 0:
            # we should always have equal or fewer results than nodes to date
            assert len(self._spans) < self.ts.num_nodes - len(self.sample_node_set)
            return True
        return False

    def first_pass(self, allow_unary=False):
        """
        Returns a tuple of the span that each node covers, a list of the tree indices of
        trees that have undated nodes (used to quickly revist these trees later), and the
        number of valid samples (tips) in each tree.
        """
        logging.debug("Assigning priors to most non-fixed nodes")
        # The following 3 variables will be returned by this function
        node_spans = np.zeros(self.ts.num_nodes)
        trees_with_undated = []  # Used to revisit trees with nodes that need dating
        n_tips_per_tree = np.full(self.ts.num_trees, tskit.NULL, dtype=np.int64)

        # Some useful local tracking variables
        num_children = np.full(self.ts.num_nodes, 0, dtype=np.int32)
        # Store the last recorded genome position for this node.
        # If set to np.nan, this indicates that we are not currently tracking this node
        stored_pos = np.full(self.ts.num_nodes, np.nan)

        # used to emit a warning if necessary
        self.has_unary = False

        def save_to_spans(prev_tree, node, num_fixed_at_0_treenodes):
            """
            A convenience function to save accumulated tracked node data at the current
            breakpoint. If this is a non-fixed node which needs dating, we save the
            span by # descendant tips into self._spans. If it is a sample node, we
            return True and do not save into self._spans. If the node was skipped because
            it is a unary node at the top of the tree, return None.
            """
            if np.isnan(stored_pos[node]):
                # Don't save ones that we aren't tracking
                return False
            n_fixed_at_0 = prev_tree.num_tracked_samples(node)
            if n_fixed_at_0 > 0:
                coverage = prev_tree.interval[1] - stored_pos[node]
                node_spans[node] += coverage
            else:
                coverage = 0
                raise ValueError(
                    f"Node {node} is dangling (no descendant samples) at pos "
                    f"{stored_pos[node]}: this node will have no weight in "
                    "this region. Run `simplify(keep_unary=False)` before dating "
                    "this tree sequence"
                )
            if node in self.sample_node_set:
                return True
            if prev_tree.num_children(node) > 1:
                # This is a coalescent node
                self._spans[node][num_fixed_at_0_treenodes][n_fixed_at_0] += coverage
            else:
                if not self.has_unary:
                    self.has_unary = True
                # Treat unary nodes differently: mixture of coalescent nodes above+below
                unary_nodes_above = 0
                top_node = prev_tree.parent(node)
                try:  # Find coalescent node above
                    while prev_tree.num_children(top_node) == 1:
                        unary_nodes_above += 1
                        top_node = prev_tree.parent(top_node)
                except ValueError:  # Happens if we have hit the root
                    assert top_node == tskit.NULL
                    logging.debug(
                        f"Unary node `{node}` exists above highest coalescence in "
                        "tree {prev_tree.index}. Skipping for now"
                    )
                    return None
                # for unary nodes, a proportion of the span is allocated
                # according to the coalescent node above and the coalescent
                # node below. If there are extra unary nodes above or below
                # weight = 1/2 from parent. If one unary node above, 1/4 from parent, etc
                wt = 2 ** (unary_nodes_above + 1)  # 1/wt from abpve
                iwt = wt / (wt - 1.0)  # 1/iwt from below
                top_node_tips = prev_tree.num_tracked_samples(top_node)
                self._spans[node][num_fixed_at_0_treenodes][top_node_tips] += (
                    coverage / wt
                )
                # The rest from the node below
                #  NB: coalescent node below should have same num_tracked_samples as this
                # TODO - assumes no internal unary sample nodes at 0 (impossible)
                self._spans[node][num_fixed_at_0_treenodes][n_fixed_at_0] += (
                    coverage / iwt
                )
            return True

        # We iterate over edge_diffs to calculate, as nodes change their descendant tips,
        # the genomic coverage for each node partitioned into descendant tip numbers
        edge_diff_iter = self.ts.edge_diffs()
        # There are 2 possible algorithms - the simplest is to find all the affected
        # nodes in the new tree, and use the constant-time "Tree.num_tracked_samples()"
        # to recalculate the number of samples under each affected tip.
        # The more complex one keeps track of the samples added and subtracted
        # each time, basically implementing the num_samples() method itself

        # Initialise with first tree
        for node in self.ts.first().nodes():
            stored_pos[node] = 0
        # Consume the first edge diff: normally this is when most edges come in
        num_fixed_at_0_treenodes = 0
        _, _, e_in = next(edge_diff_iter)
        for e in e_in:
            if e.child in self.sample_node_set:
                num_fixed_at_0_treenodes += 1
            if e.parent != tskit.NULL:
                num_children[e.parent] += 1
        n_tips_per_tree[0] = num_fixed_at_0_treenodes

        # Iterate over trees and remaining edge diffs
        focal_tips = list(self.sample_node_set)
        for prev_tree in tqdm(
            self.ts.trees(tracked_samples=focal_tips, root_threshold=2),
            desc="Find Node Spans",
            total=self.ts.num_trees,
            disable=not self.progress,
        ):
            if prev_tree.has_multiple_roots:
                raise ValueError(f"Tree {prev_tree.index} has multiple roots")
            try:
                # Get the edge diffs from the prev tree to the new tree
                _, e_out, e_in = next(edge_diff_iter)
            except StopIteration:
                # Last tree, save all the remaining nodes
                for node in prev_tree.nodes():
                    if save_to_spans(prev_tree, node, num_fixed_at_0_treenodes) is None:
                        trees_with_undated.append(prev_tree.index)
                assert prev_tree.index == self.ts.num_trees - 1
                continue

            fixed_at_0_nodes_out = set()
            fixed_at_0_nodes_in = set()
            disappearing_nodes = set()
            changed_nodes = set()
            for e in e_out:
                # No need to add the parents, as we'll traverse up the previous tree
                # from these points and be guaranteed to hit them too.
                changed_nodes.add(e.child)
                if e.parent != tskit.NULL:
                    num_children[e.parent] -= 1
                    if num_children[e.parent] == 0:
                        disappearing_nodes.add(e.parent)
            for e in e_out:
                # Since a node only has one parent edge, any edge children going out
                # will be lost, unless they are reintroduced in the edges_in, or are
                # the root node
                if num_children[e.child] == 0:
                    disappearing_nodes.add(e.child)
                    if e.child in self.sample_node_set:  # all samples are at 0
                        fixed_at_0_nodes_out.add(e.child)

            for e in e_in:
                # Edge children are always new
                if e.child in self.sample_node_set:
                    fixed_at_0_nodes_in.add(e.child)
                # This may change in the upcoming tree
                changed_nodes.add(e.child)
                disappearing_nodes.discard(e.child)
                if e.parent != tskit.NULL:
                    # parent nodes might be added in the next tree, and we won't
                    # necessarily traverse up to them in the prev tree, so they need
                    # to be added to the possibly changing nodes
                    changed_nodes.add(e.parent)
                    # If a parent or child come in, they definitely won't be disappearing
                    num_children[e.parent] += 1
                    disappearing_nodes.discard(e.parent)
            # Add unary nodes below the altered ones, as their result is calculated
            # from the coalescent node above
            unary_descendants = set()
            for node in changed_nodes:
                children = prev_tree.children(node)
                for child in children:
                    while True:
                        children = prev_tree.children(child)
                        if len(children) != 1:
                            break
                        unary_descendants.add(child)
                        child = children[0]

            # find all the nodes in the tree that might have changed their number
            # of descendants, and reset. This might include nodes that are not in
            # the prev tree, but will be in the next one (so we still need to
            # set the stored position). Also track visited_nodes so we don't repeat
            visited_nodes = set()
            for node in changed_nodes | unary_descendants:
                while node != tskit.NULL:  # if root or node not in tree
                    if node in visited_nodes:
                        break
                    visited_nodes.add(node)
                    # Node is in tree
                    if save_to_spans(prev_tree, node, num_fixed_at_0_treenodes) is None:
                        trees_with_undated.append(prev_tree.index)
                    if node in disappearing_nodes:
                        # Not tracking this in the future
                        stored_pos[node] = np.nan
                    else:
                        stored_pos[node] = prev_tree.interval[1]
                    node = prev_tree.parent(node)

            # If total number of samples has changed: we need to save
            #  everything so far & reset all starting positions
            if len(fixed_at_0_nodes_in) != len(fixed_at_0_nodes_out):
                for node in prev_tree.nodes():
                    if node in visited_nodes:
                        # We have already saved these - no need to again
                        continue
                    if save_to_spans(prev_tree, node, num_fixed_at_0_treenodes) is None:
                        trees_with_undated.append(prev_tree.index)
                    if node in disappearing_nodes:
                        # Not tracking this in the future
                        stored_pos[node] = np.nan
                    else:
                        stored_pos[node] = prev_tree.interval[1]
                num_fixed_at_0_treenodes += len(fixed_at_0_nodes_in) - len(
                    fixed_at_0_nodes_out
                )
            n_tips_per_tree[prev_tree.index + 1] = num_fixed_at_0_treenodes

        if self.has_unary:
            if allow_unary:
                logging.warning(
                    "The input tree sequence has unary nodes: tsdate may give "
                    "poor results. Remove them using `simplify(keep_unary=False)`"
                )
            else:
                raise ValueError(
                    "The input tree sequence has unary nodes: tsdate currently "
                    "requires these to be removed using `simplify(keep_unary=False)`"
                )
        return node_spans, trees_with_undated, n_tips_per_tree

    def second_pass(self, trees_with_undated, n_tips_per_tree):
        """
        Check for nodes which have unassigned prior params after the first
        pass. We should see if can we assign params for these node priors using
        now-parameterized nodes. This requires another pass through the
        tree sequence. If there is no non-parameterized node above, then
        we can simply assign this the coalescent maximum
        """
        logging.debug(
            "Assigning priors to skipped unary nodes, via linked nodes with new priors"
        )
        unassigned_nodes = self.nodes_remaining_to_date()
        # Simple algorithm does this treewise
        tree_iter = self.ts.trees()
        tree = next(tree_iter)
        for tree_id in tqdm(
            trees_with_undated, desc="2nd pass", disable=not self.progress
        ):
            while tree.index != tree_id:
                tree = next(tree_iter)
            for node in unassigned_nodes:
                if tree.parent(node) == tskit.NULL:
                    continue
                    # node is either the root or (more likely) not in
                    # this tree
                assert tree.num_samples(node) > 0  # No dangling nodes allowed
                assert tree.num_children(node) == 1
                n = node
                done = False
                while not done:
                    n = tree.parent(n)
                    if n == tskit.NULL or n in self._spans:
                        done = True
                if n == tskit.NULL:
                    continue
                else:
                    logging.debug(
                        f"Assigning prior to unary node {node}: connected to "
                        f"node {n} which has a prior in tree {tree_id}"
                    )
                    for n_tips, spans in self._spans[n].items():
                        for k, v in spans.items():
                            if k <= 0:
                                raise ValueError(f"Node {n} has no fixed descendants")
                            local_weight = v / self.node_spans[n]
                            self._spans[node][n_tips][k] += tree.span * local_weight / 2
                    assert tree.num_children(node) == 1
                    total_tips = n_tips_per_tree[tree_id]
                    desc_tips = tree.num_samples(node)
                    self._spans[node][total_tips][desc_tips] += tree.span / 2

    def third_pass(self, trees_with_undated, n_tips_per_tree):
        """
        We STILL have some missing priors.
        These must be unconnected to higher
        nodes in the tree, so we can simply give them the max depth
        """
        logging.debug(
            "Assigning priors to remaining (unconnected) unary nodes using max depth"
        )
        max_samples = self.ts.num_samples
        unassigned_nodes = self.nodes_remaining_to_date()
        tree_iter = self.ts.trees()
        tree = next(tree_iter)
        for tree_id in tqdm(
            trees_with_undated, desc="3rd pass", disable=not self.progress
        ):
            while tree.index != tree_id:
                tree = next(tree_iter)
            for node in unassigned_nodes:
                if tree.is_internal(node):
                    assert tree.num_children(node) == 1
                    total_tips = n_tips_per_tree[tree_id]
                    # above, we set the maximum
                    self._spans[node][max_samples][max_samples] += tree.span / 2
                    # below, we do as before
                    desc_tips = tree.num_samples(node)
                    self._spans[node][total_tips][desc_tips] += tree.span / 2

    def finalize(self):
        """
        normalize the spans in self._spans by the values in self.node_spans,
        and overwrite the results (as we don't need them any more), providing a
        shortcut to by setting node_span_data. Also provide the
        nodes_to_date value.
        """
        assert not hasattr(self, "node_span_data"), "Already finalized"
        spans_dtype = np.dtype(
            {
                "names": ("descendant_tips", "span"),
                "formats": (np.uint64, node_time_class.FLOAT_DTYPE),
            }
        )

        if self.nodes_remain_to_date():
            raise ValueError(
                "When finalising node spans, found the following nodes not in "
                "any tree; you must simplify your tree sequence first:"
                f"{self.nodes_remaining_to_date()}"
            )

        for node, spans_by_total_tips in self._spans.items():
            self._spans[node] = {}  # Overwrite, so we don't leave the old data around
            for num_samples, spans in sorted(spans_by_total_tips.items()):
                wt = np.array([(k, v) for k, v in spans.items()], dtype=spans_dtype)
                self._spans[node][num_samples] = wt
        # Assign into the instance, for further reference
        self.node_span_data = self._spans
        self.nodes_to_date = np.array(list(self._spans.keys()), dtype=np.uint64)

    def get_spans(self, node):
        """
        Access the main calculated results from this class, returning spans
        for a node contained within a dict of dicts. Spans for each node
        are divided into regions with different numbers of sample descendants,
        and sum to the total span over which that node is present
        in trees along the tree sequence. They are used to construct
        the mixed conditional coalescent prior. For each coalescent node, the
        returned spans are categorised firstly by the total number of sample
        nodes (or "tips") ( :math:`T` ) in the tree(s) covered by this node,
        then by the number of descendant samples, :math:`k`. In other words,
        ``spans(u)[T][k]`` gives the fraction of the genome over which node
        ``u`` is present in a tree of ``T`` total samples with exactly ``k``
        samples descending from the node. Although ``k`` may take any value
        from 2 up to ``T``, the values are likely to be very sparse, and many
        values of both ``T`` and ``k`` are likely to be missing from the
        returned spans. For example, if there are no trees in which the node
        ``u`` has exactly 2 descendant samples, then none of the inner
        dictionaries returned by this method will have a key of 2.

        Non-coalescent (unary) regions of nodes are treated differently. A unary
        region of a node returns a 50:50  mix of the coalescent node above and
        the coalescent node below it.

        :param int node: The node for which we want spans.
        :return: A dictionary, whose keys ( :math:`n_t` ) are the total number of
            samples in the trees in a tree sequence, and whose values are
            themselves a dictionary where key :math:`k` gives the genomic
            span for :math:`k` descendant samples, as a floating point number.
            For any node ``u``, the normalization means that all the spans should
            sum to ``self.node_spans[u]``.
        :rtype: dict(int, numpy.ndarray)'
        """
        return self.node_span_data[node]

    def lookup_span(self, node, total_tips, descendant_tips):
        # Only used for testing
        which = self.get_spans(node)[total_tips]["descendant_tips"] == descendant_tips
        return self.get_spans(node)[total_tips]["span"][which]


def create_timepoints(base_priors, n_points=21):
    """
    Create the time points by finding union of the quantiles of the distributions.
    For a node with k descendants we have approximate distributions (either lognorm or
    gamma): a reasonable way to create timepoints is to take all the distributions,
    quantile them up, and then take the union of the quantiles, thinning it to make
    each timepoint no more than 0.05 of a quantile apart. This function does this in an
    iterative way.
    """
    # Assume that the best set of priors to use are those for n descendant tips out of
    # max total tips, where n = 2 .. max_total_tips. This is only relevant when we have
    # missing samples, otherwise we only have one set of priors anyway
    prior_params = base_priors.prior_with_max_total_tips()
    # Percentages - current day samples should be at time 0, so we omit this
    # We can't include the top end point, as this leads to NaNs
    percentiles = np.linspace(0, 1, n_points + 1)[1:-1]
    # percentiles = np.append(percentiles, 0.999999)
    param_cols = np.where([f not in ("mean", "var") for f in PriorParams._fields])[0]
    """
    get the set of times from gamma percent point function at the given
    percentiles specifies the value of the RV such that the prob of the var
    being less than or equal to that value equals the given probability
    """
    if base_priors.prior_distr == "lognorm":

        def lognorm_ppf(percentiles, alpha, beta):
            return scipy.stats.lognorm.ppf(
                percentiles, s=np.sqrt(beta), scale=np.exp(alpha)
            )

        ppf = lognorm_ppf

        def lognorm_cdf(t_set, alpha, beta):
            return scipy.stats.lognorm.cdf(t_set, s=np.sqrt(beta), scale=np.exp(alpha))

        cdf = lognorm_cdf

    elif base_priors.prior_distr == "gamma":

        def gamma_ppf(percentiles, alpha, beta):
            return scipy.stats.gamma.ppf(percentiles, alpha, scale=1 / beta)

        ppf = gamma_ppf

        def gamma_cdf(t_set, alpha, beta):
            return scipy.stats.gamma.cdf(t_set, alpha, scale=1 / beta)

        cdf = gamma_cdf
    else:
        raise ValueError("prior distribution must be lognorm or gamma")

    t_set = ppf(percentiles, *prior_params[2, param_cols])
    max_tips = len(prior_params)  # Num rows in prior_params == prior_params.shape[0]
    # progressively add timepoints
    max_sep = 1.0 / (n_points - 1)
    if max_tips > 2:
        for i in np.arange(3, max_tips):
            # cdf percentiles of existing timepoints
            proj = cdf(t_set, *prior_params[i, param_cols])
            """
            thin the timepoints, only add additional quantiles if they're more than
            a certain max_sep fraction (e.g. 0.05) from another quantile
            """
            tmp = np.asarray([min(abs(val - proj)) for val in percentiles])
            wd = np.where(tmp > max_sep)

            if len(wd[0]) > 0:
                t_set = np.concatenate(
                    [t_set, ppf(percentiles[wd], *prior_params[i, param_cols])]
                )

    t_set = sorted(t_set)
    return np.insert(t_set, 0, 0)


def fill_priors(
    node_parameters, timepoints, ts, population_size, *, prior_distr, progress=False
):
    """
    Take the alpha and beta values from the node_parameters array, which contains
    one row for each node in the TS (including fixed nodes)
    and fill out a NodeTimeValues object with the prior values from the
    gamma or lognormal distribution with those parameters.

    The `population_size` can be a scalar, or an object with a `.to_natural_timescale`
    method used to map from coalescent to generational timescale.

    TODO - what if there is an internal fixed node? Should we truncate

    TODO - support times scaled by generation length?
    """
    if prior_distr == "lognorm":
        cdf_func = scipy.stats.lognorm.cdf
        main_param = np.sqrt(node_parameters[:, PriorParams.field_index("beta")])
        scale_param = np.exp(node_parameters[:, PriorParams.field_index("alpha")])
    elif prior_distr == "gamma":
        cdf_func = scipy.stats.gamma.cdf
        main_param = node_parameters[:, PriorParams.field_index("alpha")]
        scale_param = 1 / node_parameters[:, PriorParams.field_index("beta")]
    else:
        raise ValueError("prior distribution must be lognorm or gamma")

    datable_nodes = np.ones(ts.num_nodes, dtype=bool)
    datable_nodes[ts.samples()] = False
    datable_nodes = np.where(datable_nodes)[0]

    # convert timepoints to generational timescale
    prior_times = node_time_class.NodeTimeValues(
        ts.num_nodes,
        datable_nodes[np.argsort(ts.nodes_time[datable_nodes])].astype(np.int32),
        population_size.to_natural_timescale(timepoints),
    )

    # TO DO - this can probably be done in an single numpy step rather than a for loop
    for node in tqdm(
        datable_nodes, desc="Assign Prior to Each Node", disable=not progress
    ):
        # NB: prior CDF is evaluated on coalescent timescale
        with np.errstate(divide="ignore", invalid="ignore"):
            prior_node = cdf_func(timepoints, main_param[node], scale=scale_param[node])
        # force age to be less than max value
        prior_node = np.divide(prior_node, np.max(prior_node))
        # prior in each epoch
        prior_times[node] = np.concatenate([np.array([0]), np.diff(prior_node)])
    # standardize so max value is 1
    prior_times.standardize()
    return prior_times


class MixturePrior:
    """
    Maps ConditionalCoalescentPrior onto nodes in a tree sequence and creates
    time-discretised priors
    """

    def __init__(
        self,
        tree_sequence,
        approximate_priors=False,
        approx_prior_size=None,
        prior_distribution="lognorm",
        allow_unary=False,
        progress=False,
    ):
        if approximate_priors:
            if not approx_prior_size:
                approx_prior_size = DEFAULT_APPROX_PRIOR_SIZE
        else:
            if approx_prior_size is not None:
                raise ValueError(
                    "Can't set approx_prior_size if approximate_prior is False"
                )

        contmpr_ts, node_map = util.reduce_to_contemporaneous(tree_sequence)
        if contmpr_ts.num_nodes != tree_sequence.num_nodes:
            raise ValueError(
                "Passed tree sequence is not simplified and/or contains "
                "noncontemporaneous samples"
            )
        span_data = SpansBySamples(contmpr_ts, progress=progress, allow_unary=allow_unary)

        base_priors = ConditionalCoalescentTimes(
            approx_prior_size, prior_distribution, progress=progress
        )

        base_priors.add(contmpr_ts.num_samples, approximate_priors)
        for total_fixed in span_data.total_fixed_at_0_counts:
            # For missing data: trees vary in total fixed node count =>
            # have different priors
            if total_fixed > 0:
                base_priors.add(total_fixed, approximate_priors)
        prior_params_contmpr = base_priors.get_mixture_prior_params(span_data)

        # Map the nodes in the prior params back to the node ids in the original ts
        self.prior_params = prior_params_contmpr[node_map, :]
        self.base_priors = base_priors
        self.tree_sequence = tree_sequence
        self.prior_distribution = prior_distribution

    def make_discretised_prior(self, population_size, timepoints=20, progress=False):
        """
        Calculate prior grid for a set of timepoints and a population size history
        """

        if isinstance(population_size, (int, float, np.ndarray)):
            population_size = demography.PopulationSizeHistory(population_size)

        if isinstance(timepoints, int):
            if timepoints < 2:
                raise ValueError("You must have at least 2 time points")
            timepoints = create_timepoints(self.base_priors, timepoints + 1)
        elif isinstance(timepoints, np.ndarray):
            try:
                timepoints = np.sort(
                    timepoints.astype(node_time_class.FLOAT_DTYPE, casting="safe")
                )
            except TypeError:
                raise TypeError(
                    "Timepoints array cannot be converted to float dtype"
                ) from None
            if len(timepoints) < 2:
                raise ValueError("You must have at least 2 time points")
            elif np.any(timepoints < 0):
                raise ValueError("Timepoints cannot be negative")
            elif np.any(np.unique(timepoints, return_counts=True)[1] > 1):
                raise ValueError("Timepoints cannot have duplicate values")
            # timepoints are assumed to be on generational scale, so convert to
            # coalescent timescale to evaluate prior
            timepoints = population_size.to_coalescent_timescale(timepoints)
        else:
            raise ValueError("time_slices must be an integer or a numpy array of floats")

        # Set all fixed nodes (i.e. samples) to have 0 variance
        priors = fill_priors(
            self.prior_params,
            timepoints,
            self.tree_sequence,
            population_size,
            prior_distr=self.prior_distribution,
            progress=progress,
        )
        return priors

    def make_parameter_grid(self, population_size, progress=False):
        """
        Adjust prior parameters given a population size history
        """

        if self.prior_distribution != "gamma":
            raise ValueError("Parameter grid may only be calculated with gamma priors")

        if isinstance(population_size, (int, float, np.ndarray)):
            population_size = demography.PopulationSizeHistory(population_size)

        ts = self.tree_sequence

        datable_nodes = np.ones(ts.num_nodes, dtype=bool)
        datable_nodes[ts.samples()] = False
        datable_nodes = np.where(datable_nodes)[0]

        prior_pars = node_time_class.NodeTimeValues(
            self.tree_sequence.num_nodes,
            datable_nodes[np.argsort(ts.nodes_time[datable_nodes])].astype(np.int32),
            np.array([0, np.inf]),
        )
        prior_pars.probability_space = node_time_class.GAMMA_PAR

        shape = self.prior_params[:, PriorParams.field_index("alpha")]
        rate = self.prior_params[:, PriorParams.field_index("beta")]
        for node in tqdm(
            datable_nodes, desc="Assign Prior to Each Node", disable=not progress
        ):
            prior_pars[node] = population_size.gamma_to_natural(shape[node], rate[node])

        return prior_pars


def prior_grid(
    tree_sequence,
    population_size,
    timepoints=20,
    *,
    approximate_priors=False,
    approx_prior_size=None,
    prior_distribution="lognorm",
    # Parameters below undocumented
    progress=False,
    allow_unary=False,
):
    """
    Using the conditional coalescent, calculate the prior distribution for the age of
    each node, given the number of contemporaneous samples below it, and
    the discretised time slices at which to evaluate node age.

    :param tskit.TreeSequence tree_sequence: The input :class:`tskit.TreeSequence`,
        treated as undated.
    :param float or demography.PopulationSizeHistory population_size: The estimated
        (diploid) effective population size used to construct the prior.
        For a population with constant size, this can be given as a single
        value. For a population with time-varying size, this can be given directly as
        a :class:`~demography.PopulationSizeHistory` object or a parameter dictionary
        passed to initialise a :class:`~demography.PopulationSizeHistory` object.
        Using standard (unscaled) values for ``population_size`` results in a prior where
        times are measured in generations.
    :param int or array_like timepoints: The number of quantiles used to create the
        time slices, or manually-specified time slices as a numpy array. Default: 20
    :param bool approximate_priors: Whether to use a precalculated approximation to the
        treewise conditional coalescent prior if there are large numbers of sample tips.
        If an approximate prior has not been precalculated, tsdate will do so and cache
        the result. Default: False
    :param int approx_prior_size: Number of samples above which a precalculated prior is
        used. Only valid if ``approximate_priors`` is True. Default: ``None``, treated as
        :data:`~tsdate.prior.DEFAULT_APPROX_PRIOR_SIZE` if
        ``approximate_priors`` is True.
    :param string prior_distr: What distribution to use to approximate the conditional
        coalescent prior. Can be "lognorm" for the lognormal distribution (generally a
        better fit, but slightly slower to calculate) or "gamma" for the gamma
        distribution (slightly faster, but a poorer fit for recent nodes). Default:
        "lognorm"
    :return: A prior object to pass to :func:`date` and similar functions containing
        prior values for inference and a discretised time grid
    :rtype:  node_time_class.NodeTimeValues
    """

    mixture_prior = MixturePrior(
        tree_sequence,
        approximate_priors,
        approx_prior_size,
        prior_distribution,
        allow_unary,
        progress,
    )
    return mixture_prior.make_discretised_prior(population_size, timepoints)


def parameter_grid(
    tree_sequence,
    population_size,
    *,
    approximate_priors=False,
    approx_prior_size=None,
    # Parameters below undocumented
    progress=False,
    allow_unary=False,
):
    """
    Using the conditional coalescent, calculate the prior distribution for the age of
    each node, given the number of contemporaneous samples below it, and
    return parameters (shape and rate of gamma) in a grid

    :param tskit.TreeSequence tree_sequence: The input tree sequence, treated as
        undated.
    :param float population_size: The estimated (diploid) effective population
        size: must be specified. May be a single value, or a two-column array with
        epoch breakpoints and effective population sizes. Using standard (unscaled)
        values for ``population_size`` results in a prior where times are measured
        in generations.
    :param bool approximate_priors: Whether to use a precalculated approximation to the
        treewise conditional coalescent prior if there are large numbers of sample tips.
        If an approximate prior has not been precalculated, tsdate will do so and cache
        the result. Default: False
    :param int approx_prior_size: Number of samples above which a precalculated prior is
        used. Only valid if ``approximate_priors`` is True. Default: ``None``, treated as
        :data:`~tsdate.prior.DEFAULT_APPROX_PRIOR_SIZE` if ``approximate_priors`` is True.
    :rtype:  node_time_class.NodeTimeValues
    """

    mixture_prior = MixturePrior(
        tree_sequence,
        approximate_priors,
        approx_prior_size,
        "gamma",
        allow_unary,
        progress,
    )
    return mixture_prior.make_parameter_grid(population_size)


def has_locally_unary_nodes(ts):
    for tree, ediff in zip(ts.trees(), ts.edge_diffs()):
        changed = {e.parent for edges in (ediff.edges_out, ediff.edges_in) for e in edges}
        if (tree.num_children_array[list(changed)] == 1).any():
            return True
    return False
