# MIT License
#
# Copyright (c) 2021-23 Tskit Developers
#
# Permission is hereby granted, free of charge, to any person obtaining a copy
# of this software and associated documentation files (the "Software"), to deal
# in the Software without restriction, including without limitation the rights
# to use, copy, modify, merge, publish, distribute, sublicense, and/or sell
# copies of the Software, and to permit persons to whom the Software is
# furnished to do so, subject to the following conditions:
#
# The above copyright notice and this permission notice shall be included in
# all copies or substantial portions of the Software.
#
# THE SOFTWARE IS PROVIDED "AS IS", WITHOUT WARRANTY OF ANY KIND, EXPRESS OR
# IMPLIED, INCLUDING BUT NOT LIMITED TO THE WARRANTIES OF MERCHANTABILITY,
# FITNESS FOR A PARTICULAR PURPOSE AND NONINFRINGEMENT. IN NO EVENT SHALL THE
# AUTHORS OR COPYRIGHT HOLDERS BE LIABLE FOR ANY CLAIM, DAMAGES OR OTHER
# LIABILITY, WHETHER IN AN ACTION OF CONTRACT, TORT OR OTHERWISE, ARISING FROM,
# OUT OF OR IN CONNECTION WITH THE SOFTWARE OR THE USE OR OTHER DEALINGS IN THE
# SOFTWARE.
"""
Tools for phasing singleton mutations
"""

import numpy as np
import tskit

from .accelerate import numba_jit
from .approx import _b1r, _b2r, _f, _f1r, _f2w, _i1r, _i1w, _i2r, _i2w, _tuple, _void

# --- machinery used by ExpectationPropagation class --- #


@numba_jit(_void(_f2w, _f1r, _i1r, _i2r))
def reallocate_unphased(edges_likelihood, mutations_phase, mutations_block, blocks_edges):
    """
    Add a proportion of each unphased singleton mutation to one of the two
    edges to which it maps
    """
    assert mutations_phase.size == mutations_block.size
    assert blocks_edges.shape[1] == 2

    num_edges = edges_likelihood.shape[0]
    edges_unphased = np.full(num_edges, False)
    edges_unphased[blocks_edges[:, 0]] = True
    edges_unphased[blocks_edges[:, 1]] = True

    num_unphased = np.sum(edges_likelihood[edges_unphased, 0])
    edges_likelihood[edges_unphased, 0] = 0.0
    for m, b in enumerate(mutations_block):
        if b == tskit.NULL:
            continue
        i, j = blocks_edges[b]
        assert tskit.NULL < i < num_edges
        assert edges_unphased[i]
        assert tskit.NULL < j < num_edges
        assert edges_unphased[j]
        if np.isnan(mutations_phase[m]):  # TODO: fix rare numerical issue
            continue
        assert 0.0 <= mutations_phase[m] <= 1.0
        edges_likelihood[i, 0] += mutations_phase[m]
        edges_likelihood[j, 0] += 1 - mutations_phase[m]
    assert np.isclose(num_unphased, np.sum(edges_likelihood[edges_unphased, 0]))


@numba_jit(
    _tuple((_f2w, _i2w, _i1w))(
        _b1r, _i1r, _i1r, _f1r, _i1r, _i1r, _f1r, _f1r, _i1r, _i1r, _f
    )
)
def _block_singletons(
    individuals_unphased,
    nodes_individual,
    mutations_node,
    mutations_position,
    edges_parent,
    edges_child,
    edges_left,
    edges_right,
    indexes_insert,
    indexes_remove,
    sequence_length,
):
    """
    TODO
    """
    assert edges_parent.size == edges_child.size == edges_left.size == edges_right.size
    assert indexes_insert.size == indexes_remove.size == edges_parent.size
    assert mutations_node.size == mutations_position.size

    num_mutations = mutations_node.size
    num_edges = edges_parent.size
    num_individuals = individuals_unphased.size

    indexes_mutation = np.argsort(mutations_position)
    position_insert = edges_left[indexes_insert]
    position_remove = edges_right[indexes_remove]
    position_mutation = mutations_position[indexes_mutation]

    individuals_edges = np.full((num_individuals, 2), tskit.NULL)
    individuals_position = np.full(num_individuals, np.nan)
    individuals_singletons = np.zeros(num_individuals)
    individuals_block = np.full(num_edges, tskit.NULL)
    mutations_block = np.full(num_mutations, tskit.NULL)

    blocks_span = []
    blocks_singletons = []
    blocks_edges = []
    blocks_order = []

    num_blocks = 0
    left = 0.0
    a, b, d = 0, 0, 0
    while a < num_edges or b < num_edges:
        while b < num_edges and position_remove[b] == left:  # edges out
            e = indexes_remove[b]
            c = edges_child[e]
            i = nodes_individual[c]
            if i != tskit.NULL and individuals_unphased[i]:
                u, v = individuals_edges[i]
                assert u == e or v == e
                s = u if v == e else v
                individuals_edges[i] = s, tskit.NULL
                if s != tskit.NULL:  # flush block
                    blocks_order.append(individuals_block[i])
                    blocks_edges.extend([e, s])
                    blocks_singletons.append(individuals_singletons[i])
                    blocks_span.append(left - individuals_position[i])
                    individuals_position[i] = np.nan
                    individuals_block[i] = tskit.NULL
                    individuals_singletons[i] = 0.0
            b += 1

        while a < num_edges and position_insert[a] == left:  # edges in
            e = indexes_insert[a]
            c = edges_child[e]
            i = nodes_individual[c]
            if i != tskit.NULL and individuals_unphased[i]:
                u, v = individuals_edges[i]
                assert u == tskit.NULL or v == tskit.NULL
                individuals_edges[i] = [e, max(u, v)]
                individuals_position[i] = left
                if individuals_block[i] == tskit.NULL:
                    individuals_block[i] = num_blocks
                    num_blocks += 1
            a += 1

        right = sequence_length
        if b < num_edges:
            right = min(right, position_remove[b])
        if a < num_edges:
            right = min(right, position_insert[a])
        left = right

        while d < num_mutations and position_mutation[d] < right:  # mutations
            m = indexes_mutation[d]
            c = mutations_node[m]
            i = nodes_individual[c]
            if i != tskit.NULL and individuals_unphased[i]:
                mutations_block[m] = individuals_block[i]
                individuals_singletons[i] += 1.0
            d += 1

    mutations_block = mutations_block.astype(np.int32)
    blocks_edges = np.array(blocks_edges, dtype=np.int32).reshape(-1, 2)
    blocks_singletons = np.array(blocks_singletons)
    blocks_span = np.array(blocks_span)
    blocks_order = np.array(blocks_order)
    blocks_stats = np.column_stack((blocks_singletons, blocks_span))
    assert num_blocks == blocks_edges.shape[0] == blocks_stats.shape[0]

    # sort block arrays so that mutations_block points to correct row
    blocks_order = np.argsort(blocks_order)
    blocks_edges = blocks_edges[blocks_order]
    blocks_stats = blocks_stats[blocks_order]

    return blocks_stats, blocks_edges, mutations_block


def block_singletons(ts, individuals_unphased):
    """
    TODO
    """
    for i in ts.individuals():
        if individuals_unphased[i.id]:
            if i.nodes.size != 2:
                raise ValueError("Singleton blocking assumes diploid individuals")
            if not np.all(ts.nodes_time[i.nodes] == 0.0):
                raise ValueError("Singleton blocking assumes contemporary individuals")

    # TODO: adjust spans by an accessibility mask
    return _block_singletons(
        individuals_unphased,
        ts.nodes_individual,
        ts.mutations_node,
        ts.sites_position[ts.mutations_site],
        ts.edges_parent,
        ts.edges_child,
        ts.edges_left,
        ts.edges_right,
        ts.indexes_edge_insertion_order,
        ts.indexes_edge_removal_order,
        ts.sequence_length,
    )


@numba_jit(_i2w(_b2r, _i1r, _f1r, _i1r, _i1r, _f1r, _f1r, _i1r, _i1r, _f))
def _mutation_frequency(
    nodes_sample,
    mutations_node,
    mutations_position,
    edges_parent,
    edges_child,
    edges_left,
    edges_right,
    indexes_insert,
    indexes_remove,
    sequence_length,
):
    """
    TODO
    """
    assert edges_parent.size == edges_child.size == edges_left.size == edges_right.size
    assert indexes_insert.size == indexes_remove.size == edges_parent.size
    assert mutations_node.size == mutations_position.size

    num_nodes, num_sample_sets = nodes_sample.shape
    num_mutations = mutations_node.size
    num_edges = edges_parent.size

    indexes_mutation = np.argsort(mutations_position)
    position_insert = edges_left[indexes_insert]
    position_remove = edges_right[indexes_remove]
    position_mutation = mutations_position[indexes_mutation]

    nodes_parent = np.full(num_nodes, tskit.NULL)
    nodes_samples = np.zeros((num_nodes, num_sample_sets), dtype=np.int32)
    mutations_freq = np.zeros((num_mutations, num_sample_sets), dtype=np.int32)

    # TODO: there's a better way than passing a big bool array
    for i in range(num_sample_sets):
        nodes_samples[nodes_sample[:, i], i] = 1.0

    left = 0.0
    a, b, d = 0, 0, 0
    while a < num_edges or b < num_edges:
        while b < num_edges and position_remove[b] == left:  # edges out
            e = indexes_remove[b]
            p, c = edges_parent[e], edges_child[e]
            nodes_parent[c] = tskit.NULL
            while p != tskit.NULL:
                nodes_samples[p] -= nodes_samples[c]
                p = nodes_parent[p]
            b += 1

        while a < num_edges and position_insert[a] == left:  # edges in
            e = indexes_insert[a]
            p, c = edges_parent[e], edges_child[e]
            nodes_parent[c] = p
            while p != tskit.NULL:
                nodes_samples[p] += nodes_samples[c]
                p = nodes_parent[p]
            a += 1

        right = sequence_length
        if b < num_edges:
            right = min(right, position_remove[b])
        if a < num_edges:
            right = min(right, position_insert[a])
        left = right

        while d < num_mutations and position_mutation[d] < right:
            m = indexes_mutation[d]
            c = mutations_node[m]
            mutations_freq[m] = nodes_samples[c]
            d += 1

    return mutations_freq


def mutation_frequency(ts, sample_sets=None):
    """
    TODO
    """
    if sample_sets is None:
        sample_sets = [list(ts.samples())]

    nodes_sample = np.full((ts.num_nodes, len(sample_sets)), False)
    for i, s in enumerate(sample_sets):
        assert min(s) >= 0 and max(s) < ts.num_samples, "Sample out of range"  # NOQA: PT018
        nodes_sample[s, i] = True

    return _mutation_frequency(
        nodes_sample,
        ts.mutations_node,
        ts.sites_position[ts.mutations_site],
        ts.edges_parent,
        ts.edges_child,
        ts.edges_left,
        ts.edges_right,
        ts.indexes_edge_insertion_order,
        ts.indexes_edge_removal_order,
        ts.sequence_length,
    ).squeeze()


# --- helper functions --- #


def remove_singletons(ts):
    """
    Remove all singleton mutations from the tree sequence.

    Return the new ts, along with the id of the removed mutations in the
    original tree sequence.
    """

    nodes_sample = np.bitwise_and(ts.nodes_flags, tskit.NODE_IS_SAMPLE).astype(bool)
    assert np.sum(nodes_sample) == ts.num_samples
    assert np.all(~nodes_sample[ts.edges_parent]), "Sample node has a child"
    singletons = nodes_sample[ts.mutations_node]

    metadata = np.array(
        tskit.unpack_strings(
            ts.tables.mutations.metadata,
            ts.tables.mutations.metadata_offset,
        )
    )

    state = np.array(
        tskit.unpack_strings(
            ts.tables.mutations.derived_state,
            ts.tables.mutations.derived_state_offset,
        )
    )

    singleton_derived = state[singletons]
    singleton_ancestral = np.array(
        tskit.unpack_strings(
            ts.tables.sites.ancestral_state,
            ts.tables.sites.ancestral_state_offset,
        )
    )
    singleton_ancestral = singleton_ancestral[ts.mutations_site]
    singleton_ancestral = singleton_ancestral[singletons]

    metadata, metadata_offset = tskit.pack_strings(metadata[~singletons])
    state, state_offset = tskit.pack_strings(state[~singletons])

    tables = ts.dump_tables()
    tables.mutations.set_columns(
        node=ts.mutations_node[~singletons],
        time=ts.mutations_time[~singletons],
        site=ts.mutations_site[~singletons],
        derived_state=state,
        derived_state_offset=state_offset,
        metadata=metadata,
        metadata_offset=metadata_offset,
    )
    tables.sort()
    tables.build_index()
    tables.compute_mutation_parents()

    singleton_individual = ts.nodes_individual[ts.mutations_node[singletons]]
    singleton_position = ts.sites_position[ts.mutations_site[singletons]]
    removed_singletons = (
        singleton_position,
        singleton_individual,
        singleton_ancestral,
        singleton_derived,
    )

    return tables.tree_sequence(), removed_singletons


def insert_unphased_singletons(
    ts,
    position,
    individual,
    ancestral_state,
    derived_state,
):
    """
    Insert unphased singletons into the tree sequence. The phase is arbitrarily chosen
    so that the mutation subtends the node with the highest id, at a given position for a
    a given individual.

    :param tskit.TreeSequence ts: the tree sequence to add singletons to
    :param np.ndarray position: the position of the variants
    :param np.ndarray individual: the individual id in which the variant occurs
    :param np.ndarray ancestral_state: the ancestral state of the variant
    :param np.ndarray derived_state: the derived state of the variant

    :returns: A copy of the tree sequence with singletons inserted
    """
    # TODO: provenance / metdata
    tables = ts.dump_tables()
    individuals_node = {i.id: max(i.nodes) for i in ts.individuals()}
    sites_id = {p: i for i, p in enumerate(ts.sites_position)}
    for pos, ind, ref, alt in zip(position, individual, ancestral_state, derived_state):
        if ind not in individuals_node:
            raise LookupError(f"Individual {ind} is not in the tree sequence")
        if pos in sites_id:
            if ref != ts.site(sites_id[pos]).ancestral_state:
                raise ValueError(
                    f"Existing site at position {pos} has a different ancestral state"
                )
            muts = ts.site(sites_id[pos]).mutations
            set_time = len(muts) and np.isfinite(muts[0].time)
        else:
            sites_id[pos] = tables.sites.add_row(position=pos, ancestral_state=ref)
            set_time = False
        # TODO: more efficient to do in bulk?
        site = sites_id[pos]
        node = individuals_node[ind]
        time = ts.nodes_time[node] if set_time else tskit.UNKNOWN_TIME
        tables.mutations.add_row(
            site=site,
            node=node,
            time=time,
            derived_state=alt,
        )
    tables.sort()
    tables.build_index()
    tables.compute_mutation_parents()
    return tables.tree_sequence()


def rephase_singletons(ts, use_node_times=True, random_seed=None):
    """
    Rephase singleton mutations in the tree sequence. If `use_node_times`
    is True, singletons are added to permissable branches with probability
    proportional to the branch length (and with equal probability otherwise).

    This is not efficient, and is intended for benchmarking/testing.
    """
    rng = np.random.default_rng(random_seed)

    mutations_node = ts.mutations_node.copy()
    mutations_time = ts.mutations_time.copy()

    singletons = np.bitwise_and(ts.nodes_flags[mutations_node], tskit.NODE_IS_SAMPLE)
    singletons = np.flatnonzero(singletons)
    tree = ts.first()
    for i in singletons:
        position = ts.sites_position[ts.mutations_site[i]]
        individual = ts.nodes_individual[ts.mutations_node[i]]
        time = ts.nodes_time[ts.mutations_node[i]]
        assert individual != tskit.NULL
        assert time == 0.0
        tree.seek(position)
        nodes_id = ts.individual(individual).nodes
        nodes_length = np.array([tree.time(tree.parent(n)) - time for n in nodes_id])
        nodes_prob = nodes_length if use_node_times else np.ones(nodes_id.size)
        nodes_prob /= nodes_prob.sum()
        mutations_node[i] = rng.choice(nodes_id, p=nodes_prob, size=1)[0]
        if not np.isnan(mutations_time[i]):
            parent_time = tree.time(tree.parent(mutations_node[i]))
            mutations_time[i] = (time + parent_time) / 2

    tables = ts.dump_tables()
    tables.mutations.node = mutations_node
    tables.mutations.time = mutations_time
    tables.sort()
    tables.build_index()
    tables.compute_mutation_parents()
    return tables.tree_sequence()
