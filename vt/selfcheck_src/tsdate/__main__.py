from . import cli


def main():
    cli.tsdate_main()


if __name__ == "__main__":
    main()  # pragma: no cover
