import os
from collections.abc import Callable

from numba import jit

# By default we disable the numba cache. See e.g.
# https://github.com/sgkit-dev/sgkit/blob/main/sgkit/accelerate.py
_ENABLE_CACHE = os.environ.get("TSDATE_ENABLE_NUMBA_CACHE", "0")

try:
    CACHE_NUMBA = {"0": False, "1": True}[_ENABLE_CACHE]
except KeyError as e:  # pragma: no cover
    raise KeyError(
        "Environment variable 'TSDATE_ENABLE_NUMBA_CACHE' must be '0' or '1'"
    ) from e


DEFAULT_NUMBA_ARGS = {
    "nopython": True,
    "cache": CACHE_NUMBA,
}


def numba_jit(*args, **kwargs) -> Callable:  # pragma: no cover
    kwargs_ = DEFAULT_NUMBA_ARGS.copy()
    kwargs_.update(kwargs)
    return jit(*args, **kwargs_)
