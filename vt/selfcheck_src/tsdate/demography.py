# MIT License
#
# Copyright (c) 2020 University of Oxford
# Copyright (c) 2021-2023 Tskit Developers
#
# Permission is hereby granted, free of charge, to any person obtaining a copy
# of this software and associated documentation files (the "Software"), to deal
# in the Software without restriction, including without limitation the rights
# to use, copy, modify, merge, publish, distribute, sublicense, and/or sell
# copies of the Software, and to permit persons to whom the Software is
# furnished to do so, subject to the following conditions:
#
# The above copyright notice and this permission notice shall be included in
# all copies or substantial portions of the Software.
#
# THE SOFTWARE IS PROVIDED "AS IS", WITHOUT WARRANTY OF ANY KIND, EXPRESS OR
# IMPLIED, INCLUDING BUT NOT LIMITED TO THE WARRANTIES OF MERCHANTABILITY,
# FITNESS FOR A PARTICULAR PURPOSE AND NONINFRINGEMENT. IN NO EVENT SHALL THE
# AUTHORS OR COPYRIGHT HOLDERS BE LIABLE FOR ANY CLAIM, DAMAGES OR OTHER
# LIABILITY, WHETHER IN AN ACTION OF CONTRACT, TORT OR OTHERWISE, ARISING FROM,
# OUT OF OR IN CONNECTION WITH THE SOFTWARE OR THE USE OR OTHER DEALINGS IN THE
# SOFTWARE.
"""
Routines and classes for manipulating demographic histories in tsdate
"""

import numpy as np
import scipy.stats


class PopulationSizeHistory:
    """
    Stores a piecewise constant population size history and tranforms time from
    a natural (generational) scale to a coalescent one.
    """

    @staticmethod
    def _change_time_measure(time_ago, breakpoints, time_measure):
        """
        Rescales time given a piecewise-constant time measure. To convert from
        generations to coalescent units, the time measure per epoch should be 2 *
        effective population size.  To convert from coalescent units to
        generations, the time measure should be the coalescent rate ``1/(2 * Ne)``.

        :param np.ndarray time_ago: An increasing vector of time points
        :param np.ndarray breakpoints: Start times of pieces
        :param np.ndarray time_measure: Time measure within pieces

        :return: Inputs in new time measure
        """

        assert np.all(np.diff(breakpoints) > 0.0)
        assert np.min(breakpoints) == 0.0
        assert np.all(time_ago >= 0.0)
        assert np.all(time_measure > 0.0)
        assert breakpoints.size == time_measure.size
        index = np.searchsorted(breakpoints, time_ago, side="right") - 1
        step = np.concatenate(
            [
                [0.0],
                np.cumsum(
                    breakpoints[1:] * (1.0 / time_measure[:-1] - 1.0 / time_measure[1:])
                ),
            ]
        )
        new_time_ago = time_ago * 1.0 / time_measure[index] + step[index]
        new_breakpoints = breakpoints * 1.0 / time_measure + step
        new_time_measure = 1.0 / time_measure
        return new_time_ago, new_breakpoints, new_time_measure

    def __init__(self, population_size, time_breaks=None):
        """
        :param array_like population_size: An array containing diploid
            population sizes per epoch
        :param array_like time_breaks: A sorted array containing time
            breaks that divide epochs, measured in units of generations in the
            past
        """

        if time_breaks is None:
            time_breaks = []

        if isinstance(population_size, (int, float)):
            population_size = np.array([population_size], dtype=float)
        else:
            try:
                population_size = np.array(population_size, dtype=float)
            except (ValueError, TypeError) as e:
                raise e.__class__(
                    "Population sizes must be convertable to a numpy float array"
                ) from e
        if not np.all(population_size > 0.0):
            raise ValueError("Population sizes must be greater than 0")
        if not np.all(np.isfinite(population_size)):
            raise ValueError("Population sizes must be finite")

        try:
            time_breaks = np.array(time_breaks, dtype=float)
        except (ValueError, TypeError) as e:
            raise e.__class__(
                "Time breaks must be convertable to a numpy float array"
            ) from e
        if not time_breaks.size == population_size.size - 1:
            raise ValueError(
                "The length of the population size array must be one less "
                "than the number of epoch time breaks"
            )
        if time_breaks.size > 0:
            if not np.all(time_breaks > 0.0):
                raise ValueError("Epoch time breaks must be greater than 0")
            if not np.all(np.diff(time_breaks) > 0.0):
                raise ValueError(
                    "Epoch time breaks must be unique and in increasing order"
                )

        self.time_breaks = np.append([0.0], time_breaks.flatten())
        self.population_size = 2 * population_size.flatten()
        _, coalescent_breaks, coalescent_rate = self._change_time_measure(
            self.time_breaks, self.time_breaks, self.population_size
        )
        self.coalescent_breaks = coalescent_breaks
        self.coalescent_rate = coalescent_rate

    def as_dict(self):
        """
        Return the population size history as a dictionary of parameters
        that can be used to initialise a new object
        """
        ret_val = {"population_size": list(self.population_size / 2)}
        assert self.time_breaks[0] == 0.0
        if len(self.time_breaks) > 1:
            ret_val["time_breaks"] = list(self.time_breaks[1:])
        return ret_val

    def to_natural_timescale(self, coalescent_time_ago):
        """
        Convert a vector of times from coalescent units to generations

        :param np.ndarray coalescent_time_ago: Times in the past, in coalescent units
        :return: Times in the past, in generations
        """

        if not isinstance(coalescent_time_ago, np.ndarray):
            raise ValueError("Times must be in a numpy array")
        time_ago, _, _ = self._change_time_measure(
            coalescent_time_ago,
            self.coalescent_breaks,
            self.coalescent_rate,
        )
        return time_ago

    def to_coalescent_timescale(self, time_ago):
        """
        Convert a vector of times from generations to coalescent units

        :param np.ndarray time_ago: Times in the past, in generations
        :return: Times in the past, in coalescent units
        """

        if not isinstance(time_ago, np.ndarray):
            raise ValueError("Times must be in a numpy array")
        coalescent_time_ago, _, _ = self._change_time_measure(
            time_ago,
            self.time_breaks,
            self.population_size,
        )
        return coalescent_time_ago

    def gamma_to_natural(self, shape=1, rate=1):
        """
        Given a gamma distribution on a coalescent timescale with parameters
        `shape` and `rate`, return natural parameters of a gamma approximation
        to the distribution under a change of measure to a generational
        timescale.

        :param float shape: Shape parameter of gamma
        :param float rate: Rate parameter of gamma (inverse of scale)
        :return: natural parameters after change of measure
        """
        assert shape > 0, "Gamma shape parameter must be positive"
        assert rate > 0, "Gamma rate parameter must be positive"
        C = np.exp(shape * np.log(rate) - scipy.special.loggamma(shape))
        gamma_cdf = scipy.special.gammainc
        cdf_breaks = np.append(self.coalescent_breaks, [np.inf])
        cdf_0 = (
            C
            * scipy.special.gamma(shape)
            / rate**shape
            * np.diff(gamma_cdf(shape + 0, rate * cdf_breaks))
        )
        mn_coef_0 = self.time_breaks - self.population_size * self.coalescent_breaks
        va_coef_0 = mn_coef_0**2
        cdf_1 = (
            C
            * scipy.special.gamma(shape + 1)
            / rate ** (shape + 1)
            * np.diff(gamma_cdf(shape + 1, rate * cdf_breaks))
        )
        mn_coef_1 = self.population_size
        va_coef_1 = mn_coef_0 * mn_coef_1 * 2
        cdf_2 = (
            C
            * scipy.special.gamma(shape + 2)
            / rate ** (shape + 2)
            * np.diff(gamma_cdf(shape + 2, rate * cdf_breaks))
        )
        va_coef_2 = mn_coef_1**2
        mn = np.sum(mn_coef_1 * cdf_1 + mn_coef_0 * cdf_0)
        va = np.sum(va_coef_2 * cdf_2 + va_coef_1 * cdf_1 + va_coef_0 * cdf_0)
        va -= mn**2
        new_shape = mn**2 / va
        new_rate = mn / va
        return np.array([new_shape, new_rate])

    # TODO:
    # @staticmethod
    # def from_demes(filename):
    #    """
    #    Create a `PopulationSizeHistory` instance from a `demes` format YAML
    #    """

    # TODO:
    # output a PopulationSizeHistory as a json object, so we can store it
    # in the provenance. See https://github.com/tskit-dev/tsdate/issues/274
