# MIT License
#
# Copyright (c) 2021-23 Tskit Developers
#
# Permission is hereby granted, free of charge, to any person obtaining a copy
# of this software and associated documentation files (the "Software"), to deal
# in the Software without restriction, including without limitation the rights
# to use, copy, modify, merge, publish, distribute, sublicense, and/or sell
# copies of the Software, and to permit persons to whom the Software is
# furnished to do so, subject to the following conditions:
#
# The above copyright notice and this permission notice shall be included in
# all copies or substantial portions of the Software.
#
# THE SOFTWARE IS PROVIDED "AS IS", WITHOUT WARRANTY OF ANY KIND, EXPRESS OR
# IMPLIED, INCLUDING BUT NOT LIMITED TO THE WARRANTIES OF MERCHANTABILITY,
# FITNESS FOR A PARTICULAR PURPOSE AND NONINFRINGEMENT. IN NO EVENT SHALL THE
# AUTHORS OR COPYRIGHT HOLDERS BE LIABLE FOR ANY CLAIM, DAMAGES OR OTHER
# LIABILITY, WHETHER IN AN ACTION OF CONTRACT, TORT OR OTHERWISE, ARISING FROM,
# OUT OF OR IN CONNECTION WITH THE SOFTWARE OR THE USE OR OTHER DEALINGS IN THE
# SOFTWARE.
"""
Tools for comparing node times between tree sequences with different node sets.

NB: functionality such as CladeMap, shared_node_spans, and match_node_ages is
now in the tscompare repository: https://github.com/tskit-dev/tscompare/
"""

import json
from collections import defaultdict
from itertools import groupby
from math import isqrt

import matplotlib.pyplot as plt
import numpy as np
import scipy.sparse
import tskit

from .phasing import mutation_frequency
from .rescaling import count_mutations

# --- infrastructure for testing against polytomies --- #


def remove_edges(ts, edge_id_remove_list):
    edges_to_remove_by_child = defaultdict(list)
    edge_id_remove_list = set(edge_id_remove_list)
    for m in ts.mutations():
        if m.edge in edge_id_remove_list:
            # If we remove this edge, we will remove the associated mutation
            # as the child node won't have ancestral material in this region.
            # So we force the user to explicitly (re)move the mutations beforehand
            raise ValueError("Cannot remove edges that have associated mutations")
    for remove_edge in edge_id_remove_list:
        e = ts.edge(remove_edge)
        edges_to_remove_by_child[e.child].append(e)

    # sort left-to-right for each child
    for k, v in edges_to_remove_by_child.items():
        edges_to_remove_by_child[k] = sorted(v, key=lambda e: e.left)
        # check no overlaps
        for e1, e2 in zip(edges_to_remove_by_child[k], edges_to_remove_by_child[k][1:]):
            assert e1.right <= e2.left

    # Sanity check: this means the topmost node will deal with modified edges
    # left at the end
    assert ts.edge(-1).parent not in edges_to_remove_by_child

    new_edges = defaultdict(list)
    tables = ts.dump_tables()
    tables.edges.clear()
    # Edges are sorted by parent time, youngest first, so we can iterate over
    # nodes-as-parents visiting children before parents by using itertools.groupby
    for parent_id, ts_edges in groupby(ts.edges(), lambda e: e.parent):
        # Iterate through the ts edges *plus* the polytomy edges we created in
        # previous steps.  This allows us to re-edit polytomy edges when the
        # edges_to_remove are stacked
        edges = list(ts_edges)
        if parent_id in new_edges:
            edges += new_edges.pop(parent_id)
        if parent_id in edges_to_remove_by_child:
            for e in edges:
                assert parent_id == e.parent
                left = -1
                if e.id in edge_id_remove_list:
                    continue
                # NB: we go left to right along the target edges, reducing edge
                # e as required
                for target_edge in edges_to_remove_by_child[parent_id]:
                    # As we go along the target_edges, gradually split e into
                    # chunks.  If edge e is in the target_edge region, change
                    # the edge parent
                    assert target_edge.left > left
                    left = target_edge.left
                    if e.left >= target_edge.right:
                        # This target edge is entirely to the LHS of edge e,
                        # with no overlap
                        continue
                    elif e.right <= target_edge.left:
                        # This target edge is entirely to the RHS of edge e
                        # with no overlap.  Since target edges are sorted by
                        # left coord, all other target edges are to RHS too,
                        # and we are finished dealing with edge e
                        tables.edges.append(e)
                        e = None
                        break
                    else:
                        # Edge e must overlap with current target edge somehow
                        if e.left < target_edge.left:
                            # Edge had region to LHS of target
                            # Add the left hand section (change the edge right coord)
                            tables.edges.add_row(
                                left=e.left,
                                right=target_edge.left,
                                parent=e.parent,
                                child=e.child,
                            )
                            e = e.replace(left=target_edge.left)
                        if e.right > target_edge.right:
                            # Edge continues after RHS of target
                            assert e.left < target_edge.right
                            new_edges[target_edge.parent].append(
                                e.replace(
                                    right=target_edge.right, parent=target_edge.parent
                                )
                            )
                            e = e.replace(left=target_edge.right)
                        else:
                            # No more of edge e to RHS
                            assert e.left < e.right
                            new_edges[target_edge.parent].append(
                                e.replace(parent=target_edge.parent)
                            )
                            e = None
                            break
                if e is not None:
                    # Need to add any remaining regions of edge back in
                    tables.edges.append(e)
        else:
            # NB: sanity check at top means that the oldest node will have no
            # edges above, so the last iteration should hit this branch
            for e in edges:
                if e.id not in edge_id_remove_list:
                    tables.edges.append(e)
    assert len(new_edges) == 0
    tables.sort()
    tables.build_index()
    tables.compute_mutation_parents()
    return tables.tree_sequence()


def unsupported_edges(ts, per_interval=False):
    """
    Return the internal edges that are unsupported by a mutation.
    If ``per_interval`` is True, each interval needs to be supported,
    otherwise, a mutation on an edge (even if there are multiple intervals
    per edge) will result in all intervals on that edge being treated
    as supported.
    """
    edges_to_remove = np.ones(ts.num_edges, dtype="bool")
    edges_to_remove[[m.edge for m in ts.mutations()]] = False
    # We don't remove edges above samples
    edges_to_remove[np.isin(ts.edges_child, ts.samples())] = False

    if per_interval:
        return np.where(edges_to_remove)[0]
    else:
        keep = ~edges_to_remove
        for p, c in zip(ts.edges_parent[keep], ts.edges_child[keep]):
            edges_to_remove[np.logical_and(ts.edges_parent == p, ts.edges_child == c)] = (
                False
            )
        return np.where(edges_to_remove)[0]


# --- first drafts of diagnostic plots --- #


def node_coverage(ts, inferred_ts, alpha):
    assert np.all(np.logical_and(1 > alpha, alpha > 0))
    posteriors = np.zeros((inferred_ts.num_nodes, 2))
    for n in inferred_ts.nodes():
        mn = json.loads(n.metadata or '{"mn":0}')["mn"]
        vr = json.loads(n.metadata or '{"vr":0}')["vr"]
        posteriors[n.id] = [mn**2 / vr, mn / vr] if vr > 0 else np.nan
    positions = {p: i for i, p in enumerate(ts.sites_position)}
    true_child = np.full(ts.sites_position.size, tskit.NULL)
    infr_child = np.full(ts.sites_position.size, tskit.NULL)
    for s in ts.sites():
        if len(s.mutations) == 1:
            sid = positions[s.position]
            true_child[sid] = s.mutations[0].node
    for s in inferred_ts.sites():
        if len(s.mutations) == 1:
            sid = positions[s.position]
            nid = s.mutations[0].node
            if not np.isnan(posteriors[nid, 0]):
                infr_child[s.id] = s.mutations[0].node
    missing = np.logical_or(true_child == tskit.NULL, infr_child == tskit.NULL)
    infr_child = infr_child[~missing]
    true_child = true_child[~missing]
    post = posteriors[infr_child]
    upper = np.zeros((post.shape[0], alpha.size))
    lower = np.zeros((post.shape[0], alpha.size))
    for i in range(post.shape[0]):
        shape, rate = post[i, 0], post[i, 1]
        if shape <= 1:
            upper[i] = scipy.stats.gamma.ppf(1 - alpha, shape, scale=1 / rate)
            lower[i] = 0.0
        else:
            upper[i] = scipy.stats.gamma.ppf(1 - alpha / 2, shape, scale=1 / rate)
            lower[i] = scipy.stats.gamma.ppf(alpha / 2, shape, scale=1 / rate)
    true = ts.nodes_time[true_child]
    is_covered = np.logical_and(true[:, np.newaxis] < upper, true[:, np.newaxis] > lower)
    prop_covered = np.sum(is_covered, axis=0) / is_covered.shape[0]
    # import matplotlib.pyplot as plt
    # plt.axline((0,0), slope=1, linestyle="--", color="black")
    # plt.xlim(0, 1)
    # plt.ylim(0, 1)
    # plt.xlabel("Expected coverage")
    # plt.xlabel("Observed coverage")
    # plt.scatter(1 - alpha, prop_covered, color="red")
    # plt.savefig(plot)
    # plt.clf()
    # plt.clf()
    # fig, axs = plt.subplots(1, figsize=(10,5))
    # cmap = plt.get_cmap("plasma")
    # samp = np.random.randint(0, true.size, size=1000)
    # rnk = scipy.stats.rankdata(true[samp])
    # for i in range(alpha.size):
    #    axs.vlines(
    #        x=rnk,
    #        ymin=np.log10(lower[samp, i]) - np.log10(true[samp]),
    #        ymax=np.log10(upper[samp, i]) - np.log10(true[samp]),
    #        color=cmap(i/(alpha.size-1)),
    #        linewidth=1,
    #    )
    # axs.axhline(y=0, linestyle="--", color="black")
    # axs.set_xlabel("True age rank order")
    # axs.set_ylabel("Interval - true age (log)")
    # plt.savefig("bar.png")
    # plt.clf()
    return prop_covered


def mutation_coverage(ts, inferred_ts, alpha):
    assert np.all(np.logical_and(1 > alpha, alpha > 0))
    # extract mutation posteriors from metadata
    posteriors = np.zeros((inferred_ts.num_mutations, 2))
    for m in inferred_ts.mutations():
        mn = json.loads(m.metadata or '{"mn":0}')["mn"]
        vr = json.loads(m.metadata or '{"vr":0}')["vr"]
        posteriors[m.id] = [mn**2 / vr, mn / vr] if vr > 0 else np.nan
    # find shared biallelic sites
    positions = {p: i for i, p in enumerate(ts.sites_position)}
    true_mut = np.full(ts.sites_position.size, tskit.NULL)
    infr_mut = np.full(ts.sites_position.size, tskit.NULL)
    for s in ts.sites():
        if len(s.mutations) == 1:
            sid = positions[s.position]
            true_mut[sid] = s.mutations[0].id
    for s in inferred_ts.sites():
        if len(s.mutations) == 1:
            mid = s.mutations[0].id
            if not np.isnan(posteriors[mid, 0]):
                sid = positions[s.position]
                infr_mut[sid] = s.mutations[0].id
    missing = np.logical_or(true_mut == tskit.NULL, infr_mut == tskit.NULL)
    infr_mut = infr_mut[~missing]
    true_mut = true_mut[~missing]
    # calculate coverage
    post = posteriors[infr_mut]
    upper = np.zeros((post.shape[0], alpha.size))
    lower = np.zeros((post.shape[0], alpha.size))
    for i in range(post.shape[0]):
        shape, rate = post[i, 0], post[i, 1]
        if shape <= 1:
            upper[i] = scipy.stats.gamma.ppf(1 - alpha, shape, scale=1 / rate)
            lower[i] = 0.0
        else:
            upper[i] = scipy.stats.gamma.ppf(1 - alpha / 2, shape, scale=1 / rate)
            lower[i] = scipy.stats.gamma.ppf(alpha / 2, shape, scale=1 / rate)
    true = ts.mutations_time[true_mut]
    is_covered = np.logical_and(true[:, np.newaxis] < upper, true[:, np.newaxis] > lower)
    prop_covered = np.sum(is_covered, axis=0) / is_covered.shape[0]
    # plt.clf()
    # plt.axline((0,0), slope=1, linestyle="--", color="black")
    # plt.xlim(0, 1)
    # plt.ylim(0, 1)
    # plt.xlabel("Expected coverage")
    # plt.xlabel("Observed coverage")
    # plt.scatter(1 - alpha, prop_covered, color="red")
    # plt.savefig(plot)
    # plt.clf()
    # fig, axs = plt.subplots(1, figsize=(10,5))
    # cmap = plt.get_cmap("plasma")
    # samp = np.random.randint(0, true.size, size=1000)
    # rnk = scipy.stats.rankdata(true[samp])
    # for i in range(alpha.size):
    #    axs.vlines(
    #        x=rnk,
    #        ymin=np.log10(lower[samp, i]) - np.log10(true[samp]),
    #        ymax=np.log10(upper[samp, i]) - np.log10(true[samp]),
    #        color=cmap(i/(alpha.size-1)),
    #        linewidth=1,
    #    )
    # axs.axhline(y=0, linestyle="--", color="black")
    # axs.set_xlabel("True age rank order")
    # axs.set_ylabel("Interval - true age (log)")
    # plt.savefig("foo.png")
    # plt.clf()
    return prop_covered


def mutations_time(
    ts,
    infer_ts,
    use_posterior=False,
    min_freq=None,
    max_freq=None,
    plotpath=None,
    title=None,
    what="midpoint",
):
    """
    Return true and inferred mutation ages, optionally creating a scatterplot and
    filtering by minimum or maximum frequency.
    """
    # mutation edges and frequency
    _, true_edge = count_mutations(ts)
    _, infr_edge = count_mutations(infer_ts)
    true_freq = mutation_frequency(ts)
    infr_freq = mutation_frequency(infer_ts)
    if use_posterior:
        mut_post_mn = np.zeros(infer_ts.num_mutations)
        for m in infer_ts.mutations():
            mut_post_mn[m.id] = m.metadata["mn"]
    # find shared biallelic sites
    positions = {p: i for i, p in enumerate(ts.sites_position)}
    true_mut = np.full(ts.sites_position.size, tskit.NULL)
    infr_mut = np.full(ts.sites_position.size, tskit.NULL)
    for s in ts.sites():
        if len(s.mutations) == 1:
            if s.mutations[0].edge != tskit.NULL:
                sid = positions[s.position]
                true_mut[sid] = s.mutations[0].id
    for s in infer_ts.sites():
        if len(s.mutations) == 1:
            if s.mutations[0].edge != tskit.NULL:
                sid = positions[s.position]
                infr_mut[sid] = s.mutations[0].id
    missing = np.logical_or(true_mut == tskit.NULL, infr_mut == tskit.NULL)
    infr_mut = infr_mut[~missing]
    true_mut = true_mut[~missing]
    # filter by frequency
    if min_freq is not None or max_freq is not None:
        if min_freq is None:
            min_freq = 0
        if max_freq is None:
            max_freq = np.max(infr_freq)
        freq = infr_freq[infr_mut]
        assert np.allclose(freq, true_freq[true_mut])
        is_freq = np.logical_and(freq >= min_freq, freq <= max_freq)
        infr_mut = infr_mut[is_freq]
        true_mut = true_mut[is_freq]
    # get age of mutation or subtended node
    if what == "child":
        infr_node = infer_ts.edges_child[infr_edge[infr_mut]]
        assert np.allclose(infr_node, infer_ts.mutations_node[infr_mut])
        true_node = ts.edges_child[true_edge[true_mut]]
        assert np.allclose(true_node, ts.mutations_node[true_mut])
        _, uniq_idx = np.unique(infr_node, return_index=True)
        infr_node = infr_node[uniq_idx]
        true_node = true_node[uniq_idx]
        _, uniq_idx = np.unique(true_node, return_index=True)
        infr_node = infr_node[uniq_idx]
        true_node = true_node[uniq_idx]
        mean = infer_ts.nodes_time[infr_node]
        truth = ts.nodes_time[true_node]
        nonzero = np.logical_and(mean > 0, truth > 0)
        mean = mean[nonzero]
        truth = truth[nonzero]
    elif what == "parent":
        infr_node = infer_ts.edges_parent[infr_edge[infr_mut]]
        true_node = ts.edges_parent[true_edge[true_mut]]
        _, uniq_idx = np.unique(infr_node, return_index=True)
        infr_node = infr_node[uniq_idx]
        true_node = true_node[uniq_idx]
        _, uniq_idx = np.unique(true_node, return_index=True)
        infr_node = infr_node[uniq_idx]
        true_node = true_node[uniq_idx]
        mean = infer_ts.nodes_time[infr_node]
        truth = ts.nodes_time[true_node]
        nonzero = np.logical_and(mean > 0, truth > 0)
        mean = mean[nonzero]
        truth = truth[nonzero]
    elif what == "midpoint":  # midpoint on branch
        # TODO clean up
        infr_p = infer_ts.edges_parent[infr_edge[infr_mut]]
        true_p = ts.edges_parent[true_edge[true_mut]]
        infr_c = infer_ts.edges_child[infr_edge[infr_mut]]
        true_c = ts.edges_child[true_edge[true_mut]]
        if use_posterior:
            mean = mut_post_mn[infr_mut]
        else:
            mean = (infer_ts.nodes_time[infr_p] + infer_ts.nodes_time[infr_c]) / 2
        truth = (ts.nodes_time[true_p] + ts.nodes_time[true_c]) / 2
    else:
        raise ValueError("Invalid choice of `what`")
    if plotpath is not None:
        rsq = np.corrcoef(np.log10(mean), np.log10(truth))[0, 1] ** 2
        bias = np.mean(np.log10(mean) - np.log10(truth))
        pt1 = (truth.mean(), truth.mean())
        pt2 = (truth.mean() + 1, truth.mean() + 1)
        info = f"$r^2 = {rsq:0.3f}$\n$\\mathrm{{bias}} = {bias:0.3f}$"
        plt.hexbin(truth, mean, xscale="log", yscale="log", mincnt=1)
        plt.text(0.01, 0.99, info, ha="left", va="top", transform=plt.gca().transAxes)
        plt.axline(pt1, pt2, linestyle="--", color="firebrick")
        if what != "midpoint":
            plt.xlabel("True node age")
            plt.ylabel("Estimated node age")
        else:
            plt.xlabel("True mutation age (branch midpoint)")
            plt.ylabel("Estimated mutation age (branch midpoint)")
        if title is not None:
            plt.title(title)
        plt.tight_layout()
        plt.savefig(plotpath)
        plt.clf()
    return truth, mean


def afs_bias(ts, mutation_rate, plotpath=None, polarised=True):
    """
    Calculate site and branch allele frequency spectra across windows, where
    adjacent AFS bins are pooled. Optionally produce a scatterplot for each
    pooled bin. Optionally truncate the AFS at a given `max_freq`.
    """
    ts_trim = ts.trim()
    site_afs = ts_trim.allele_frequency_spectrum(
        mode="site", span_normalise=False, polarised=polarised
    )
    branch_afs = mutation_rate * ts_trim.allele_frequency_spectrum(
        mode="branch", span_normalise=False, polarised=polarised
    )
    if plotpath is not None:
        plt.scatter(np.arange(site_afs.size), site_afs, c="black", s=8)
        plt.scatter(np.arange(site_afs.size), branch_afs, c="firebrick", s=8)
        plt.xlabel("Mutation frequency")
        plt.ylabel("# mutations")
        plt.yscale("log")
        plt.savefig(plotpath)
        plt.clf()
    return site_afs, branch_afs


def allele_frequency_spectra(
    ts,
    mutation_rate,
    plotpath=None,
    title=None,
    max_freq=None,
    num_bins=9,
    num_windows=500,
    polarised=True,
    size_biased=False,
):
    """
    Calculate site and branch allele frequency spectra across windows, where
    adjacent AFS bins are pooled. Optionally produce a scatterplot for each
    pooled bin. Optionally truncate the AFS at a given `max_freq`.
    """

    if max_freq is None:
        max_freq = -1
    ts_trim = ts.trim()
    windows = np.linspace(0, ts_trim.sequence_length, num_windows + 1)
    if size_biased:
        bin_sizes = np.tile(np.arange(ts.num_samples + 1), (num_windows, 1))
    else:
        bin_sizes = np.ones((num_windows, ts.num_samples + 1))
    site_afs = bin_sizes * ts_trim.allele_frequency_spectrum(
        mode="site", windows=windows, span_normalise=False, polarised=polarised
    )
    site_afs = site_afs[:, 1:max_freq]
    branch_afs = (
        mutation_rate
        * bin_sizes
        * ts_trim.allele_frequency_spectrum(
            mode="branch", windows=windows, span_normalise=False, polarised=polarised
        )
    )
    branch_afs = branch_afs[:, 1:max_freq]
    dim = isqrt(num_bins)
    num_bins = dim * dim
    cumulative = np.arange(0, branch_afs.shape[1], dtype=np.float64)
    cumulative /= cumulative[-1]
    bins = np.linspace(0, 1, num_bins + 1)
    bins = np.searchsorted(cumulative, bins, side="right") - 1
    if plotpath is not None:
        fig, axs = plt.subplots(dim, dim, squeeze=0)
        fudge = 90 / 100
        for i, j, ax in zip(bins[:-1], bins[1:], axs.reshape(-1)):
            obs = site_afs[:, i:j].sum(axis=1)
            exp = branch_afs[:, i:j].sum(axis=1)
            ax.text(
                0.02,
                0.98,
                f"{i + 1}:{j + 1}",
                ha="left",
                va="top",
                transform=ax.transAxes,
                size=8,
            )
            ax.set_xticks(np.linspace(exp.min(), exp.max(), 3))
            ax.set_yticks(np.linspace(obs.min(), obs.max(), 3))
            ax.set_xlim(exp.min() * fudge, exp.max() / fudge)
            ax.set_ylim(obs.min() * fudge, obs.max() / fudge)
            ax.tick_params(labelsize=8)
            ax.scatter(exp, obs, color="firebrick", s=4)
            ax.axline(
                (np.mean(obs), np.mean(obs)), slope=1, linestyle="--", color="black"
            )
        fig.supylabel("Observed # sites in window")
        fig.supxlabel("Expected # sites in window")
        if title is not None:
            fig.suptitle(title)
        plt.tight_layout()
        plt.savefig(plotpath)
        plt.clf()
    return site_afs, branch_afs
