# MIT License
#
# Copyright (c) 2020 University of Oxford
#
# Permission is hereby granted, free of charge, to any person obtaining a copy
# of this software and associated documentation files (the "Software"), to deal
# in the Software without restriction, including without limitation the rights
# to use, copy, modify, merge, publish, distribute, sublicense, and/or sell
# copies of the Software, and to permit persons to whom the Software is
# furnished to do so, subject to the following conditions:
#
# The above copyright notice and this permission notice shall be included in
# all copies or substantial portions of the Software.
#
# THE SOFTWARE IS PROVIDED "AS IS", WITHOUT WARRANTY OF ANY KIND, EXPRESS OR
# IMPLIED, INCLUDING BUT NOT LIMITED TO THE WARRANTIES OF MERCHANTABILITY,
# FITNESS FOR A PARTICULAR PURPOSE AND NONINFRINGEMENT. IN NO EVENT SHALL THE
# AUTHORS OR COPYRIGHT HOLDERS BE LIABLE FOR ANY CLAIM, DAMAGES OR OTHER
# LIABILITY, WHETHER IN AN ACTION OF CONTRACT, TORT OR OTHERWISE, ARISING FROM,
# OUT OF OR IN CONNECTION WITH THE SOFTWARE OR THE USE OR OTHER DEALINGS IN THE
# SOFTWARE.
"""
Utility functions for tsdate. Many of these can be removed when tskit is updated to
a more recent version which has the functionality built-in
"""

import json
import logging
import time

import numpy as np
import tskit
from numba.types import UniTuple as _unituple  # NOQA: N813

import tsdate

from . import provenance
from .accelerate import numba_jit
from .approx import _b, _b1r, _f, _f1r, _f1w, _i, _i1r, _i1w

logger = logging.getLogger(__name__)


def reduce_to_contemporaneous(ts):
    """
    Simplify the ts to only the contemporaneous samples, and return the new ts + node map
    """
    samples = ts.samples()
    contmpr_samples = samples[ts.nodes_time[samples] == 0]
    return ts.simplify(
        contmpr_samples,
        map_nodes=True,
        keep_unary=True,
        filter_populations=False,
        filter_sites=False,
        record_provenance=False,
        filter_individuals=False,
    )


def preprocess_ts(
    tree_sequence,
    *,
    minimum_gap=None,
    erase_flanks=None,
    delete_intervals=None,
    split_disjoint=None,
    filter_populations=False,
    filter_individuals=False,
    filter_sites=False,
    record_provenance=None,
    # deprecated arguments
    remove_telomeres=None,
    **kwargs,
):
    """
    Function to prepare tree sequences for dating by modifying the tree sequence
    to increase the accuracy of dating. This can involve removing data-poor regions,
    removing locally-unary segments of nodes via simplification, and splitting
    discontinuous nodes.

    :param tskit.TreeSequence tree_sequence: The input tree sequence
        to be preprocessed.
    :param float minimum_gap: The minimum gap between sites to remove from the tree
        sequence. Default: ``None`` treated as ``1000000``. Removed regions are recorded
        in the provenance of the resulting tree sequence.
    :param bool erase_flanks: Should all material before the first site and after the
        last site be removed, regardless of the length. Default: ``None`` treated as
        ``True``
    :param array_like delete_intervals: A list (start, end) pairs describing the
        genomic intervals (gaps) to delete. This is usually left as ``None``
        (the default) in which case ``minimum_gap`` and ``erase_flanks`` are used
        to determine the gaps to remove, and the calculated intervals are recorded in
        the provenance of the resulting tree sequence.
    :param bool split_disjoint: Run the {func}`split_disjoint_nodes` function
        on the returned tree sequence, breaking any disjoint node into nodes that can
        be dated separately (Default: ``None`` treated as ``True``).
    :param bool filter_populations: parameter passed to the
        {meth}`tskit.TreeSequence.simplify` command. Unlike calling that command
        directly, this defaults to ``False``, such that all populations in the tree
        sequence are kept.
    :param bool filter_individuals: parameter passed to the
        {meth}`tskit.TreeSequence.simplify` command. Unlike calling that command
        directly, this defaults to ``False``, such
        that all individuals in the tree sequence are kept.
    :param bool filter_sites: parameter passed to the
        {meth}`tskit.TreeSequence.simplify` command. Unlike calling that command
        directly, this defaults to ``False``, such
        that all sites in the tree sequence are kept.
    :param bool record_provenance: If ``True``, record details of this call to
        simplify in the returned tree sequence's provenance information
        (Default: ``None`` treated as ``True``).
    :param bool remove_telomeres: Deprecated alias for ``erase_flanks``.
    :param \\**kwargs: All further keyword arguments are passed to the
        {meth}`tskit.TreeSequence.simplify` command.

    :return: A tree sequence with gaps removed and disjoint node segments split.
    :rtype: tskit.TreeSequence
    """

    logger.info("Beginning preprocessing")
    start_time = time.time()
    if split_disjoint is None:
        split_disjoint = True
    if record_provenance is None:
        record_provenance = True
    if remove_telomeres is not None:
        if erase_flanks is None:
            erase_flanks = remove_telomeres
        else:
            raise ValueError("Cannot specify both remove_telomeres and erase_flanks")
    logger.info(f"Minimum_gap: {minimum_gap} and erase_flanks: {erase_flanks}")
    if delete_intervals is not None and (
        minimum_gap is not None or erase_flanks is not None
    ):
        raise ValueError(
            "Cannot specify both delete_intervals and minimum_gap/erase_flanks"
        )

    tables = tree_sequence.dump_tables()
    sites = tables.sites.position[:]
    if delete_intervals is None:
        if minimum_gap is None:
            minimum_gap = 1000000
        if erase_flanks is None:
            erase_flanks = True

        if tree_sequence.num_sites < 1:
            raise ValueError("Invalid tree sequence: no sites present")
        delete_intervals = []
        if erase_flanks:
            first_site = sites[0] - 1
            if first_site > 0:
                delete_intervals.append([0, first_site])
                logger.info(
                    "REMOVING TELOMERE: Snip topology "
                    f"from 0 to first site at {first_site}."
                )
            last_site = sites[-1] + 1
            sequence_length = tables.sequence_length
            if last_site < sequence_length:
                delete_intervals.append([last_site, sequence_length])
                logger.info(
                    "REMOVING TELOMERE: Snip topology "
                    f"from {last_site} to end of sequence at {sequence_length}."
                )
        gaps = sites[1:] - sites[:-1]
        threshold_gaps = np.where(gaps >= minimum_gap)[0]
        for gap in threshold_gaps:
            gap_start = sites[gap] + 1
            gap_end = sites[gap + 1] - 1
            if gap_end > gap_start:
                logger.info(
                    f"Gap Size is {gap_end - gap_start}. Snip topology "
                    f"from {gap_start} to {gap_end}."
                )
                delete_intervals.append([gap_start, gap_end])
        delete_intervals = sorted(delete_intervals, key=lambda x: x[0])
    if len(delete_intervals) > 0:
        tables.delete_intervals(delete_intervals, simplify=False, record_provenance=False)
        tables.simplify(
            filter_populations=filter_populations,
            filter_individuals=filter_individuals,
            filter_sites=filter_sites,
            record_provenance=False,
            **kwargs,
        )
    else:
        logger.info("No gaps to remove")
        tables.simplify(
            filter_populations=filter_populations,
            filter_individuals=filter_individuals,
            filter_sites=filter_sites,
            record_provenance=False,
            **kwargs,
        )
    tables.sort()
    if split_disjoint:
        ts = split_disjoint_nodes(tables.tree_sequence(), record_provenance=False)
        logger.info(
            f"Split disjoint node segments from {tables.nodes.num_rows} "
            f"nodes into {ts.num_nodes} nodes"
        )
        tables = ts.dump_tables()
    if record_provenance:
        provenance.record_provenance(
            tables,
            "preprocess_ts",
            start_time=start_time,
            minimum_gap=minimum_gap,
            erase_flanks=erase_flanks,
            split_disjoint=split_disjoint,
            filter_populations=filter_populations,
            filter_individuals=filter_individuals,
            filter_sites=filter_sites,
            delete_intervals=delete_intervals,
        )
    return tables.tree_sequence()


def nodes_time_unconstrained(tree_sequence):
    """
    Return the unconstrained node times for every node in a tree sequence that has
    been dated using ``tsdate`` with the inside-outside algorithm (these times are
    stored in the node metadata). Will produce an error if the tree sequence does
    not contain this information.
    """
    nodes_time = tree_sequence.nodes_time.copy()
    metadata = tree_sequence.tables.nodes.metadata
    metadata_offset = tree_sequence.tables.nodes.metadata_offset
    for index, met in enumerate(tskit.unpack_bytes(metadata, metadata_offset)):
        if index not in tree_sequence.samples():
            try:
                nodes_time[index] = json.loads(met.decode())["mn"]
            except (KeyError, json.decoder.JSONDecodeError) as err:
                raise ValueError(
                    "Tree Sequence must be tsdated with the Inside-Outside Method."
                ) from err
    return nodes_time


def sites_time_from_ts(
    tree_sequence, *, unconstrained=True, node_selection="child", min_time=1
):
    """
    Returns an estimated "time" for each site. This is the estimated age of the oldest
    MRCA which possesses a derived variant at that site, and is useful for performing
    (re)inference of a tree sequence. It is calculated from the ages of nodes, with the
    appropriate nodes identified by the position of mutations in the trees.

    If node times in the tree sequence have been estimated by ``tsdate`` using the
    inside-outside algorithm, then as well as a time in the tree sequence, nodes will
    store additional time estimates that have not been explictly constrained by the
    tree topology. By default, this function tries to use these "unconstrained" times,
    although this is likely to fail (with a warning) on tree sequences that have not
    been processed by ``tsdate``: in this case the standard node times can be used by
    setting ``unconstrained=False``.

    The concept of a site time is meaningless for non-variable sites, and
    so the returned time for these sites is ``np.nan`` (note that this is not exactly
    the same as tskit.UNKNOWN_TIME, which marks sites that could have a meaningful time
    but whose time estimate is unknown).

    :param tskit.TreeSequence tree_sequence: The input tree sequence.
    :param bool unconstrained: Use estimated node times which have not been constrained
        by tree topology. If ``True`` (default), this requires a tree sequence which has
        been dated using the ``tsdate`` inside-outside algorithm. If this is not the
        case, specify ``False`` to use the standard tree sequence node times.
    :param str node_selection: Defines how site times are calculated from the age of
        the upper and lower nodes that bound each mutation at the site. Options are
        "child", "parent", "arithmetic" or "geometric", with the following meanings

        * ``'child'`` (default): the site time is the age of the oldest node
          *below* each mutation at the site
        * ``'parent'``: the site time is the age of the oldest node *above* each
          mutation at the site
        * ``'arithmetic'``: the arithmetic mean of the ages of the node above and the
          node below each mutation is calculated; the site time is the oldest
          of these means.
        * ``'geometric'``: the geometric mean of the ages of the node above and the
          node below each mutation is calculated; the site time is the oldest
          of these means

    :param float min_time: A site time of zero implies that no MRCA in the past
        possessed the derived variant, so the variant cannot be used for inferring
        relationships between the samples. To allow all variants to be potentially
        available for inference, if a site time would otherwise be calculated as zero
        (for example, where the ``mutation_age`` parameter is "child" or "geometric"
        and all mutations at a site are associated with leaf nodes), a minimum site
        greater than 0 is recommended. By default this is set to 1, which is generally
        reasonable for times measured in generations or years, although it is also
        fine to set this to a small epsilon value.

    :return: Array of length tree_sequence.num_sites with estimated time of each site
    :rtype: numpy.ndarray(dtype=np.float64)
    """
    if tree_sequence.num_sites < 1:
        raise ValueError("Invalid tree sequence: no sites present")
    if node_selection not in ["arithmetic", "geometric", "child", "parent"]:
        raise ValueError(
            "The node_selection parameter must be "
            "'child', 'parent', 'arithmetic', or 'geometric'"
        )
    if unconstrained:
        try:
            nodes_time = nodes_time_unconstrained(tree_sequence)
        except ValueError as e:
            e.args += ("Try calling sites_time_from_ts() with unconstrained=False.",)
            raise
    else:
        nodes_time = tree_sequence.nodes_time
    sites_time = np.full(tree_sequence.num_sites, np.nan)

    for tree in tree_sequence.trees():
        for site in tree.sites():
            for mutation in site.mutations:
                parent_node = tree.parent(mutation.node)
                if node_selection == "child" or parent_node == tskit.NULL:
                    age = nodes_time[mutation.node]
                else:
                    parent_age = nodes_time[parent_node]
                    if node_selection == "parent":
                        age = parent_age
                    elif node_selection == "arithmetic":
                        age = (nodes_time[mutation.node] + parent_age) / 2
                    elif node_selection == "geometric":
                        age = np.sqrt(nodes_time[mutation.node] * parent_age)
                if np.isnan(sites_time[site.id]) or sites_time[site.id] < age:
                    sites_time[site.id] = age
            if sites_time[site.id] < min_time:
                sites_time[site.id] = min_time
    return sites_time


def add_sampledata_times(samples, sites_time):
    """
    Return a tsinfer.SampleData file with estimated times associated with sites.
    Ensures that each site's time is at least as old as the oldest historic sample
    carrying a derived allele at that site.

    :param samples: A tsinfer SampleData object to
        add site times to. Any historic individuals in this SampleData file are used to
        constrain site times.

    :return: A copy of the input sample data with site times added
    """
    if samples.num_sites != len(sites_time):
        raise ValueError(
            "sites_time should contain the same number of sites as the SampleData file"
        )
    # Get constraints from ancients
    sites_bound = samples.min_site_times(individuals_only=True)
    # Use maximum of constraints and estimated site times
    sites_time = np.maximum(sites_time, sites_bound)
    copy = samples.copy()
    copy.sites_time[:] = sites_time
    copy.finalise()
    return copy


def mutation_span_array(tree_sequence):
    """Extract mutation counts and spans per edge into a two-column array"""
    mutation_spans = np.zeros((tree_sequence.num_edges, 2))
    mutation_edges = np.zeros(tree_sequence.num_mutations, dtype=np.int32)
    for mut in tree_sequence.mutations():
        mutation_edges[mut.id] = mut.edge
        if mut.edge != tskit.NULL:
            mutation_spans[mut.edge, 0] += 1
    for edge in tree_sequence.edges():
        mutation_spans[edge.id, 1] = edge.span
    return mutation_spans, mutation_edges


# Some functions for changing tskit metadata
# See https://github.com/tskit-dev/tskit/discussions/2954
# TODO - potentially possible to speed up using numba?
def _reorder_nodes(node_table, order, extra_md_dict):
    # extra_md_dict ({rowid: new_byte_metadata}) can be used to pass metadata to replace
    # the existing metadata in a row. This works by creating new rows for the metadata,
    # based on the algorithm in https://github.com/tskit-dev/tskit/discussions/2954
    data = [node_table.metadata]
    # add a list of new byte arrays, then concat
    md_dtype, md_off_dtype = node_table.metadata.dtype, node_table.metadata_offset.dtype
    data += [np.array(bytearray(v), dtype=md_dtype) for v in extra_md_dict.values()]
    md = np.concatenate(data)
    if len(md) == 0:  # Common edge case: no metadata
        md_off = np.zeros(len(order) + 1, dtype=md_off_dtype)
    else:
        extra_offsets = np.cumsum([len(d) for d in data], dtype=md_off_dtype)[1:]
        md_off = np.concatenate((node_table.metadata_offset, extra_offsets))
        arr = tskit.unpack_arrays(md, md_off)
        if len(extra_md_dict) > 0:
            # map the keys in extra_md_dict to the new row ids
            d = {k: i + node_table.num_rows for i, k in enumerate(extra_md_dict.keys())}
            md, md_off = tskit.pack_arrays([arr[d.get(i, i)] for i in order], md_dtype)
        else:
            md, md_off = tskit.pack_arrays([arr[i] for i in order], md_dtype)
    node_table.set_columns(
        flags=node_table.flags[order],
        time=node_table.time[order],
        population=node_table.population[order],
        individual=node_table.individual[order],
        metadata=md,
        metadata_offset=md_off,
    )


@numba_jit(_unituple(_i1w, 4)(_i1r, _i1r, _f1r, _f1r, _b1r))
def _split_disjoint_nodes(
    edges_parent, edges_child, edges_left, edges_right, node_excluded
):
    """
    Split disconnected regions of nodes into separate nodes.

    Returns updated edges_parent, edges_child, mutations_node, and indices indicating
    from which original node the new nodes are derived.
    """
    assert edges_parent.size == edges_child.size == edges_left.size == edges_right.size
    num_edges = edges_parent.size
    num_nodes = node_excluded.size

    # For each edge, check whether parent/child is separated by a gap from the
    # previous edge involving either parent/child. Label disconnected segments
    # per node by integers starting at zero.
    edges_order = np.argsort(edges_left)
    # TODO: is a sort really needed here?
    edges_segments = np.full((2, num_edges), -1, dtype=np.int32)
    nodes_segments = np.full(num_nodes, -1, dtype=np.int32)
    nodes_right = np.full(node_excluded.size, -np.inf, dtype=np.float64)
    for e in edges_order:
        nodes = edges_parent[e], edges_child[e]
        for i, n in enumerate(nodes):
            if node_excluded[n]:
                continue
            nodes_segments[n] += edges_left[e] > nodes_right[n]
            edges_segments[i, e] = nodes_segments[n]
            nodes_right[n] = max(nodes_right[n], edges_right[e])

    # Create "nodes_segments[i]" supplementary nodes by copying node "i".
    # Store the id of the first supplement for each node in "nodes_map".
    split_nodes = []  # the nodes in the original that were split
    nodes_map = np.full(num_nodes, -1, dtype=np.int32)
    for i, s in enumerate(nodes_segments):
        for j in range(s):
            if j == 0:
                nodes_map[i] = num_nodes
            split_nodes.append(i)
            num_nodes += 1
    split_nodes = np.array(split_nodes, dtype=np.int32)
    nodes_order = np.arange(num_nodes, dtype=np.int32)
    if len(split_nodes) > 0:
        nodes_order[-len(split_nodes) :] = split_nodes

    # Relabel the nodes on each edge given "nodes_map"
    for e in edges_order:
        nodes = edges_parent[e], edges_child[e]
        for i, n in enumerate(nodes):
            if edges_segments[i, e] > 0:
                edges_segments[i, e] += nodes_map[n] - 1
            else:
                edges_segments[i, e] = n
    edges_parent, edges_child = edges_segments[0, ...], edges_segments[1, ...]

    return edges_parent, edges_child, nodes_order, split_nodes


@numba_jit(_i1w(_i1r, _f1r, _i1r, _i1r, _i1r, _f1r, _f1r, _i1r, _i1r))
def _relabel_mutations_node(
    mutations_node,
    mutations_position,
    nodes_order,
    edges_parent,
    edges_child,
    edges_left,
    edges_right,
    insert_index,
    remove_index,
):
    """
    Traverse trees, maintaining a mapping between old and new node IDs in the
    current tree.  Update `mutations_node` to reflect new IDs.
    """
    assert edges_parent.size == edges_child.size == edges_left.size == edges_right.size
    assert edges_parent.size == insert_index.size == remove_index.size
    assert mutations_position.size == mutations_node.size

    num_nodes = nodes_order.size
    num_edges = edges_parent.size
    num_mutations = mutations_position.size

    insert_position = edges_left[insert_index]
    remove_position = edges_right[remove_index]
    sequence_length = remove_position[-1] if num_edges > 0 else 0.0

    output = np.full(num_mutations, tskit.NULL, dtype=np.int32)
    # a node that has no edge (yet) keeps its id, e.g. a mutation above an isolated sample
    nodes_map = np.arange(num_nodes, dtype=np.int32)
    a, b, m = 0, 0, 0
    left = 0.0
    while left < sequence_length:
        while b < num_edges and remove_position[b] == left:  # edges out
            b += 1

        while a < num_edges and insert_position[a] == left:  # edges in
            e = insert_index[a]
            c, p = edges_child[e], edges_parent[e]
            nodes_map[nodes_order[c]] = c
            nodes_map[nodes_order[p]] = p
            a += 1

        right = sequence_length
        if b < num_edges:
            right = min(right, remove_position[b])
        if a < num_edges:
            right = min(right, insert_position[a])
        left = right

        while m < num_mutations and mutations_position[m] < right:
            assert nodes_map[mutations_node[m]] != tskit.NULL
            output[m] = nodes_map[mutations_node[m]]
            m += 1

    while m < num_mutations:  # sites at or beyond the right end of the last edge
        output[m] = nodes_map[mutations_node[m]]
        m += 1

    return output


def split_disjoint_nodes(ts, *, record_provenance=None):
    """
    For each non-sample node, split regions separated by gaps into distinct
    nodes, returning a tree sequence with potentially duplicated nodes.

    Where there are multiple disconnected regions, the leftmost one is assigned
    the ID of the original node, and the remainder are assigned new node IDs.
    Population, flags, individual, time, and metadata are all copied into the
    new nodes. Nodes that have been split will be flagged with
    ``tsdate.NODE_SPLIT_BY_PREPROCESS``. The metadata of these nodes will also be
    updated with an `unsplit_node_id` field giving the node ID in the input tree
    sequence to which they correspond. If this metadata cannot be set, a warning
    is emitted.

    :param bool record_provenance: If ``True``, record details of this call in the
        returned tree sequence's provenance information (Default: ``None`` treated
        as ``True``).
    """
    metadata_key = "unsplit_node_id"
    start_time = time.time()
    if record_provenance is None:
        record_provenance = True
    node_is_sample = np.bitwise_and(ts.nodes_flags, tskit.NODE_IS_SAMPLE).astype(bool)
    edges_parent, edges_child, nodes_order, split_nodes = _split_disjoint_nodes(
        ts.edges_parent,
        ts.edges_child,
        ts.edges_left,
        ts.edges_right,
        node_is_sample,
    )

    mutations_node = _relabel_mutations_node(
        ts.mutations_node,
        ts.sites_position[ts.mutations_site],
        nodes_order,
        edges_parent,
        edges_child,
        ts.edges_left,
        ts.edges_right,
        ts.indexes_edge_insertion_order,
        ts.indexes_edge_removal_order,
    )
    tables = ts.dump_tables()

    # Update the nodes table (complex because we have made new nodes)
    flags = tables.nodes.flags
    flags[split_nodes] |= tsdate.NODE_SPLIT_BY_PREPROCESS
    tables.nodes.flags = flags
    extra_md = {}
    try:
        for u in split_nodes:
            md = ts.node(u).metadata
            md[metadata_key] = int(u)
            extra_md[u] = tables.nodes.metadata_schema.validate_and_encode_row(md)
    except (TypeError, tskit.MetadataValidationError):
        logger.warning(f"Could not set '{metadata_key}' on node metadata")
    _reorder_nodes(tables.nodes, nodes_order, extra_md)
    # Update the edges table
    tables.edges.parent = edges_parent
    tables.edges.child = edges_child
    # Update the mutations table
    tables.mutations.node = mutations_node
    tables.sort()
    tables.build_index()
    tables.compute_mutation_parents()
    if record_provenance:
        provenance.record_provenance(
            tables,
            "split_disjoint_nodes",
            start_time=start_time,
        )
    return tables.tree_sequence()


@numba_jit(_f1w(_f1r, _b1r, _i1r, _i1r, _f, _i))
def _constrain_ages(
    nodes_time, nodes_fixed, edges_parent, edges_child, epsilon, max_iterations
):
    """
    Approximate least squares solution to the positive branch length
    constraint, using the method of alternating projections. Loosely based on
    Dykstra's algorithm, see:

    Dykstra RL, "An algorithm for restricted least squares regression", JASA
    1983
    """
    assert nodes_time.size == nodes_fixed.size
    assert edges_parent.size == edges_child.size

    num_edges = edges_parent.size
    nodes_time = nodes_time.copy()
    edges_cavity = np.zeros((num_edges, 2))
    for _ in range(max_iterations):  # method of alternating projections
        if np.all(nodes_time[edges_parent] - nodes_time[edges_child] > epsilon):
            return nodes_time
        for e in range(num_edges):
            p, c = edges_parent[e], edges_child[e]
            nodes_time[c] -= edges_cavity[e, 0]
            nodes_time[p] -= edges_cavity[e, 1]
            adjustment = nodes_time[c] - nodes_time[p]  # + epsilon
            edges_cavity[e, :] = 0.0
            if adjustment > 0:
                assert not (nodes_fixed[c] and nodes_fixed[p])
                if not nodes_fixed[c] and not nodes_fixed[p]:
                    edges_cavity[e, 0] = -adjustment / 2
                    edges_cavity[e, 1] = adjustment / 2
                elif nodes_fixed[c] and not nodes_fixed[p]:
                    edges_cavity[e, 0] = 0
                    edges_cavity[e, 1] = adjustment
                elif not nodes_fixed[c] and nodes_fixed[p]:
                    edges_cavity[e, 0] = -adjustment
                    edges_cavity[e, 1] = 0
            nodes_time[c] += edges_cavity[e, 0]
            nodes_time[p] += edges_cavity[e, 1]
    # print(
    #   "min length:", np.min(nodes_time[edges_parent] - nodes_time[edges_child])
    # )

    # force remaining constraint, which can change the ages of fixed nodes
    for e in range(num_edges):
        p, c = edges_parent[e], edges_child[e]
        # TODO: even if nodes_fixed[p], this will still change the age
        if nodes_time[c] + epsilon >= nodes_time[p]:
            # `c + epsilon` rounds to `c` when epsilon is below the spacing of
            # doubles at `c`, so also step to the next representable value
            nodes_time[p] = max(
                nodes_time[c] + epsilon, np.nextafter(nodes_time[c], np.inf)
            )

    return nodes_time


def constrain_ages(ts, nodes_time, epsilon=1e-6, max_iterations=0):
    """
    Use a hybrid approach to adjust node times such that branch lengths are
    positive. The first pass iteratively solves a constrained least squares
    problem that seeks to find constrained ages as close as possible to
    unconstrained ages. Progress is initially fast but typically becomes quite
    slow, so after a fixed number of iterations the iterative algorithm
    terminates and the constraint is forced.

    :param tskit.TreeSequence ts: The input tree sequence, with arbitrary node
        times.
    :param np.ndarray nodes_time: Unconstrained node ages to inject into the
        tree sequence.
    :param float epsilon: The minimum allowed branch length when forcing
        positive branch lengths.
    :param int max_iterations: The number of iterations of alternating
        projections before forcing positive branch lengths.

    :return np.ndarray: Constrained node ages
    """

    assert nodes_time.size == ts.num_nodes
    assert epsilon >= 0
    assert max_iterations >= 0

    nodes_fixed = np.bitwise_and(ts.nodes_flags, tskit.NODE_IS_SAMPLE).astype(bool)
    constrained_nodes_time = _constrain_ages(
        nodes_time,
        nodes_fixed,
        ts.edges_parent,
        ts.edges_child,
        epsilon,
        max_iterations,
    )
    modified = np.sum(~np.isclose(nodes_time, constrained_nodes_time))
    logging.info(f"Modified ages of {modified} nodes to satisfy constraints")

    return constrained_nodes_time


@numba_jit(_b(_b1r, _i1r, _f1r, _f1r, _i1r, _i1r, _f, _i))
def _contains_unary_nodes(
    nodes_mask,
    edges_parent,
    edges_left,
    edges_right,
    indexes_insert,
    indexes_remove,
    sequence_length,
    num_nodes,
):
    assert edges_parent.size == edges_left.size == edges_right.size
    assert indexes_insert.size == indexes_remove.size == edges_parent.size

    num_edges = edges_parent.size
    nodes_children = np.zeros(num_nodes, dtype=np.int32)
    position_insert = edges_left[indexes_insert]
    position_remove = edges_right[indexes_remove]

    left = 0.0
    a, b = 0, 0
    while a < num_edges or b < num_edges:
        check = set()

        while b < num_edges and position_remove[b] == left:  # edges out
            e = indexes_remove[b]
            p = edges_parent[e]
            nodes_children[p] -= 1
            check.add(p)
            b += 1

        while a < num_edges and position_insert[a] == left:  # edges in
            e = indexes_insert[a]
            p = edges_parent[e]
            nodes_children[p] += 1
            check.add(p)
            a += 1

        for p in check:
            if not nodes_mask[p] and nodes_children[p] == 1:
                return True

        right = sequence_length
        if b < num_edges:
            right = min(right, position_remove[b])
        if a < num_edges:
            right = min(right, position_insert[a])
        left = right

    return False


def contains_unary_nodes(ts, skip_samples=True):
    """
    Check if any internal node in the tree sequence is unary over some portion
    of its span.  If `skip_samples` is `True`, then sample nodes that are unary
    and internal will be ignored.
    """

    nodes_mask = np.full(ts.num_nodes, False)
    if skip_samples:
        nodes_mask[list(ts.samples())] = True

    return _contains_unary_nodes(
        nodes_mask,
        ts.edges_parent,
        ts.edges_left,
        ts.edges_right,
        ts.indexes_edge_insertion_order,
        ts.indexes_edge_removal_order,
        ts.sequence_length,
        ts.num_nodes,
    )


def transform_coordinates_by_ratemap(
    ts: tskit.TreeSequence,
    ratemap: tskit.RateMap,
) -> tskit.TreeSequence:
    # Return a copy of the tree sequence in the coordinate system created by `y =
    # ratemap.get_cumulative_mass(x)`. Zero-length edges in the new coordinate
    # system are removed, as are any sites and mutations that fall within
    # intervals with zero or NaN rates. All nodes are retained, even if they are
    # disconnected in the transformed tree sequence.
    assert ratemap.sequence_length == ts.sequence_length, "Ratemap has the wrong length"

    tab = ts.dump_tables()
    tab.sequence_length = ratemap.get_cumulative_mass(ts.sequence_length)
    tab.edges.left = ratemap.get_cumulative_mass(tab.edges.left)
    tab.edges.right = ratemap.get_cumulative_mass(tab.edges.right)
    tab.edges.keep_rows(tab.edges.right > tab.edges.left)

    site_map = tab.sites.keep_rows(ratemap.get_rate(tab.sites.position) > 0.0)
    tab.sites.position = ratemap.get_cumulative_mass(tab.sites.position)
    tab.mutations.site = site_map[tab.mutations.site]
    tab.mutations.keep_rows(tab.mutations.site != tskit.NULL)  # updates parent column

    return tab.tree_sequence()
