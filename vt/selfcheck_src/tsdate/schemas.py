# MIT License
#
# Copyright (c) 2024 Tskit Developers
#
# Permission is hereby granted, free of charge, to any person obtaining a copy
# of this software and associated documentation files (the "Software"), to deal
# in the Software without restriction, including without limitation the rights
# to use, copy, modify, merge, publish, distribute, sublicense, and/or sell
# copies of the Software, and to permit persons to whom the Software is
# furnished to do so, subject to the following conditions:
#
# The above copyright notice and this permission notice shall be included in all
# copies or substantial portions of the Software.
#
# THE SOFTWARE IS PROVIDED "AS IS", WITHOUT WARRANTY OF ANY KIND, EXPRESS OR
# IMPLIED, INCLUDING BUT NOT LIMITED TO THE WARRANTIES OF MERCHANTABILITY,
# FITNESS FOR A PARTICULAR PURPOSE AND NONINFRINGEMENT. IN NO EVENT SHALL THE
# AUTHORS OR COPYRIGHT HOLDERS BE LIABLE FOR ANY CLAIM, DAMAGES OR OTHER
# LIABILITY, WHETHER IN AN ACTION OF CONTRACT, TORT OR OTHERWISE, ARISING FROM,
# OUT OF OR IN CONNECTION WITH THE SOFTWARE OR THE USE OR OTHER DEALINGS IN THE
# SOFTWARE.
"""
Metadata schemas used in tsdate, if no schema already provided
"""

import tskit

default_mutation_schema = tskit.MetadataSchema(
    {
        "codec": "json",
        "type": "object",
        "properties": {
            "mn": {
                "type": "number",
                "description": "Tsdate posterior mean mutation time",
            },
            "vr": {
                "type": "number",
                "description": "Tsdate posterior variance in mutation time",
            },
        },
    }
)

default_node_schema = tskit.MetadataSchema(
    {
        "codec": "json",
        "type": "object",
        "properties": {
            "mn": {"type": "number", "description": "Tsdate posterior mean node time"},
            "vr": {
                "type": "number",
                "description": "Tsdate posterior variance in node time",
            },
        },
    }
)
