# MIT License
#
# Copyright (c) 2020 University of Oxford
#
# Permission is hereby granted, free of charge, to any person obtaining a copy
# of this software and associated documentation files (the "Software"), to deal
# in the Software without restriction, including without limitation the rights
# to use, copy, modify, merge, publish, distribute, sublicense, and/or sell
# copies of the Software, and to permit persons to whom the Software is
# furnished to do so, subject to the following conditions:
#
# The above copyright notice and this permission notice shall be included in all
# copies or substantial portions of the Software.
#
# THE SOFTWARE IS PROVIDED "AS IS", WITHOUT WARRANTY OF ANY KIND, EXPRESS OR
# IMPLIED, INCLUDING BUT NOT LIMITED TO THE WARRANTIES OF MERCHANTABILITY,
# FITNESS FOR A PARTICULAR PURPOSE AND NONINFRINGEMENT. IN NO EVENT SHALL THE
# AUTHORS OR COPYRIGHT HOLDERS BE LIABLE FOR ANY CLAIM, DAMAGES OR OTHER
# LIABILITY, WHETHER IN AN ACTION OF CONTRACT, TORT OR OTHERWISE, ARISING FROM,
# OUT OF OR IN CONNECTION WITH THE SOFTWARE OR THE USE OR OTHER DEALINGS IN THE
# SOFTWARE.
from .cache import *  # noqa: F403
from .core import (
    date,  # NOQA: F401
    estimation_methods,  # NOQA: F401
    inside_outside,  # NOQA: F401
    maximization,  # NOQA: F401
    variational_gamma,  # NOQA: F401
)
from .prior import parameter_grid as build_parameter_grid  # NOQA: F401
from .prior import prior_grid as build_prior_grid  # NOQA: F401
from .provenance import __version__  # NOQA: F401
from .util import (
    add_sampledata_times,  # NOQA: F401
    preprocess_ts,  # NOQA: F401
    sites_time_from_ts,  # NOQA: F401
)

# Bit 20 is set in node flags when they are samples not at time zero in the sampledata
# file. This should match the node flag in tsinfer.

#: Node flag value indicating that this is a non-contemporary sample node
NODE_IS_HISTORICAL_SAMPLE = 1 << 20


# Since tsdate is often used together with tsinfer, we try not to use the tsinfer
# node flag constants here, and start from 1 << 30 rather than 1 << 16

#: Node flag value indicating that this was a disjoint node that was then split
NODE_SPLIT_BY_PREPROCESS = 1 << 30
