"""Calls: numpy primitives (assumed contracts A-NUMPY), builtins, spec functions, contract calls."""
import ast

import z3

from .values import (Cell, Closure, NoneVal, Obj, Ref, Unsupported, Vec, array_sort, fresh_name,
                     is_z3)
from .vc_expr import MaskedVec, Slice

I = z3.IntSort()

NUMPY_ASSUMED = {
    "np.zeros/ones/full/empty": "fresh array of the given shape, every element equal to the fill (empty: unconstrained)",
    "np.copy / x.copy()": "fresh array, same shape, elementwise equal",
    "np.all / np.any": "universal / existential quantification over the elements",
    "np.isnan / np.isfinite": "IEEE predicates (real mode: False / True)",
    "np.append(x, v) / np.append(v, x)": "fresh array of length n+1 with v at the end / start",
    "np.cumsum": "c[0]=x[0]; c[i]=c[i-1]+x[i] (float add in the mode's arithmetic, left to right)",
    "np.diff": "d[i]=x[i+1]-x[i], length n-1",
    "np.searchsorted(a, v, 'right')": "requires a non-decreasing (obligation); r in [0,n]; a[j]<=v for j<r; a[j]>v for j>=r",
    "np.linspace(0, 1, k+1)": "length k+1, L[0]=0, L[k]=1, non-decreasing, real mode: L[i]=i/k",
    "np.flatnonzero(mask)": "iteration visits exactly the indices with mask true, in increasing order",
    "np.sum": "uninterpreted recursive sum with unfolding axioms supplied as lemmas",
    "np.arange(n)": "a[i]=i",
    "x.astype(t)": "identity on integer-valued data",
    "np.argsort": "a permutation p of range(n) with x[p[i]] non-decreasing",
    "np.nextafter(x, inf)": "least double strictly greater than x (x finite or -inf); NaN -> NaN; +inf -> +inf",
    "np.unique": "sorted distinct values (strictly increasing), same set of values",
}


class CallMixin:
    def callname(self, f):
        if isinstance(f, ast.Name):
            return f.id
        if isinstance(f, ast.Attribute):
            base = self.callname(f.value) if isinstance(f.value, (ast.Name, ast.Attribute)) else None
            return f"{base}.{f.attr}" if base else None
        return None

    def ev_Call(self, st, node, spec):
        name = self.callname(node.func)
        ln = node.lineno
        args = node.args
        kw = {k.arg: k.value for k in node.keywords}

        # ---- spec-only functions (contract language)
        if spec and name in SPEC_FUNCS:
            return SPEC_FUNCS[name](self, st, node)
        if spec and name in self.contract.spec_funcs:
            vals = [self.ev(st, a, spec) for a in args]
            return self.contract.spec_funcs[name](self, st, *vals)

        # ---- method calls on values
        if isinstance(node.func, ast.Attribute) and not (isinstance(node.func.value, ast.Name) and node.func.value.id in ("np", "approx", "tskit", "math", "numba")):
            meth = node.func.attr
            if meth in ("copy", "astype", "min", "max", "sum", "append", "extend", "add", "reshape", "pop"):
                recv = self.ev(st, node.func.value, spec)
                return self.method(st, recv, meth, [self.ev(st, a, spec) for a in args], ln, node)

        # ---- closures / contract calls
        if name in st.vars and isinstance(st.vars[name], Closure):
            return self.call_closure(st, st.vars[name], [self.ev(st, a, spec) for a in args], ln)
        cname = self.resolve_callee(name)
        if cname in self.registry:
            vals = [self.ev(st, a, spec) for a in args]
            return self.call_contract(st, self.registry[cname], vals, ln)

        # ---- builtins
        if name == "len":
            v = self.ev(st, args[0], spec)
            if isinstance(v, Ref):
                return self.ref_shape(st, v)[0]
            if isinstance(v, Vec):
                return v.n
            if isinstance(v, tuple):
                return len(v)
            raise Unsupported("len")
        if name in ("max", "min"):
            vals = [self.ev(st, a, spec) for a in args]
            if len(vals) == 1:
                raise Unsupported("max/min of iterable")
            r = vals[0]
            for v in vals[1:]:
                r = self.pymax(st, r, v, ln) if name == "max" else self.pymin(st, r, v, ln)
            return r
        if name == "abs":
            v = self.ev(st, args[0], spec)
            if not is_z3(v):
                return abs(v)
            if self.kind(v) == "float":
                return z3.fpAbs(v) if self.mode.fp else z3.If(v >= 0, v, -v)
            return z3.If(v >= 0, v, -v)
        if name in ("float", "int", "bool"):
            v = self.ev(st, args[0], spec)
            if not is_z3(v):
                return {"float": float, "int": int, "bool": bool}[name](v)
            if name == "float":
                return self.to_float(v)
            if name == "bool":
                return self.to_bool(v)
            if self.kind(v) == "int":
                return v
            raise Unsupported("int() of float")
        if name == "range":
            vals = [self.ev(st, a, spec) for a in args]
            return ("range", vals)
        if name in ("enumerate", "zip"):
            return (name, [self.ev(st, a, spec) for a in args])
        if name == "set":
            return self.ev(st, args[0], spec) if args else ("emptyset",)
        if name == "tqdm":
            return self.ev(st, args[0], spec)

        # ---- numpy
        if name and name.startswith("np."):
            return self.numpy(st, name[3:], args, kw, ln, spec, node)
        if name in ("log", "math.log", "exp", "math.exp", "sqrt", "math.sqrt", "lgamma", "math.lgamma"):
            return self.transcendental(st, name.split(".")[-1], self.ev(st, args[0], spec), ln)
        raise Unsupported(f"call {ast.unparse(node.func)} (line {ln})")

    # ------------------------------------------------------------------ uninterpreted transcendental functions
    def ufun(self, name):
        f = self.mode.fsort
        return z3.Function(name, f, f)

    def transcendental(self, st, name, v, ln):
        if self.is_arraylike(v):
            vv = self.as_vec(st, v)
            return Vec(vv.n, lambda i: self.transcendental(st, name, vv.at(i), ln), "float")
        v = self.to_float(v)
        if name in ("log", "sqrt") and self.contract.div_side and not self.mode.fp and not self._suppress_side:
            self.ob(st, f"L{ln}:{name}-domain", "side", v > 0 if name == "log" else v >= 0, ln)
        return self.ufun("u_" + name)(v)

    # ------------------------------------------------------------------ methods
    def method(self, st, recv, meth, args, ln, node):
        if meth == "copy":
            if isinstance(recv, Ref):
                c = self.cell(st, recv)
                return st.alloc(self.ref_term(st, recv), self.ref_shape(st, recv), c.kind)
            if isinstance(recv, Vec):
                return self.materialize(st, recv, "copy")
        if meth == "astype":
            if isinstance(recv, Vec):
                return self.materialize(st, recv, "astype")
            return recv
        if meth in ("min", "max"):
            vv = self.as_vec(st, recv)
            r = z3.Const(fresh_name("ext"), self.mode.sort(vv.kind))
            j = z3.Int(fresh_name("j"))
            k = z3.Int(fresh_name("k"))
            op = "<=" if meth == "min" else ">="
            st.assume(z3.ForAll([j], z3.Implies(z3.And(j >= 0, j < vv.n),
                                                 self.to_bool(self.compare(st, op, r, vv.at(j), ln)))))
            st.assume(z3.Implies(vv.n > 0, z3.And(k >= 0, k < vv.n, r == vv.at(k))))
            return r
        if meth == "sum":
            return self.np_sum(st, recv, ln)
        raise Unsupported(f"method {meth}")

    # ------------------------------------------------------------------ closures
    def call_closure(self, st, clo, vals, ln):
        fn = clo.node
        saved = dict(st.vars)
        for p, v in zip(fn.args.args, vals):
            st.vars[p.arg] = v
        outs = self.exec_block(fn.body, st)
        rets = [(s, v) for s, f, v in outs if f == self.RETURN]
        others = [(s, f) for s, f, v in outs if f not in (self.RETURN, self.DEAD)]
        if len(outs) != 1 or len(rets) != 1:
            # multi-path closures: handled by forking in exec_call_stmt; not supported as expression
            raise ClosureFork(clo, vals, outs)
        s, v = rets[0]
        # st was mutated in place by exec_block (single path): restore locals
        st.vars = {**saved}
        return v

    # ------------------------------------------------------------------ contract calls
    def call_contract(self, st, callee, vals, ln):
        """Replace a call by the callee's contract: assert pre, havoc assigns, assume post."""
        sub = st.fork()
        sub.vars = {}
        sub.ghost = {}
        params = callee.params
        if len(vals) != len(params):
            raise Unsupported(f"arity mismatch calling {callee.name}")
        for p, v in zip(params, vals):
            if isinstance(v, Vec):
                v = self.materialize(sub, v, p)
                # definitional facts are global
            sub.vars[p] = v
        st.pc = list(sub.pc)
        st.heap.update({k: c for k, c in sub.heap.items() if k not in st.heap})
        sub.entry = dict(sub.vars)
        sub.entry_heap = {k: Cell(c.term, c.shape, c.kind) for k, c in sub.heap.items()}
        saved_contract, saved_consts = self.contract, self.consts
        self.contract = callee
        self.consts = {**saved_consts, **callee.consts}
        try:
            for k, clause in enumerate(callee.requires):
                g = self.spec_bool(sub, clause)
                self.ob(st, f"L{ln}:call:{callee.name}:requires[{k}]", "pre-call", g, ln, clause)
            # havoc
            for a in callee.assigns:
                ref = sub.vars[a]
                if isinstance(ref, Ref):
                    c = sub.heap[ref.loc]
                    c.term = z3.Const(fresh_name(a + "_post"), c.term.sort())
                    st.heap[ref.loc].term = c.term
                elif isinstance(ref, Obj):
                    for fname, fref in ref.fields.items():
                        if isinstance(fref, Ref) and fname in callee.assigns_fields.get(a, ref.fields):
                            c = sub.heap[fref.loc]
                            c.term = z3.Const(fresh_name(fname + "_post"), c.term.sort())
                            st.heap[fref.loc].term = c.term
            result = self.fresh_result(sub, callee)
            sub.vars["result"] = result
            for k, clause in enumerate(callee.ensures):
                g = self.spec_bool(sub, clause)
                sub.assume(g)
            for f in sub.pc[len(st.pc):]:
                st.assume(f)
            for k, c in sub.heap.items():
                if k not in st.heap:
                    st.heap[k] = c
        finally:
            self.contract, self.consts = saved_contract, saved_consts
        if callee.may_raise:
            self.notes.append(f"call to {callee.name} at L{ln}: exceptional exit not followed (partial correctness)")
        return result

    def fresh_result(self, st, callee):
        def mk(t, nm):
            kind, nd = t
            if kind == "tuple":
                return tuple(mk(e, f"{nm}_{j}") for j, e in enumerate(nd))
            if kind == "void":
                return NoneVal()
            if nd == 0:
                return z3.Const(fresh_name(nm), self.mode.sort(kind))
            shape = [z3.Int(fresh_name(f"{nm}_n{d}")) for d in range(nd)]
            fixed = callee.result_shape
            if fixed:
                shape = [fixed[d] if d < len(fixed) and fixed[d] is not None else shape[d] for d in range(nd)]
            return self.new_array(st, shape, kind, None, nm)
        return mk(callee.ret, "ret_" + callee.name.split(".")[-1])

    # ------------------------------------------------------------------ numpy
    def shape_arg(self, v):
        if isinstance(v, tuple):
            return list(v)
        return [v]

    def numpy(self, st, fn, args, kw, ln, spec, node):
        ev = lambda a: self.ev(st, a, spec)
        if fn in ("zeros", "ones", "empty", "full"):
            shape = self.shape_arg(ev(args[0]))
            dtype = None
            if "dtype" in kw:
                dtype = ev(kw["dtype"])
            fill = {"zeros": 0.0, "ones": 1.0, "empty": None}.get(fn)
            kind = "float"
            if fn == "full":
                fill = ev(args[1])
                kind = self.kind(fill)
            if dtype in ("int32", "int64"):
                kind = "int"
                if fill is not None and not is_z3(fill):
                    fill = int(fill)
            if dtype == "float64":
                kind = "float"
            if isinstance(dtype, str) and dtype == "bool":
                kind = "bool"
            return self.new_array(st, shape, kind, fill, fn)
        if fn == "copy":
            return self.method(st, ev(args[0]), "copy", [], ln, node)
        if fn in ("all", "any"):
            v = ev(args[0])
            if is_z3(v) or isinstance(v, bool):
                return v
            if isinstance(v, MaskedVec):
                return self.q_all(v) if fn == "all" else self.q_any(v)
            vv = self.as_vec(st, v)
            return self.q_all(vv) if fn == "all" else self.q_any(vv)
        if fn in ("isnan", "isfinite"):
            v = ev(args[0])
            f = self.isnan if fn == "isnan" else self.isfinite
            if self.is_arraylike(v):
                vv = self.as_vec(st, v)
                return Vec(vv.n, lambda i: f(self.to_float(vv.at(i))), "bool")
            return f(self.to_float(v))
        if fn == "isclose":
            a, b = self.to_float(ev(args[0])), self.to_float(ev(args[1]))
            return self.isclose(st, a, b, ln)
        if fn in ("logical_and", "logical_or"):
            a, b = self.as_vec(st, ev(args[0])), self.as_vec(st, ev(args[1]))
            op = z3.And if fn == "logical_and" else z3.Or
            return Vec(a.n, lambda i: op(a.at(i), b.at(i)), "bool")
        if fn == "arange":
            n = ev(args[0])
            return Vec(n, lambda i: i if is_z3(i) else z3.IntVal(i), "int")
        if fn == "append":
            a, b = ev(args[0]), ev(args[1])
            if self.is_arraylike(a) and not self.is_arraylike(b):
                va = self.as_vec(st, a)
                k = "float" if "float" in (va.kind, self.kind(b)) else va.kind
                bb = self.to_kind(b, k)
                return self.materialize(st, Vec(self.simp(va.n + 1), lambda i: z3.If(i < va.n, self.to_kind(va.at(i), k), bb) if is_z3(i) or is_z3(va.n) else (self.to_kind(va.at(i), k) if i < va.n else bb), k), "append")
            if self.is_arraylike(b) and not self.is_arraylike(a):
                vb = self.as_vec(st, b)
                k = "float" if "float" in (vb.kind, self.kind(a)) else vb.kind
                aa = self.to_kind(a, k)
                return self.materialize(st, Vec(self.simp(vb.n + 1), lambda i: z3.If(i == 0, aa, self.to_kind(vb.at(i - 1), k)), k), "append")
            raise Unsupported("np.append(array, array)")
        if fn == "cumsum":
            vv = self.as_vec(st, ev(args[0]))
            c = z3.Const(fresh_name("cumsum"), array_sort(self.mode, vv.kind, 1))
            i = z3.Int(fresh_name("i"))
            st.assume(z3.Implies(vv.n > 0, z3.Select(c, 0) == vv.at(z3.IntVal(0))))
            st.assume(z3.ForAll([i], z3.Implies(z3.And(i >= 1, i < vv.n),
                      z3.Select(c, i) == self.binop(st, "+", z3.Select(c, i - 1), vv.at(i), ln)),
                      patterns=[z3.Select(c, i)]))
            # monotonicity of prefix sums of non-negative terms (all-pairs form): justified by the inductive
            # lemma `cumsum-monotone-induction-step`, discharged as its own obligation on every run
            j = z3.Int(fresh_name("j"))
            zero = self.fconst(0.0) if vv.kind == "float" else z3.IntVal(0)
            nonneg = z3.ForAll([i], z3.Implies(z3.And(i >= 0, i < vv.n), self.to_bool(self.compare(st, ">=", vv.at(i), zero, ln))))
            mono = z3.ForAll([i, j], z3.Implies(z3.And(0 <= i, i <= j, j < vv.n),
                                               self.to_bool(self.compare(st, "<=", z3.Select(c, i), z3.Select(c, j), ln))))
            st.assume(z3.Implies(nonneg, mono))
            self.uses_cumsum_lemma = True
            return st.alloc(c, [vv.n], vv.kind)
        if fn == "diff":
            vv = self.as_vec(st, ev(args[0]))
            return Vec(self.simp(vv.n - 1), lambda i: self.binop(st, "-", vv.at(self.simp(i + 1)), vv.at(i), ln), vv.kind)
        if fn == "searchsorted":
            a = self.as_vec(st, ev(args[0]))
            v = ev(args[1])
            side = ev(args[2]) if len(args) > 2 else (ev(kw["side"]) if "side" in kw else "left")
            return self.searchsorted(st, a, v, side, ln)
        if fn == "linspace":
            lo, hi, num = ev(args[0]), ev(args[1]), ev(args[2])
            if lo != 0 or hi != 1:
                raise Unsupported("linspace other than (0,1,k)")
            L = z3.Const(fresh_name("linspace"), array_sort(self.mode, "float", 1))
            i, j = z3.Int(fresh_name("i")), z3.Int(fresh_name("j"))
            st.assume(self.feq(z3.Select(L, 0), self.fconst(0.0)))
            st.assume(z3.Implies(num >= 2, self.feq(z3.Select(L, num - 1), self.fconst(1.0))))
            st.assume(z3.ForAll([i, j], z3.Implies(z3.And(0 <= i, i <= j, j < num),
                      self.fcmp("<=", z3.Select(L, i), z3.Select(L, j)))))
            st.assume(z3.ForAll([i], z3.Implies(z3.And(0 <= i, i < num), self.isfinite(z3.Select(L, i)))))
            if not self.mode.fp:
                st.assume(z3.ForAll([i], z3.Implies(z3.And(0 <= i, i < num),
                          z3.Select(L, i) * z3.ToReal(num - 1) == z3.ToReal(i))))
            return st.alloc(L, [num], "float")
        if fn == "sum":
            return self.np_sum(st, ev(args[0]), ln)
        if fn in ("flatnonzero",):
            return ("flatnonzero", self.as_vec(st, ev(args[0])))
        if fn == "array":
            v = ev(args[0])
            if isinstance(v, Ref) or isinstance(v, Vec):
                return v
            if isinstance(v, tuple) and all(not isinstance(x, (tuple, Ref, Vec)) for x in v):
                return self.materialize(st, self.as_vec(st, v), "array")
            raise Unsupported("np.array of list")
        if fn in ("maximum", "minimum"):
            a, b = ev(args[0]), ev(args[1])
            if not self.is_arraylike(a) and not self.is_arraylike(b):
                return self.pymax(st, a, b, ln) if fn == "maximum" else self.pymin(st, a, b, ln)
            raise Unsupported("vector maximum")
        if fn in ("exp", "log", "sqrt"):
            return self.transcendental(st, fn, ev(args[0]), ln)
        if fn == "nextafter":
            x = self.to_float(ev(args[0]))
            d = ev(args[1])
            if d != float("inf"):
                raise Unsupported("nextafter towards anything but +inf")
            return self.nextafter_up(st, x)
        if fn in ("min", "max"):
            return self.method(st, ev(args[0]), fn, [], ln, node)
        if fn == "concatenate":
            parts = args[0]
            if not isinstance(parts, (ast.List, ast.Tuple)):
                raise Unsupported("np.concatenate of a non-literal sequence")
            vecs = []
            for pnode in parts.elts:
                v = ev(pnode)
                vecs.append(self.as_vec(st, v))
            kind_ = "float" if any(v.kind == "float" for v in vecs) else vecs[0].kind
            offs = [0]
            for v in vecs:
                offs.append(self.simp(offs[-1] + v.n) if (is_z3(offs[-1]) or is_z3(v.n)) else offs[-1] + v.n)

            def at(i, vecs=vecs, offs=offs):
                e = None
                for k in range(len(vecs) - 1, -1, -1):
                    val = self.to_kind(vecs[k].at(self.simp(i - offs[k]) if is_z3(i) or is_z3(offs[k]) else i - offs[k]), kind_)
                    if e is None:
                        e = val
                    else:
                        lim = offs[k + 1]
                        cond = (i < lim) if (is_z3(i) or is_z3(lim)) else None
                        if cond is None:
                            e = val if i < lim else e
                        else:
                            e = z3.If(cond, val, e)
                return e
            return self.materialize(st, Vec(offs[-1], at, kind_), "concat")
        if fn == "ascontiguousarray":
            return ev(args[0])
        raise Unsupported(f"np.{fn} (line {ln})")

    def nextafter_up(self, st, x):
        """A-NUMPY: np.nextafter(x, +inf) is the least double strictly greater than x."""
        if not self.mode.fp:
            raise Unsupported("nextafter in real mode")
        f = z3.Function("nextafter_up", self.mode.fsort, self.mode.fsort)
        # axioms (successor: r > x; no double strictly between) are instantiated by pattern in
        # vt.inst.nextafter_axioms; the quantified form is kept for the un-instantiated fallback
        self.uses_nextafter = True
        return f(x)

    def isclose(self, st, a, b, ln):
        # |a-b| <= atol + rtol*|b| with numpy defaults; equal values (incl. inf) are close
        atol, rtol = self.fconst(1e-8), self.fconst(1e-5)
        ab = lambda x: (z3.fpAbs(x) if self.mode.fp else z3.If(x >= 0, x, -x))
        d = ab(self.farith("-", a, b, st, ln))
        bound = self.farith("+", atol, self.farith("*", rtol, ab(b), st, ln), st, ln)
        close = self.fcmp("<=", d, bound)
        if self.mode.fp:
            return z3.Or(z3.And(self.isfinite(a), self.isfinite(b), close),
                         z3.And(z3.Not(self.isnan(a)), a == b))
        return close

    def searchsorted(self, st, a, v, side, ln):
        if side != "right":
            raise Unsupported("searchsorted side=left")
        i, j = z3.Int(fresh_name("i")), z3.Int(fresh_name("j"))
        self.ob(st, f"L{ln}:searchsorted-sorted", "side",
                z3.ForAll([i, j], z3.Implies(z3.And(0 <= i, i <= j, j < a.n),
                                             self.to_bool(self.compare(st, "<=", a.at(i), a.at(j), ln)))), ln,
                "np.searchsorted requires a non-decreasing first argument")

        def one(x):
            r = z3.Int(fresh_name("ss"))
            st.assume(z3.And(r >= 0, r <= a.n))
            st.assume(z3.ForAll([j], z3.Implies(z3.And(0 <= j, j < r),
                                                 self.to_bool(self.compare(st, "<=", a.at(j), x, ln)))))
            st.assume(z3.ForAll([j], z3.Implies(z3.And(r <= j, j < a.n),
                                                 self.to_bool(self.compare(st, ">", a.at(j), x, ln)))))
            return r
        if self.is_arraylike(v):
            vv = self.as_vec(st, v)
            R = z3.Const(fresh_name("ss"), array_sort(self.mode, "int", 1))
            k = z3.Int(fresh_name("k"))
            rk = z3.Select(R, k)
            rng = z3.And(0 <= k, k < vv.n)
            st.assume(z3.ForAll([k], z3.Implies(rng, z3.And(rk >= 0, rk <= a.n)), patterns=[rk]))
            st.assume(z3.ForAll([k, j], z3.Implies(z3.And(rng, 0 <= j, j < rk),
                      self.to_bool(self.compare(st, "<=", a.at(j), vv.at(k), ln)))))
            st.assume(z3.ForAll([k, j], z3.Implies(z3.And(rng, rk <= j, j < a.n),
                      self.to_bool(self.compare(st, ">", a.at(j), vv.at(k), ln)))))
            return st.alloc(R, [vv.n], "int")
        return one(v)

    def np_sum(self, st, v, ln):
        """Sum as an uninterpreted prefix-sum function with its defining axioms instantiated."""
        if isinstance(v, MaskedVec):
            inner, mask = v.vec, v.mask
            zero = self.fconst(0.0) if inner.kind == "float" else z3.IntVal(0)
            vv = Vec(inner.n, lambda i: z3.If(mask.at(i), inner.at(i), zero), inner.kind)
        else:
            vv = self.as_vec(st, v)
        if vv.kind == "bool":
            vv = Vec(vv.n, lambda i, vv=vv: z3.If(vv.at(i), z3.IntVal(1), z3.IntVal(0)), "int")
        if isinstance(vv.n, int):
            r = self.fconst(0.0) if vv.kind == "float" else z3.IntVal(0)
            for k in range(vv.n):
                r = self.binop(st, "+", r, vv.at(k), ln)
            return r
        P = z3.Const(fresh_name("psum"), array_sort(self.mode, vv.kind, 1))
        i = z3.Int(fresh_name("i"))
        zero = self.fconst(0.0) if vv.kind == "float" else z3.IntVal(0)
        st.assume(z3.Select(P, 0) == zero)
        st.assume(z3.ForAll([i], z3.Implies(z3.And(i >= 0, i < vv.n),
                  z3.Select(P, i + 1) == self.binop(st, "+", z3.Select(P, i), vv.at(i), ln)),
                  patterns=[z3.Select(P, i + 1)]))
        st.ghost.setdefault("_psums", []).append((P, vv))
        return z3.Select(P, vv.n)


class ClosureFork(Exception):
    def __init__(self, clo, vals, outs):
        self.clo, self.vals, self.outs = clo, vals, outs


# ---------------------------------------------------------------------- contract-language functions
def _q(engine, st, node, univ):
    var, lo, hi, body = node.args
    name = var.id
    i = z3.Int(fresh_name(name))
    saved = st.vars.get(name, None)
    had = name in st.vars
    st.vars[name] = i
    try:
        lo_v = engine.to_int(engine.ev(st, lo, True))
        hi_v = engine.to_int(engine.ev(st, hi, True))
        b = engine.spec_bool_node(st, body)
    finally:
        if had:
            st.vars[name] = saved
        else:
            del st.vars[name]
    rng = z3.And(i >= lo_v, i < hi_v)
    if univ:
        return z3.ForAll([i], z3.Implies(rng, b))
    return z3.Exists([i], z3.And(rng, b))


def _implies(engine, st, node):
    a = engine.spec_bool_node(st, node.args[0])
    b = engine.spec_bool_node(st, node.args[1])
    return z3.Implies(a, b)


def _old(engine, st, node):
    """old(x): value of parameter x at function entry.  Arrays (and records of arrays) are returned as
    immutable SNAPSHOTS of their entry contents, so indexing the result never sees later writes."""
    sub = st.fork()
    sub.vars = dict(st.entry)
    for name, v in st.vars.items():
        if name not in sub.vars:
            sub.vars[name] = v
    sub.heap = {**st.heap, **{k: Cell(c.term, c.shape, c.kind) for k, c in st.entry_heap.items()}}
    v = engine.ev(sub, node.args[0], True)
    cache = st.ghost.setdefault("_oldsnap", {})

    def snap(x):
        if isinstance(x, Ref):
            key = (id(st.entry_heap), x.loc)
            if key not in cache or cache[key].loc not in st.heap:
                c = sub.heap[x.loc]
                cache[key] = st.alloc(c.term, c.shape, c.kind)
            return Ref(cache[key].loc, x.prefix)
        if isinstance(x, Obj):
            return Obj({k: snap(f) for k, f in x.fields.items()})
        if isinstance(x, tuple):
            return tuple(snap(y) for y in x)
        return x
    return snap(v)


def _isfinite(engine, st, node):
    return engine.isfinite(engine.to_float(engine.ev(st, node.args[0], True)))


def _isnan(engine, st, node):
    return engine.isnan(engine.to_float(engine.ev(st, node.args[0], True)))


def _fl(engine, st, node):
    return engine.to_float(engine.ev(st, node.args[0], True))


def _ite(engine, st, node):
    c = engine.spec_bool_node(st, node.args[0])
    return engine.ite(c, engine.ev(st, node.args[1], True), engine.ev(st, node.args[2], True))


def _feq(engine, st, node):
    """Exact (bitwise up to the sign of zero / IEEE ==) equality of two floats."""
    a = engine.to_float(engine.ev(st, node.args[0], True))
    b = engine.to_float(engine.ev(st, node.args[1], True))
    return engine.feq(a, b)


def _same(engine, st, node):
    """Structural equality (same bits; NaN == NaN)."""
    a = engine.ev(st, node.args[0], True)
    b = engine.ev(st, node.args[1], True)
    k = "float" if "float" in (engine.kind(a), engine.kind(b)) else engine.kind(a)
    return engine.to_kind(a, k) == engine.to_kind(b, k)


SPEC_FUNCS = {
    "forall": lambda e, st, n: _q(e, st, n, True),
    "exists": lambda e, st, n: _q(e, st, n, False),
    "implies": _implies,
    "old": _old,
    "isfinite": _isfinite,
    "isnan": _isnan,
    "ite": _ite,
    "feq": _feq,
    "same": _same,
}
