"""Expression evaluation for the G1 engine (code expressions and contract clauses)."""
import ast

import z3

from .values import (Cell, Closure, NoneVal, Obj, Ref, Unsupported, Vec, array_sort, fresh_name,
                     is_z3)

I = z3.IntSort()

CMP = {ast.Lt: "<", ast.LtE: "<=", ast.Gt: ">", ast.GtE: ">=", ast.Eq: "==", ast.NotEq: "!=",
       ast.Is: "==", ast.IsNot: "!="}
BIN = {ast.Add: "+", ast.Sub: "-", ast.Mult: "*", ast.Div: "/", ast.FloorDiv: "//", ast.Mod: "%",
       ast.Pow: "**"}


def _has(idxs, tag):
    return any(isinstance(x, str) and x == tag for x in idxs)


def _pos(idxs, tag):
    return [k for k, x in enumerate(idxs) if isinstance(x, str) and x == tag][0]


class Slice:
    def __init__(self, lo, hi):
        self.lo, self.hi = lo, hi


class ExprMixin:
    # ------------------------------------------------------------------ entry
    def ev(self, st, node, spec=False):
        m = getattr(self, "ev_" + type(node).__name__, None)
        if m is None:
            raise Unsupported(f"expression {type(node).__name__} at line {getattr(node, 'lineno', '?')}")
        return m(st, node, spec)

    def ev_Constant(self, st, node, spec):
        v = node.value
        if v is None:
            return NoneVal()
        if isinstance(v, (bool, int, float, str)):
            return v
        raise Unsupported(f"constant {v!r}")

    def ev_Name(self, st, node, spec):
        n = node.id
        if n in st.vars:
            return st.vars[n]
        if spec and n in st.ghost:
            return st.ghost[n]
        if n in self.consts:
            return self.consts[n]
        if n == "inf":
            return float("inf")
        raise Unsupported(f"unbound name {n} (line {node.lineno})")

    def ev_Tuple(self, st, node, spec):
        return tuple(self.ev(st, e, spec) for e in node.elts)

    ev_List = ev_Tuple

    def ev_UnaryOp(self, st, node, spec):
        v = self.ev(st, node.operand, spec)
        if isinstance(node.op, ast.Not):
            if isinstance(v, Vec) or isinstance(v, Ref):
                raise Unsupported("not on array")
            b = self.to_bool(v) if is_z3(v) else (not v)
            return z3.Not(b) if is_z3(b) else b
        if isinstance(node.op, ast.USub):
            if isinstance(v, (int, float)) and not is_z3(v):
                return -v
            if isinstance(v, (Vec, Ref)):
                vv = self.as_vec(st, v)
                return Vec(vv.n, lambda i: self.neg(vv.at(i)), vv.kind)
            return self.neg(v)
        if isinstance(node.op, ast.Invert):
            if isinstance(v, (Vec, Ref)):
                vv = self.as_vec(st, v)
                if vv.kind != "bool":
                    raise Unsupported("~ on non-bool array")
                return Vec(vv.n, lambda i: z3.Not(vv.at(i)), "bool")
            if is_z3(v) and v.sort() == z3.BoolSort():
                return z3.Not(v)
            raise Unsupported("~ on scalar")
        if isinstance(node.op, ast.UAdd):
            return v
        raise Unsupported("unary op")

    def neg(self, v):
        if self.kind(v) == "float":
            v = self.to_float(v)
            return z3.fpNeg(v) if self.mode.fp else -v
        return -self.to_int(v)

    def ev_BinOp(self, st, node, spec):
        a = self.ev(st, node.left, spec)
        b = self.ev(st, node.right, spec)
        op = BIN.get(type(node.op))
        if op is None:
            raise Unsupported(f"binop {type(node.op).__name__}")
        return self.binop(st, op, a, b, node.lineno)

    def ev_BoolOp(self, st, node, spec):
        # short-circuit semantics: operand k is evaluated (and its bounds / division obligations are emitted)
        # under the assumption that the earlier operands did not already decide the result
        vals = []
        guard_state = None
        is_and = isinstance(node.op, ast.And)
        for k, vnode in enumerate(node.values):
            if k == 0 or spec:
                v = self.ev(st, vnode, spec)
            else:
                if guard_state is None:
                    guard_state = st.fork()
                prev = vals[-1]
                pb = self.to_bool(prev) if (is_z3(prev) or isinstance(prev, (bool, int, float))) else None
                if pb is None:
                    raise Unsupported("boolop on non-scalar")
                guard_state.assume(pb if is_and else z3.Not(pb))
                v = self._ev_guarded(st, guard_state, vnode, spec)
            vals.append(v)
        bs = [self.to_bool(v) if (is_z3(v) or isinstance(v, (bool, int, float))) else None for v in vals]
        if any(b is None for b in bs):
            raise Unsupported("boolop on non-scalar")
        # NB: short-circuit evaluation is irrelevant for side-effect-free operands; side
        # obligations (bounds/division) of later operands are emitted unconditionally, which is
        # stronger than required.  Contracts needing guarded access use implies().
        r = z3.And(*bs) if isinstance(node.op, ast.And) else z3.Or(*bs)
        return z3.simplify(r) if all(z3.is_true(b) or z3.is_false(b) for b in bs) else r

    def ev_Compare(self, st, node, spec):
        left = self.ev(st, node.left, spec)
        out = []
        for op, rn in zip(node.ops, node.comparators):
            right = self.ev(st, rn, spec)
            if isinstance(op, (ast.In, ast.NotIn)):
                raise Unsupported("in")
            o = CMP[type(op)]
            out.append(self.compare(st, o, left, right, node.lineno))
            left = right
        if len(out) == 1:
            return out[0]
        if any(isinstance(o, Vec) for o in out):
            raise Unsupported("chained vector compare")
        bs = [self.to_bool(o) for o in out]
        return z3.And(*bs)

    def ev_IfExp(self, st, node, spec):
        c = self.ev(st, node.test, spec)
        c = self.to_bool(c) if is_z3(c) else bool(c)
        if c is True or (is_z3(c) and z3.is_true(c)):
            return self.ev(st, node.body, spec)
        if c is False or (is_z3(c) and z3.is_false(c)):
            return self.ev(st, node.orelse, spec)
        # guarded evaluation: side obligations of each arm are emitted under the arm's guard
        s1 = st.fork()
        s1.assume(c)
        a = self._ev_guarded(st, s1, node.body, spec)
        s2 = st.fork()
        s2.assume(z3.Not(c))
        b = self._ev_guarded(st, s2, node.orelse, spec)
        return self.ite(c, a, b)

    def _ev_guarded(self, st, sub, node, spec):
        n0 = len(sub.pc)
        v = self.ev(sub, node, spec)
        # definitional assumptions added while evaluating are global facts
        for f in sub.pc[n0:]:
            st.assume(f)
        for k, c in sub.heap.items():
            if k not in st.heap:
                st.heap[k] = c
        return v

    def ev_Attribute(self, st, node, spec):
        # np.inf, np.nan, np.newaxis, tskit.NULL, x.size, x.shape, x.T, obj.field
        if isinstance(node.value, ast.Name):
            base = node.value.id
            if base == "np":
                if node.attr == "inf":
                    return float("inf")
                if node.attr == "nan":
                    return float("nan")
                if node.attr in ("int32", "int64", "float64"):
                    return node.attr
                if node.attr == "newaxis":
                    return "newaxis"
                raise Unsupported(f"np.{node.attr}")
            if base == "tskit" and node.attr == "NULL":
                return -1
        v = self.ev(st, node.value, spec)
        if isinstance(v, Obj):
            if node.attr in v.fields:
                return v.fields[node.attr]
            raise Unsupported(f"field {node.attr}")
        if isinstance(v, Ref):
            shape = self.ref_shape(st, v)
            if node.attr == "size":
                if len(shape) == 1:
                    return shape[0]
                r = shape[0]
                for s in shape[1:]:
                    r = r * s
                return r
            if node.attr == "shape":
                return tuple(shape)
            raise Unsupported(f"array attribute {node.attr}")
        if isinstance(v, Vec):
            if node.attr == "size":
                return v.n
            if node.attr == "shape":
                return (v.n,)
        raise Unsupported(f"attribute {ast.unparse(node)}")

    # ------------------------------------------------------------------ subscripts
    def ev_index(self, st, node, spec):
        if isinstance(node, ast.Slice):
            if node.step is not None:
                raise Unsupported("slice step")
            lo = self.ev(st, node.lower, spec) if node.lower is not None else None
            hi = self.ev(st, node.upper, spec) if node.upper is not None else None
            return Slice(lo, hi)
        if isinstance(node, ast.Constant) and node.value is Ellipsis:
            return "ellipsis"
        return self.ev(st, node, spec)

    def norm_slice(self, s, n):
        lo = 0 if s.lo is None else s.lo
        hi = n if s.hi is None else s.hi
        if isinstance(lo, int) and lo < 0:
            lo = n + lo
        if isinstance(hi, int) and hi < 0:
            hi = n + hi
        return lo, hi

    def ev_Subscript(self, st, node, spec):
        base = self.ev(st, node.value, spec)
        if isinstance(node.slice, ast.Tuple):
            idxs = [self.ev_index(st, e, spec) for e in node.slice.elts]
        else:
            idxs = [self.ev_index(st, node.slice, spec)]
        return self.subscript(st, base, idxs, node.lineno, ast.unparse(node), spec)

    def subscript(self, st, base, idxs, lineno, what, spec=False):
        if isinstance(base, tuple):
            if len(idxs) == 1 and isinstance(idxs[0], int):
                return base[idxs[0]]
            if len(idxs) == 1 and is_z3(idxs[0]):
                return self.as_vec(st, base).at(idxs[0])
            raise Unsupported("tuple subscript")
        if isinstance(base, Vec):
            if len(idxs) != 1:
                raise Unsupported("multi-index on Vec")
            ix = idxs[0]
            if isinstance(ix, Slice):
                lo, hi = self.norm_slice(ix, base.n)
                n = self.simp(hi - lo) if (is_z3(hi) or is_z3(lo)) else hi - lo
                return Vec(n, lambda i: base.at(self.simp(i + lo)), base.kind)
            if self.is_arraylike(ix):
                return self.fancy(st, base, ix, lineno, what, spec)
            ix = self.idx_norm(ix, base.n)
            if self.check_bounds and not spec:
                self.bounds(st, ix, base.n, lineno, what)
            return base.at(ix)
        if not isinstance(base, Ref):
            raise Unsupported(f"subscript of {type(base).__name__}: {what}")
        shape = self.ref_shape(st, base)
        nd = len(shape)
        if _has(idxs, "ellipsis"):
            k = _pos(idxs, "ellipsis")
            fillers = [Slice(None, None)] * (nd - (len(idxs) - 1))
            idxs = idxs[:k] + fillers + idxs[k + 1:]
        if _has(idxs, "newaxis"):
            raise Unsupported("newaxis")
        if len(idxs) > nd:
            raise Unsupported("too many indices")
        # all-scalar leading indices
        scal = []
        k = 0
        while k < len(idxs) and not isinstance(idxs[k], Slice) and not self.is_arraylike(idxs[k]):
            scal.append(idxs[k])
            k += 1
        rest = idxs[k:]
        if not rest:
            if len(scal) == nd:
                if spec:
                    old = self.check_bounds
                    self.check_bounds = False
                    try:
                        return self.load(st, base, scal, lineno, what)
                    finally:
                        self.check_bounds = old
                return self.load(st, base, scal, lineno, what)
            # partial: view
            chk = [self.bounds(st, i, shape[d], lineno, what) if not spec else self.idx_norm(i, shape[d])
                   for d, i in enumerate(scal)]
            return Ref(base.loc, base.prefix + tuple(chk))
        # one vector dimension followed by optional scalar indices (a[:, 0], a[mask, 0], a[idx])
        view = base
        if scal:
            chk = [self.bounds(st, i, shape[d], lineno, what) if not spec else self.idx_norm(i, shape[d])
                   for d, i in enumerate(scal)]
            view = Ref(base.loc, base.prefix + tuple(chk))
        vshape = self.ref_shape(st, view)
        sel = rest[0]
        tail = rest[1:]
        if any(isinstance(t, Slice) or self.is_arraylike(t) for t in tail):
            # a[idx, :] style: drop trailing full slices
            if all(isinstance(t, Slice) and t.lo is None and t.hi is None for t in tail):
                tail = []
            else:
                raise Unsupported(f"multi-vector subscript {what}")
        t = self.ref_term(st, view)
        kind = self.cell(st, view).kind
        n0 = vshape[0]
        remaining = len(vshape) - 1 - len(tail)
        if remaining != 0:
            # rows as values: a[idx] on 2-d -> not a Vec of scalars
            if isinstance(sel, Slice) and sel.lo is None and sel.hi is None and not tail:
                return view
            raise Unsupported(f"vector subscript yielding rows: {what}")
        tail_n = [self.bounds(st, i, vshape[1 + d], lineno, what) if not spec else self.idx_norm(i, vshape[1 + d])
                  for d, i in enumerate(tail)]

        def elem(i, t=t):
            e = z3.Select(t, i)
            for j in tail_n:
                e = z3.Select(e, j)
            return e
        full = Vec(n0, elem, kind)
        if isinstance(sel, Slice):
            if sel.lo is None and sel.hi is None:
                return full
            lo, hi = self.norm_slice(sel, n0)
            n = hi - lo
            return Vec(self.simp(n), lambda i: elem(self.simp(i + lo)), kind)
        return self.fancy(st, full, sel, lineno, what, spec)

    def simp(self, v):
        return z3.simplify(v) if is_z3(v) else v

    def idx_norm(self, i, n):
        if isinstance(i, int) and not isinstance(i, bool):
            if i < 0:
                return self.simp(n + i) if is_z3(n) else z3.IntVal(n + i)
            return z3.IntVal(i)
        return self.to_int(i)

    def fancy(self, st, vec, sel, lineno, what, spec):
        sv = self.as_vec(st, sel)
        if sv.kind == "bool":
            return MaskedVec(vec, sv)
        if sv.kind != "int":
            raise Unsupported("float index array")
        if self.check_bounds and not spec:
            j = z3.Int(fresh_name("j"))
            n = vec.n if is_z3(vec.n) else z3.IntVal(vec.n)
            if isinstance(sv.n, int):
                goal = z3.And(*[z3.And(sv.at(k) >= 0, sv.at(k) < n) for k in range(sv.n)]) if sv.n else True
            else:
                goal = z3.ForAll([j], z3.Implies(z3.And(j >= 0, j < sv.n),
                                                 z3.And(sv.at(j) >= 0, sv.at(j) < n)))
            self.ob(st, f"L{lineno}:index-array-in-bounds:{what}", "bounds", goal, lineno)
        return Vec(sv.n, lambda i: vec.at(sv.at(i)), vec.kind)

    # ------------------------------------------------------------------ quantifier helpers
    def q_all(self, vec):
        if isinstance(vec, MaskedVec):
            inner, mask = vec.vec, vec.mask
            return self._q(inner.n, lambda i: z3.Implies(mask.at(i), self.to_bool(inner.at(i))), True)
        return self._q(vec.n, lambda i: self.to_bool(vec.at(i)), True)

    def q_any(self, vec):
        if isinstance(vec, MaskedVec):
            inner, mask = vec.vec, vec.mask
            return self._q(inner.n, lambda i: z3.And(mask.at(i), self.to_bool(inner.at(i))), False)
        return self._q(vec.n, lambda i: self.to_bool(vec.at(i)), False)

    def _q(self, n, body, univ):
        if isinstance(n, int):
            parts = [body(k) for k in range(n)]
            if not parts:
                return z3.BoolVal(univ)
            return z3.And(*parts) if univ else z3.Or(*parts)
        i = z3.Int(fresh_name("q"))
        rng = z3.And(i >= 0, i < n)
        if univ:
            return z3.ForAll([i], z3.Implies(rng, body(i)))
        return z3.Exists([i], z3.And(rng, body(i)))


class MaskedVec:
    """vec[mask] with a boolean mask; only usable under all/any/sum and masked assignment."""

    def __init__(self, vec, mask):
        self.vec = vec
        self.mask = mask
        self.kind = vec.kind
