"""Statement execution, loops (cut at invariants), function entry/exit for the G1 engine."""
import ast

import z3

from . import extract
from .values import (Cell, Closure, NoneVal, Obj, Ref, Unsupported, Vec, array_sort, fresh_name,
                     is_z3)
from .vc_call import ClosureFork
from .vc_expr import MaskedVec, Slice

I = z3.IntSort()
UNROLL_MAX = 8

# transcendental schemas: name -> (E, L, *args) -> (side condition or None, fact)
SCHEMAS = {
    "exp_add": lambda E, L, a, b: (None, E(a) * E(b) == E(a + b)),
    "exp_pos": lambda E, L, a: (None, E(a) > 0),
    "exp_zero": lambda E, L: (None, E(z3.RealVal(0)) == 1),
    "log_exp": lambda E, L, a: (None, L(E(a)) == a),
    "exp_log": lambda E, L, a: (a > 0, E(L(a)) == a),
    "log_mul": lambda E, L, a, b: (z3.And(a > 0, b > 0), L(a * b) == L(a) + L(b)),
    "log_mul_if": lambda E, L, a, b: (None, z3.Implies(z3.And(a > 0, b > 0), L(a * b) == L(a) + L(b))),
}
SCHEMA_DOC = {"exp_add": "exp(a)exp(b) = exp(a+b)", "exp_pos": "exp(a) > 0", "exp_zero": "exp(0) = 1",
              "log_exp": "log(exp(a)) = a", "exp_log": "exp(log(a)) = a for a > 0",
              "log_mul": "log(ab) = log a + log b for a, b > 0", "log_mul_if": "log(ab) = log a + log b for a, b > 0"}


def _has(idxs, tag):
    return any(isinstance(x, str) and x == tag for x in idxs)


def _pos(idxs, tag):
    return [k for k, x in enumerate(idxs) if isinstance(x, str) and x == tag][0]


class StmtMixin:
    NORMAL, BREAK, CONTINUE, RETURN, RAISE, DEAD = range(6)

    # ------------------------------------------------------------------ spec evaluation
    def spec_bool(self, st, clause):
        node = ast.parse(clause, mode="eval").body
        return self.spec_bool_node(st, node)

    def spec_bool_node(self, st, node):
        # clauses are specifications: `/`, log, ... are total functions there (no definedness obligations)
        self._suppress_side += 1
        try:
            v = self.ev(st, node, True)
        finally:
            self._suppress_side -= 1
        if isinstance(v, (Vec, MaskedVec)):
            raise Unsupported("vector-valued clause (use forall)")
        return self.to_bool(v)

    # ------------------------------------------------------------------ blocks
    def exec_block(self, stmts, st):
        states = [(st, self.NORMAL, None)]
        for s in stmts:
            nxt = []
            for (cur, flow, val) in states:
                if flow != self.NORMAL:
                    nxt.append((cur, flow, val))
                    continue
                nxt.extend(self.exec_stmt(s, cur))
            states = nxt
            if len(states) > self.max_paths:
                raise Unsupported(f"path explosion (> {self.max_paths}) at line {s.lineno}")
        return states

    def exec_stmt(self, s, st):
        m = getattr(self, "st_" + type(s).__name__, None)
        if m is None:
            raise Unsupported(f"statement {type(s).__name__} at line {s.lineno}")
        try:
            pre_gh = self.ghost_for(s, before=True)
            if pre_gh:
                pre = self.exec_block(pre_gh, st)
                if len(pre) != 1 or pre[0][1] != self.NORMAL:
                    raise Unsupported("ghost code before a statement must be straight-line")
                st = pre[0][0]
            outs = m(s, st)
            gh = self.ghost_for(s)
            if gh:
                res = []
                for cur, flow, val in outs:
                    if flow == self.NORMAL:
                        for c2, f2, v2 in self.exec_block(gh, cur):
                            res.append((c2, f2, v2))
                    else:
                        res.append((cur, flow, val))
                outs = res
            return outs
        except ClosureFork as cf:
            raise Unsupported(f"closure with several exits used inside an expression (line {s.lineno})")

    def ghost_for(self, s, before=False):
        if not self.contract.ghost_after or not isinstance(s, (ast.Assign, ast.AugAssign, ast.Expr, ast.Return)):
            return []
        if getattr(s, "_is_ghost", False):
            return []
        src = ast.unparse(s)
        out = []
        for anchor, code in self.contract.ghost_after:
            is_before = anchor.startswith("before:")
            if is_before != before:
                continue
            key = anchor[len("before:"):] if is_before else anchor
            if isinstance(s, ast.Return) and not is_before:
                continue
            if src.startswith(key):
                self.ghost_hits.add(anchor)
                body = ast.parse(code).body
                for b in body:
                    for n in ast.walk(b):
                        n._is_ghost = True
                    ast.copy_location(b, s)
                    for n in ast.walk(b):
                        if not hasattr(n, "lineno"):
                            n.lineno = s.lineno
                        n.lineno = s.lineno
                out.extend(body)
        return out

    def st_Pass(self, s, st):
        return [(st, self.NORMAL, None)]

    def ghost_induct(self, s, st):
        """induct(var, lo, hi, claim): proof by induction inside ghost code.

        Emits  base: claim[var:=lo]  and  step: lo <= v, v+1 < hi, claim[v] |- claim[v+1]  (v fresh), then
        assumes  forall v in [lo, hi). claim[v].   `hi <= lo` makes everything vacuous."""
        call = s.value
        var = call.args[0].value
        lo = self.to_int(self.ev(st, call.args[1], True))
        hi = self.to_int(self.ev(st, call.args[2], True))
        claim = call.args[3].value
        label = call.args[4].value if len(call.args) > 4 else f"induct-{var}"
        saved = st.vars.get(var)

        def at(state, v):
            state.vars[var] = v
            try:
                return self.spec_bool(state, claim)
            finally:
                if saved is None:
                    state.vars.pop(var, None)
                else:
                    state.vars[var] = saved
        b = st.fork()
        b.assume(lo < hi)
        self.ob(b, f"L{s.lineno}:{label}:base", "lemma", at(b, lo), s.lineno, f"{claim}  at {var} = lo")
        v = z3.Int(fresh_name(var))
        h = st.fork()
        h.assume(z3.And(v >= lo, v + 1 < hi))
        h.assume(at(h, v))
        self.ob(h, f"L{s.lineno}:{label}:step", "lemma", at(h, v + 1), s.lineno, f"{claim}  at {var} -> {var}+1")
        q = z3.Int(fresh_name(var))
        st.assume(z3.ForAll([q], z3.Implies(z3.And(q >= lo, q < hi), at(st, q))))
        return [(st, self.NORMAL, None)]

    def st_Expr(self, s, st):
        if isinstance(s.value, ast.Constant):
            return [(st, self.NORMAL, None)]  # docstring
        if getattr(s, "_is_ghost", False) and isinstance(s.value, ast.Call) and self.callname(s.value.func) == "induct":
            return self.ghost_induct(s, st)
        if getattr(s, "_is_ghost", False) and isinstance(s.value, ast.Call) and self.callname(s.value.func) in SCHEMAS:
            # instance of an assumed transcendental schema (A-MATH), checked to be one by construction
            nm = self.callname(s.value.func)
            vals = [self.to_float(self.ev(st, a, True)) for a in s.value.args]
            E_, L_ = self.ufun("u_exp"), self.ufun("u_log")
            pre, fact = SCHEMAS[nm](E_, L_, *vals)
            if pre is not None:
                self.ob(st, f"L{s.lineno}:schema:{nm}:side-condition", "lemma", pre, s.lineno, f"{nm} side condition")
            st.assume(fact)
            note = f"A-MATH schema instance used in {self.fn.qualname}: {nm} -- {SCHEMA_DOC[nm]}"
            if note not in self.notes:
                self.notes.append(note)
            return [(st, self.NORMAL, None)]
        if getattr(s, "_is_ghost", False) and isinstance(s.value, ast.Call) and self.callname(s.value.func) == "recut":
            if not self.loop_stack:
                raise Unsupported("recut() outside a loop")
            self.loop_stack[-1](st, s.lineno)
            return [(st, self.NORMAL, None)]
        if getattr(s, "_is_ghost", False) and isinstance(s.value, ast.Call) and self.callname(s.value.func) == "assert_":
            g = self.spec_bool_node(st, s.value.args[0])
            self.ob(st, f"L{s.lineno}:ghost-assert", "lemma", g, s.lineno, ast.unparse(s.value.args[0]))
            st.assume(g)
            return [(st, self.NORMAL, None)]
        if isinstance(s.value, ast.Call):
            nm = self.callname(s.value.func) or ""
            if nm.startswith("logger.") or nm.startswith("logging.") or nm == "print":
                return [(st, self.NORMAL, None)]
            # list.append / set.add used by the list-then-np.array idiom
            if isinstance(s.value.func, ast.Attribute) and s.value.func.attr in ("append", "add", "extend", "pop"):
                raise Unsupported(f"python container mutation at line {s.lineno}")
        self.ev(st, s.value)
        return [(st, self.NORMAL, None)]

    def st_FunctionDef(self, s, st):
        st.vars[s.name] = Closure(s)
        return [(st, self.NORMAL, None)]

    def st_Assert(self, s, st):
        c = self.ev(st, s.test)
        c = self.to_bool(c) if not isinstance(c, (Vec, MaskedVec)) else None
        if c is None:
            raise Unsupported("vector assert")
        src = ast.unparse(s.test)
        why = self.contract.assume_asserts.get(src)
        if why is not None:
            note = f"real-code `assert {src}` in {self.fn.qualname} is NOT discharged (assumed): {why}"
            if note not in self.notes:
                self.notes.append(note)
        else:
            self.ob(st, f"L{s.lineno}:assert", "assert", c, s.lineno, src)
        st.assume(c)
        return [(st, self.NORMAL, None)]

    def st_Return(self, s, st):
        v = self.ev(st, s.value) if s.value is not None else NoneVal()
        return [(st, self.RETURN, v)]

    def st_Raise(self, s, st):
        exc = s.exc
        name = None
        if isinstance(exc, ast.Call):
            name = self.callname(exc.func)
        elif isinstance(exc, ast.Name):
            name = exc.id
        return [(st, self.RAISE, name)]

    def st_Break(self, s, st):
        return [(st, self.BREAK, None)]

    def st_Continue(self, s, st):
        return [(st, self.CONTINUE, None)]

    def st_If(self, s, st):
        c = self.ev(st, s.test)
        if isinstance(c, (Vec, MaskedVec)):
            raise Unsupported("vector condition")
        c = self.to_bool(c) if is_z3(c) else bool(c)
        if c is True or (is_z3(c) and z3.is_true(c)):
            return self.exec_block(s.body, st)
        if c is False or (is_z3(c) and z3.is_false(c)):
            return self.exec_block(s.orelse, st)
        s1 = st.fork()
        s1.assume(c)
        s2 = st
        s2.assume(z3.Not(c))
        self.npaths += 1
        return self.exec_block(s.body, s1) + self.exec_block(s.orelse, s2)

    # ------------------------------------------------------------------ assignment
    def st_Assign(self, s, st):
        if len(s.targets) != 1:
            raise Unsupported("chained assignment")
        v = self.ev(st, s.value)
        self.assign(st, s.targets[0], v, s.lineno)
        return [(st, self.NORMAL, None)]

    def st_AnnAssign(self, s, st):
        v = self.ev(st, s.value)
        self.assign(st, s.target, v, s.lineno)
        return [(st, self.NORMAL, None)]

    def st_AugAssign(self, s, st):
        from .vc_expr import BIN
        op = BIN[type(s.op)]
        cur = self.ev(st, s.target)
        rhs = self.ev(st, s.value)
        if isinstance(cur, MaskedVec):
            raise Unsupported("augmented masked assignment")
        v = self.binop(st, op, cur, rhs, s.lineno)
        self.assign(st, s.target, v, s.lineno, aug=True)
        return [(st, self.NORMAL, None)]

    def assign(self, st, target, v, ln, aug=False):
        if isinstance(target, ast.Name):
            if isinstance(v, Vec) and aug and isinstance(st.vars.get(target.id), Ref):
                # x += vec on an array variable is in place
                self.store_vec(st, st.vars[target.id], v, ln)
                return
            st.vars[target.id] = v
            return
        if isinstance(target, (ast.Tuple, ast.List)):
            if isinstance(v, Ref) and self.ref_ndim(st, v) == 1:
                n = self.ref_shape(st, v)[0]
                if not isinstance(n, int) or n != len(target.elts):
                    raise Unsupported("unpacking array of unknown length")
                v = tuple(self.load(st, v, [k], ln) for k in range(n))
            if isinstance(v, Vec):
                if not isinstance(v.n, int) or v.n != len(target.elts):
                    raise Unsupported("unpacking vector")
                v = tuple(v.at(k) for k in range(v.n))
            if not isinstance(v, tuple) or len(v) != len(target.elts):
                raise Unsupported(f"tuple unpacking at line {ln}")
            # evaluate all, then assign (python semantics: rhs already evaluated)
            for t, x in zip(target.elts, v):
                self.assign(st, t, x, ln)
            return
        if isinstance(target, ast.Subscript):
            base = self.ev(st, target.value)
            if isinstance(base, Vec) and isinstance(target.value, ast.Name):
                # the result of an elementwise expression is a fresh array: allocate it on first store
                base = self.materialize(st, base, target.value.id)
                st.vars[target.value.id] = base
            if isinstance(target.slice, ast.Tuple):
                idxs = [self.ev_index(st, e, False) for e in target.slice.elts]
            else:
                idxs = [self.ev_index(st, target.slice, False)]
            self.assign_sub(st, base, idxs, v, ln, ast.unparse(target))
            return
        if isinstance(target, ast.Attribute):
            raise Unsupported("attribute assignment")
        raise Unsupported("assignment target")

    def assign_sub(self, st, base, idxs, v, ln, what):
        if not isinstance(base, Ref):
            raise Unsupported(f"store into {type(base).__name__}")
        shape = self.ref_shape(st, base)
        nd = len(shape)
        if _has(idxs, "ellipsis"):
            k = _pos(idxs, "ellipsis")
            idxs = idxs[:k] + [Slice(None, None)] * (nd - (len(idxs) - 1)) + idxs[k + 1:]
        vec_pos = [k for k, ix in enumerate(idxs) if isinstance(ix, Slice) or self.is_arraylike(ix)]
        if not vec_pos:
            if len(idxs) == nd:
                if self.is_arraylike(v) or isinstance(v, tuple):
                    raise Unsupported("array stored in scalar slot")
                self.store(st, base, idxs, v, ln, what)
                return
            # row store: a[i] = vec / tuple
            chk = [self.bounds(st, i, shape[d], ln, what) for d, i in enumerate(idxs)]
            view = Ref(base.loc, base.prefix + tuple(chk))
            self.store_vec(st, view, v, ln)
            return
        if len(vec_pos) > 1:
            # a[i, :] style with trailing full slices only
            k0 = vec_pos[0]
            if all(isinstance(idxs[k], Slice) and idxs[k].lo is None and idxs[k].hi is None for k in vec_pos) and vec_pos == list(range(k0, len(idxs))) and len(idxs) == nd and nd - k0 == 1:
                pass
            else:
                raise Unsupported(f"multi-vector store {what}")
        k0 = vec_pos[0]
        lead = [self.bounds(st, i, shape[d], ln, what) for d, i in enumerate(idxs[:k0])]
        view = Ref(base.loc, base.prefix + tuple(lead))
        vshape = self.ref_shape(st, view)
        sel = idxs[k0]
        tail = idxs[k0 + 1:]
        if len(vshape) - 1 - len(tail) != 0:
            if isinstance(sel, Slice) and sel.lo is None and sel.hi is None and not tail and len(vshape) == 1:
                pass
            else:
                raise Unsupported(f"store of rows {what}")
        tail = [self.bounds(st, i, vshape[1 + d], ln, what) for d, i in enumerate(tail)]
        cell = self.cell(st, view)
        n0 = vshape[0]
        kind = cell.kind
        # the new contents of the view as a function of index
        old_t = self.ref_term(st, view)

        def old_at(i):
            e = z3.Select(old_t, i)
            for j in tail:
                e = z3.Select(e, j)
            return e

        if isinstance(v, MaskedVec):
            # a[mask] = b[mask]  with the same mask
            src, vm = v.vec, v.mask
            val_at = lambda i: src.at(i)
        elif self.is_arraylike(v) or isinstance(v, tuple):
            vv = self.as_vec(st, v)
            val_at = lambda i: vv.at(i)
        else:
            val_at = lambda i: v
        if isinstance(sel, Slice):
            lo, hi = self.norm_slice(sel, n0)
            lo_z = lo if is_z3(lo) else z3.IntVal(lo)
            hi_z = hi if is_z3(hi) else z3.IntVal(hi)
            cond = lambda i: z3.And(i >= lo_z, i < hi_z)
            if self.is_arraylike(v) or isinstance(v, tuple):
                inner = val_at
                val_at = lambda i: inner(self.simp(i - lo_z))
        else:
            mv = self.as_vec(st, sel)
            if mv.kind != "bool":
                # a[idx_array] = scalar/vec : scatter; supported for scalar only
                if self.is_arraylike(v):
                    raise Unsupported("scatter of a vector")
                iv = mv
                j = z3.Int(fresh_name("j"))
                if self.check_bounds:
                    self.ob(st, f"L{ln}:index-array-in-bounds:{what}", "bounds",
                            z3.ForAll([j], z3.Implies(z3.And(j >= 0, j < iv.n),
                                                     z3.And(iv.at(j) >= 0, iv.at(j) < n0))), ln)
                cond = lambda i: z3.Exists([j], z3.And(j >= 0, j < iv.n, iv.at(j) == i))
            else:
                cond = lambda i: mv.at(i)
        if isinstance(n0, int) and n0 <= 8:
            # small concrete extent: expand elementwise
            t_new = old_t
            for k in range(n0):
                kk = z3.IntVal(k)
                newv_k = self.to_kind(val_at(kk), kind)
                cur = z3.Select(old_t, kk)
                if tail:
                    def setin(row, ix):
                        if not ix:
                            return z3.If(cond(kk), newv_k, old_at(kk))
                        return z3.Store(row, ix[0], setin(z3.Select(row, ix[0]), ix[1:]))
                    t_new = z3.Store(t_new, kk, setin(cur, tail))
                else:
                    t_new = z3.Store(t_new, kk, z3.If(cond(kk), newv_k, cur))
            self._write_view(st, view, z3.simplify(t_new))
            return
        # fresh contents
        new_view = z3.Const(fresh_name("upd"), old_t.sort())
        i = z3.Int(fresh_name("i"))

        def new_at(ix):
            e = z3.Select(new_view, ix)
            for j in tail:
                e = z3.Select(e, j)
            return e
        newv = self.to_kind(val_at(i), kind)
        st.assume(z3.ForAll([i], z3.Implies(z3.And(i >= 0, i < n0),
                  new_at(i) == z3.If(cond(i), newv, old_at(i))), patterns=[new_at(i)]))
        if tail:
            # other columns unchanged
            st.assume(z3.ForAll([i], z3.Implies(z3.And(i >= 0, i < n0),
                      self._others_equal(z3.Select(new_view, i), z3.Select(old_t, i), tail, vshape[1:])),
                      patterns=[z3.Select(new_view, i)]))
        # write back the whole view
        self._write_view(st, view, new_view)

    def _others_equal(self, new_row, old_row, tail, shape):
        # rows are arrays indexed by tail dims; equality everywhere except at `tail`
        if len(tail) == 1 and isinstance(shape[0], int):
            parts = []
            for k in range(shape[0]):
                parts.append(z3.Implies(tail[0] != k, z3.Select(new_row, k) == z3.Select(old_row, k)))
            return z3.And(*parts)
        j = z3.Int(fresh_name("c"))
        return z3.ForAll([j], z3.Implies(j != tail[0], z3.Select(new_row, j) == z3.Select(old_row, j)))

    def _write_view(self, st, view, new_term):
        cell = self.cell(st, view)

        def upd(term, ix):
            if not ix:
                return new_term
            return z3.Store(term, ix[0], upd(z3.Select(term, ix[0]), ix[1:]))
        cell.term = upd(cell.term, list(view.prefix))

    def store_vec(self, st, view, v, ln):
        """view[:] = v for a 1-d view."""
        shape = self.ref_shape(st, view)
        if len(shape) != 1:
            raise Unsupported("row store into n-d view")
        n = shape[0]
        kind = self.cell(st, view).kind
        if self.is_arraylike(v) or isinstance(v, tuple):
            vv = self.as_vec(st, v)
            at = vv.at
            eq = self.vec_len_eq(vv.n, n)
            if eq is False:
                raise Unsupported("row store length mismatch")
            if eq is not True:
                self.ob(st, f"L{ln}:store-length", "side", eq, ln)
        else:
            at = lambda i: v
        if isinstance(n, int):
            t = self.ref_term(st, view)
            for k in range(n):
                val = self.to_kind(at(k), kind)
                if self.name_stores and kind == "float" and is_z3(val) and val.num_args() > 0 \
                        and val.decl().kind() != z3.Z3_OP_SELECT:
                    c_ = z3.Const(fresh_name("v"), val.sort())
                    st.assume(c_ == val)
                    val = c_
                t = z3.Store(t, k, val)
            self._write_view(st, view, t)
            return
        new = z3.Const(fresh_name("row"), array_sort(self.mode, kind, 1))
        i = z3.Int(fresh_name("i"))
        st.assume(z3.ForAll([i], z3.Implies(z3.And(i >= 0, i < n), z3.Select(new, i) == self.to_kind(at(i), kind)),
                            patterns=[z3.Select(new, i)]))
        self._write_view(st, view, new)

    # ------------------------------------------------------------------ modified-set analysis
    def modified(self, st, body_nodes):
        names, locs = set(), set()
        eng = self

        def base_loc(expr):
            if isinstance(expr, ast.Name) and isinstance(st.vars.get(expr.id), Vec):
                # a lazily evaluated array expression that the loop stores into: allocate it now
                st.vars[expr.id] = eng.materialize(st, st.vars[expr.id], expr.id)
            try:
                v = eng.ev(st.fork(), expr)
            except Unsupported:
                return None
            if isinstance(v, Ref):
                return v.loc
            return None

        def visit_target(t, aug=False):
            if isinstance(t, ast.Name):
                if aug and isinstance(st.vars.get(t.id), Ref):
                    locs.add(st.vars[t.id].loc)
                names.add(t.id)
            elif isinstance(t, (ast.Tuple, ast.List)):
                for e in t.elts:
                    visit_target(e)
            elif isinstance(t, ast.Subscript):
                b = t.value
                while isinstance(b, ast.Subscript):
                    b = b.value
                loc = base_loc(b)
                if loc is None:
                    raise Unsupported(f"cannot resolve store target {ast.unparse(t)}")
                locs.add(loc)

        def visit(n):
            if isinstance(n, ast.stmt):
                for gnode in eng.ghost_for(n):
                    visit(gnode)
            if isinstance(n, ast.Assign):
                for t in n.targets:
                    visit_target(t)
            elif isinstance(n, ast.AugAssign):
                visit_target(n.target, aug=True)
            elif isinstance(n, ast.AnnAssign):
                visit_target(n.target)
            elif isinstance(n, ast.For):
                visit_target(n.target)
            elif isinstance(n, ast.Call):
                nm = eng.callname(n.func)
                cname = eng.resolve_callee(nm)
                if cname in eng.registry:
                    callee = eng.registry[cname]
                    for a in callee.assigns:
                        k = callee.params.index(a)
                        try:
                            v = eng.ev(st.fork(), n.args[k])
                        except Unsupported:
                            raise Unsupported(f"cannot resolve assigns of call {nm}")
                        if isinstance(v, Ref):
                            locs.add(v.loc)
                        elif isinstance(v, Obj):
                            for fname, fref in v.fields.items():
                                if isinstance(fref, Ref) and fname in callee.assigns_fields.get(a, v.fields):
                                    locs.add(fref.loc)
                elif nm in st.vars and isinstance(st.vars[nm], Closure):
                    for b in st.vars[nm].node.body:
                        visit(b)
            for c in ast.iter_child_nodes(n):
                visit(c)

        for b in body_nodes:
            visit(b)
        return names, locs

    def havoc(self, st, names, locs, keep=()):
        for n in sorted(names):
            if n in keep:
                continue
            v = st.vars.get(n)
            if v is None:
                continue
            if is_z3(v):
                st.vars[n] = z3.Const(fresh_name(n), v.sort())
            elif isinstance(v, bool):
                st.vars[n] = z3.Const(fresh_name(n), z3.BoolSort())
            elif isinstance(v, int):
                st.vars[n] = z3.Const(fresh_name(n), I)
            elif isinstance(v, float):
                st.vars[n] = z3.Const(fresh_name(n), self.mode.fsort)
            elif isinstance(v, Ref):
                # rebinding an array name inside a loop: keep reference (contents havocked through locs)
                pass
            elif isinstance(v, tuple) and all(is_z3(x) or isinstance(x, (int, float)) for x in v):
                st.vars[n] = tuple(z3.Const(fresh_name(n), x.sort() if is_z3(x) else (I if isinstance(x, int) else self.mode.fsort)) for x in v)
            elif isinstance(v, (Vec, Closure, NoneVal)):
                pass
            else:
                raise Unsupported(f"havoc of {n}: {type(v).__name__}")
        for loc in sorted(locs):
            c = st.heap[loc]
            c.term = z3.Const(fresh_name("hv"), c.term.sort())

    # ------------------------------------------------------------------ loops
    def loop_ordinal(self, node):
        if self.loop_nodes is None:
            self.loop_nodes = extract.loops_of(self.fn.node)
        for k, n in enumerate(self.loop_nodes):
            if n is node:
                return k
        raise Unsupported("loop not found")

    def loop_spec(self, node):
        k = self.loop_ordinal(node)
        spec = self.contract.loops.get(k)
        header = extract.loop_header(node)
        if spec is not None and spec.header != header:
            raise Unsupported(f"does-not-attach: loop {k} header is '{header}', contract expects '{spec.header}'")
        self.covered_loops.add(k)
        return k, spec, header

    def iter_plan(self, st, node):
        """Return (N, bind(st,k) , guard(k) or None) for a for-loop."""
        it = self.ev(st, node.iter)
        tgt = node.target
        if isinstance(it, tuple) and it and it[0] == "range":
            a = it[1]
            lo, hi = (0, a[0]) if len(a) == 1 else (a[0], a[1])
            if len(a) > 2:
                raise Unsupported("range step")
            return ("range", lo, hi, None)
        if isinstance(it, tuple) and it and it[0] == "enumerate":
            seq = it[1][0]
            if isinstance(seq, tuple):
                return ("list", [(k, x) for k, x in enumerate(seq)])
            vv = self.seq_vec(st, seq)
            return ("seq", vv.n, lambda k: (k, vv.at(k)), None)
        if isinstance(it, tuple) and it and it[0] == "zip":
            vs = [self.seq_vec(st, x) for x in it[1]]
            n = vs[0].n
            for other in vs[1:]:
                eq = self.vec_len_eq(n, other.n)
                if eq is not True:
                    self.ob(st, f"L{node.lineno}:zip-equal-length", "side", eq, node.lineno)
            return ("seq", n, lambda k: tuple(v.at(k) for v in vs), None)
        if isinstance(it, tuple) and it and it[0] == "flatnonzero":
            mv = it[1]
            return ("seq", mv.n, lambda k: k, lambda k: mv.at(k))
        if isinstance(it, tuple):
            return ("list", list(it))
        if isinstance(it, (Ref, Vec)):
            vv = self.seq_vec(st, it)
            return ("seq", vv.n, lambda k: vv.at(k), None)
        raise Unsupported(f"iteration over {ast.unparse(node.iter)}")

    def seq_vec(self, st, x):
        if isinstance(x, Ref) and self.ref_ndim(st, x) == 2:
            # iterate rows
            t = self.ref_term(st, x)
            shape = self.ref_shape(st, x)
            if isinstance(shape[1], int):
                return Vec(shape[0], lambda i: tuple(z3.Select(z3.Select(t, i), c) for c in range(shape[1])), self.cell(st, x).kind)
            raise Unsupported("row iteration")
        return self.as_vec(st, x)

    def st_For(self, s, st):
        if s.orelse:
            raise Unsupported("for-else")
        plan = self.iter_plan(st, s)
        ordinal, spec, header = self.loop_spec(s)
        # concrete small loops: unroll
        if plan[0] == "list" or (plan[0] == "range" and isinstance(plan[1], int) and isinstance(plan[2], int) and plan[2] - plan[1] <= UNROLL_MAX and spec is None) \
                or (plan[0] == "seq" and isinstance(plan[1], int) and plan[1] <= UNROLL_MAX and spec is None):
            if plan[0] == "list":
                items = plan[1]
            elif plan[0] == "range":
                items = list(range(plan[1], plan[2]))
            else:
                items = [plan[2](k) for k in range(plan[1])]
                if plan[3] is not None:
                    raise Unsupported("guarded small loop")
            return self.unroll(s, st, items)
        return self.cut_loop(s, st, plan, ordinal, spec, header)

    def unroll(self, s, st, items):
        states = [(st, self.NORMAL, None)]
        for item in items:
            nxt = []
            for cur, flow, val in states:
                if flow != self.NORMAL:
                    nxt.append((cur, flow, val))
                    continue
                self.assign(cur, s.target, item, s.lineno)
                for c2, f2, v2 in self.exec_block(s.body, cur):
                    if f2 == self.CONTINUE:
                        f2 = self.NORMAL
                    nxt.append((c2, f2, v2))
            states = nxt
        return [(c, self.NORMAL if f == self.BREAK else f, v) for c, f, v in states]

    def cut_loop(self, s, st, plan, ordinal, spec, header):
        ln = s.lineno
        is_while = isinstance(s, ast.While)
        invs = list(spec.invariants) if spec else []
        counter = spec.counter if spec and spec.counter else None
        lo = hi = None
        if not is_while:
            if plan[0] == "range":
                lo, hi = plan[1], plan[2]
                if counter is None and isinstance(s.target, ast.Name):
                    counter = s.target.id
            else:
                lo, hi = 0, plan[1]
                if counter is None:
                    counter = f"_k{ordinal}"
            lo_z = self.to_int(lo)
            hi_z = self.to_int(hi)
        tag = f"L{ln}:loop{ordinal}"

        inv_ids = {}  # z3 ast id of an assumed invariant formula -> invariant index

        def eval_invs(state, kind, cval):
            if counter is not None:
                state.vars[counter] = cval
            if kind == "assume" and spec:
                for clause in spec.assumed:
                    state.assume(self.spec_bool(state, clause))
                    note = f"ASSUMED (unchecked) at loop {ordinal} of {self.fn.qualname}: {clause}"
                    if note not in self.notes:
                        self.notes.append(note)
            for k, clause in enumerate(invs):
                g = self.spec_bool(state, clause)
                if kind == "assume":
                    state.assume(g)
                    if is_z3(g):
                        inv_ids[g.get_id()] = k
                else:
                    uses = spec.uses.get(k) if (spec and kind == "inv-pres") else None
                    if uses is not None:
                        # modular preservation proof: only the listed invariants are assumed (fewer assumptions: sound)
                        keep = set(uses) | {k}
                        saved_pc = state.pc
                        state.pc = [f for f in saved_pc if inv_ids.get(f.get_id(), None) is None or inv_ids[f.get_id()] in keep]
                        self.ob(state, f"{tag}:{kind}[{k}]", kind, g, ln, clause)
                        state.pc = saved_pc
                    else:
                        self.ob(state, f"{tag}:{kind}[{k}]", kind, g, ln, clause)

        # ghost initialisation
        if spec:
            for gname, gexpr in spec.ghost_init.items():
                st.ghost[gname] = self.ev(st, ast.parse(gexpr, mode="eval").body, True)
        # 1. initiation
        pre = st.fork()
        eval_invs(pre, "inv-init", None if is_while else lo_z)
        # 2. havoc
        names, locs = self.modified(st, s.body)
        if spec:
            for gname in spec.ghost_modified:
                g = st.ghost[gname]
                if isinstance(g, Ref):
                    locs.add(g.loc)
                else:
                    st.ghost[gname] = z3.Const(fresh_name(gname), g.sort())
        if not is_while and isinstance(s.target, ast.Name):
            names.discard(s.target.id)
        head = st
        before = self.state_symbols(head)
        self.havoc(head, names, locs)
        if spec is None or spec.forget:
            # Hoare-style cut: facts about the pre-havoc values of modified variables cannot be
            # used through the havocked state, so they are dropped (sound: fewer assumptions)
            dead = before - self.state_symbols(head)
            if dead:
                head.pc = [f for f in head.pc if not (self.formula_symbols(f) & dead)]
        if not is_while:
            k = z3.Int(fresh_name(counter))
            head.assume(k >= lo_z)
            head.assume(z3.Or(k <= hi_z, k == lo_z))
            eval_invs(head, "assume", k)
        else:
            eval_invs(head, "assume", None)
        # 3. exit path
        exit_st = head.fork()
        # 4. body path
        body_st = head
        results = []
        if is_while:
            c = self.ev(body_st, s.test)
            c = self.to_bool(c)
            body_st.assume(c)
            exit_st.assume(z3.Not(self.to_bool(self.ev(exit_st, s.test))))
        else:
            body_st.assume(k < hi_z)
            exit_st.assume(k >= hi_z)
            if plan[0] == "range":
                self.assign(body_st, s.target, k, ln)
                guard = None
            else:
                item = plan[2](k)
                guard = plan[3]
                self.assign(body_st, s.target, item, ln)
        # cover: the loop body is reachable
        self.cover(body_st, f"{tag}:body-reachable", ln)
        variant0 = None
        if spec and spec.variant:
            variant0 = self.to_int(self.ev(body_st, ast.parse(spec.variant, mode="eval").body, True))
        def recut(state, lineno, _names=frozenset(names), _locs=frozenset(locs), _k=(None if is_while else k)):
            """mid-body cut: prove the loop invariants, forget the modified state, re-assume them"""
            chk = state.fork()
            saved_k = chk.vars.get(counter) if counter else None
            if counter is not None:
                chk.vars[counter] = _k
            for kx, clause in enumerate(invs):
                self.ob(chk, f"L{lineno}:loop{ordinal}:recut[{kx}]", "inv-pres", self.spec_bool(chk, clause), lineno, clause)
            keep_targets = set()
            if not is_while:
                for t_ in ast.walk(s.target):
                    if isinstance(t_, ast.Name):
                        keep_targets.add(t_.id)
            before_ = self.state_symbols(state)
            # scalars keep their (precise) values of this iteration; only array contents are forgotten
            self.havoc(state, set(), _locs)
            dead_ = before_ - self.state_symbols(state)
            if dead_:
                state.pc = [f for f in state.pc if not (self.formula_symbols(f) & dead_)]
            if counter is not None:
                state.vars[counter] = _k
            for kx, clause in enumerate(invs):
                g_ = self.spec_bool(state, clause)
                state.assume(g_)
                if is_z3(g_):
                    inv_ids[g_.get_id()] = kx
            if spec:
                for clause in spec.assumed:
                    state.assume(self.spec_bool(state, clause))
            if counter is not None and saved_k is not None:
                state.vars[counter] = saved_k
        self.loop_stack.append(recut)
        if not is_while and plan[0] != "range" and guard is not None:
            skip = body_st.fork()
            g = self.to_bool(guard(k))
            skip.assume(z3.Not(g))
            body_st.assume(g)
            outs = [(skip, self.NORMAL, None)] + self.exec_block(s.body, body_st)
        else:
            outs = self.exec_block(s.body, body_st)
        self.loop_stack.pop()
        for cur, flow, val in outs:
            if flow in (self.NORMAL, self.CONTINUE):
                nxt = None if is_while else k + 1
                eval_invs(cur, "inv-pres", nxt)
                if variant0 is not None:
                    v1 = self.to_int(self.ev(cur, ast.parse(spec.variant, mode="eval").body, True))
                    self.ob(cur, f"{tag}:variant-decreases", "inv-pres", z3.And(v1 < variant0, variant0 >= 0), ln, spec.variant)
            elif flow == self.BREAK:
                results.append((cur, self.NORMAL, None))
            else:
                results.append((cur, flow, val))
        if is_while and not (spec and spec.variant):
            self.notes.append(f"{self.fn.qualname} loop {ordinal} ('{header}'): no variant, partial correctness only")
        if counter is not None and not is_while and plan[0] != "range":
            exit_st.vars.pop(counter, None)
        results.append((exit_st, self.NORMAL, None))
        return results

    def formula_symbols(self, f):
        cache = self._symcache
        k = f.get_id()
        if k in cache:
            return cache[k]
        out = set()
        seen = set()

        def visit(t):
            i = t.get_id()
            if i in seen:
                return
            seen.add(i)
            if z3.is_quantifier(t):
                visit(t.body())
                return
            if z3.is_app(t):
                if t.decl().kind() == z3.Z3_OP_UNINTERPRETED and t.num_args() == 0:
                    out.add(t.decl().name())
                for c in t.children():
                    visit(c)
        visit(f)
        cache[k] = out
        return out

    def state_symbols(self, st):
        out = set()

        def val(v):
            if is_z3(v):
                out.update(self.formula_symbols(v))
            elif isinstance(v, Ref):
                c = st.heap[v.loc]
                out.update(self.formula_symbols(c.term))
                for s_ in c.shape:
                    val(s_)
                for p_ in v.prefix:
                    val(p_)
            elif isinstance(v, tuple):
                for x in v:
                    val(x)
            elif isinstance(v, Obj):
                for x in v.fields.values():
                    val(x)
        for v in st.vars.values():
            val(v)
        for v in st.ghost.values():
            if not isinstance(v, list):
                val(v)
        for v in st.entry.values():
            if isinstance(v, Ref):
                c = st.entry_heap[v.loc]
                out.update(self.formula_symbols(c.term))
                for s_ in c.shape:
                    val(s_)
            elif isinstance(v, Obj):
                for x in v.fields.values():
                    if isinstance(x, Ref):
                        out.update(self.formula_symbols(st.entry_heap[x.loc].term))
            else:
                val(v)
        return out

    def st_While(self, s, st):
        if s.orelse:
            raise Unsupported("while-else")
        ordinal, spec, header = self.loop_spec(s)
        return self.cut_loop(s, st, None, ordinal, spec, header)

    def cover(self, st, name, ln):
        full = self.unique(f"{self.fn.module}.{self.fn.qualname}:{name}")
        from .vcgen import Obligation
        o = Obligation(full, "cover", st.pc, z3.BoolVal(False), ln, f"{self.fn.module}.{self.fn.qualname}", "reachability")
        o.expect = "sat"
        self.obligations.append(o)
