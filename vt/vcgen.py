"""
G1: verification-condition generator over the real Python AST of tsdate's numba kernels.

Forward symbolic execution with path splitting.  Loops are cut at their invariant, calls are
replaced by the callee's contract, real-code ``assert`` statements become obligations.  The
numeric encoding is chosen by the contract (mode 'real' or 'fp64').
"""
import ast
import copy
import os

import z3

from .values import (Cell, Closure, Mode, NoneVal, Obj, Ref, Unsupported, Vec, array_sort,
                     fresh_name, is_z3, kind_of)

I = z3.IntSort()
B = z3.BoolSort()
NULL = -1


class Obligation:
    def __init__(self, name, kind, assumptions, goal, lineno, func, text=""):
        self.name = name
        self.kind = kind  # 'post','assert','inv-init','inv-pres','pre-call','bounds','side','lemma','cover'
        self.assumptions = list(assumptions)
        self.goal = goal
        self.lineno = lineno
        self.func = func
        self.text = text
        self.expect = "unsat"  # cover obligations expect 'sat'
        self.inputs = None  # filled by the driver for model extraction


class State:
    def __init__(self, mode):
        self.mode = mode
        self.vars = {}
        self.heap = {}
        self.pc = []
        self.entry = {}  # name -> value at function entry (for old())
        self.entry_heap = {}
        self.ghost = {}
        self.nloc = 0

    def fork(self):
        s = State(self.mode)
        s.vars = dict(self.vars)
        s.heap = {k: Cell(c.term, c.shape, c.kind) for k, c in self.heap.items()}
        s.pc = list(self.pc)
        s.entry = self.entry
        s.entry_heap = self.entry_heap
        s.ghost = dict(self.ghost)
        s.nloc = self.nloc
        return s

    def alloc(self, term, shape, kind):
        # locations must be unique across forks: use a global counter
        loc = fresh_name("loc")
        self.heap[loc] = Cell(term, shape, kind)
        return Ref(loc)

    def assume(self, f):
        if f is True or (is_z3(f) and z3.is_true(f)):
            return
        self.pc.append(f if is_z3(f) else z3.BoolVal(bool(f)))


class Flow:
    NORMAL, BREAK, CONTINUE, RETURN, RAISE, DEAD = range(6)


class EngineBase:
    def __init__(self, fn, contract, registry, consts=None):
        """
        fn: extract.Extracted ; contract: contracts.Contract ; registry: name -> Contract (callees)
        consts: module-level constants visible to the function
        """
        self.fn = fn
        self.contract = contract
        self.registry = registry
        self.mode = Mode(contract.mode)
        self.mode.neg_inf_sentinel = bool(getattr(contract, 'neg_inf_sentinel', False))
        self.mode.nan_sentinel = bool(getattr(contract, 'nan_sentinel', False))
        self.obligations = []
        self.consts = dict(consts or {})
        self.loop_nodes = None
        self.check_bounds = contract.check_bounds
        self.notes = []
        self.covered_loops = set()
        self.max_paths = 4000
        self.npaths = 0
        self._names = {}
        self._symcache = {}
        self.ghost_hits = set()
        self._suppress_side = 0
        self.loop_stack = []
        self.name_stores = bool(getattr(contract, 'name_stores', False))
        self.abstract_fp = bool(getattr(contract, 'abstract_fp', False)) or bool(os.environ.get('VT_ABSFP'))

    # ------------------------------------------------------------------ helpers
    def ob(self, st, name, kind, goal, lineno, text=""):
        if goal is True:
            return
        if not is_z3(goal):
            goal = z3.BoolVal(bool(goal))
        full = self.unique(f"{self.fn.module}.{self.fn.qualname}:{name}")
        self.obligations.append(
            Obligation(full, kind, st.pc, goal, lineno, f"{self.fn.module}.{self.fn.qualname}", text))

    def resolve_callee(self, name):
        if name is None:
            return None
        name = self.contract.callee_alias.get(name, name)
        if name in self.registry:
            return name
        q = f"{self.fn.module}.{name}"
        if q in self.registry:
            return q
        return name

    def unique(self, full):
        k = self._names.get(full, 0)
        self._names[full] = k + 1
        return full if k == 0 else f"{full}#{k}"

    def fconst(self, v):
        return self.mode.fconst(v)

    def to_float(self, v):
        m = self.mode
        if isinstance(v, bool):
            v = int(v)
        if isinstance(v, (int, float)):
            return m.fconst(float(v) if m.fp else v)
        if v.sort() == m.fsort:
            return v
        if v.sort() == I:
            if m.fp:
                return z3.fpToFP(m.rm, z3.ToReal(v), z3.Float64())
            return z3.ToReal(v)
        if v.sort() == B:
            return z3.If(v, self.fconst(1.0), self.fconst(0.0))
        raise Unsupported(f"to_float {v.sort()}")

    def to_int(self, v):
        if isinstance(v, bool):
            return z3.IntVal(int(v))
        if isinstance(v, int):
            return z3.IntVal(v)
        if is_z3(v) and v.sort() == I:
            return v
        if is_z3(v) and v.sort() == B:
            return z3.If(v, z3.IntVal(1), z3.IntVal(0))
        raise Unsupported(f"to_int {v!r}")

    def to_bool(self, v):
        if isinstance(v, (bool, int)):
            return z3.BoolVal(bool(v))
        if isinstance(v, float):
            return z3.BoolVal(v != 0.0)
        if is_z3(v):
            if v.sort() == B:
                return v
            if v.sort() == I:
                return v != 0
            if v.sort() == self.mode.fsort:
                return z3.Not(self.feq(v, self.fconst(0.0)))
        raise Unsupported(f"to_bool {v!r}")

    def to_kind(self, v, kind):
        return {"int": self.to_int, "float": self.to_float, "bool": self.to_bool}[kind](v)

    def kind(self, v):
        return kind_of(v, self.mode)

    # float primitives (mode dependent)
    def feq(self, a, b):
        return z3.fpEQ(a, b) if self.mode.fp else a == b

    def fcmp(self, op, a, b):
        if self.mode.fp:
            return {"<": z3.fpLT, "<=": z3.fpLEQ, ">": z3.fpGT, ">=": z3.fpGEQ,
                    "==": z3.fpEQ, "!=": lambda x, y: z3.Not(z3.fpEQ(x, y))}[op](a, b)
        return {"<": lambda x, y: x < y, "<=": lambda x, y: x <= y, ">": lambda x, y: x > y,
                ">=": lambda x, y: x >= y, "==": lambda x, y: x == y,
                "!=": lambda x, y: x != y}[op](a, b)

    def farith(self, op, a, b, st, lineno):
        m = self.mode
        if m.fp and self.abstract_fp:
            name = {"+": "fadd", "-": "fsub", "*": "fmul", "/": "fdiv"}[op]
            return z3.Function(name, m.fsort, m.fsort, m.fsort)(a, b)
        if m.fp:
            if op == "+":
                return z3.fpAdd(m.rm, a, b)
            if op == "-":
                return z3.fpSub(m.rm, a, b)
            if op == "*":
                return z3.fpMul(m.rm, a, b)
            if op == "/":
                return z3.fpDiv(m.rm, a, b)
            raise Unsupported(f"fp op {op}")
        if op == "+":
            return a + b
        if op == "-":
            return a - b
        if op == "*":
            return a * b
        if op == "/":
            if self.contract.div_side and not self._suppress_side:
                self.ob(st, f"L{lineno}:div-nonzero", "side", b != 0, lineno, "divisor != 0")
            return a / b
        raise Unsupported(f"real op {op}")

    def isnan(self, a):
        if self.mode.fp:
            return z3.fpIsNaN(a)
        return z3.BoolVal(False)

    def isfinite(self, a):
        if self.mode.fp:
            return z3.And(z3.Not(z3.fpIsNaN(a)), z3.Not(z3.fpIsInf(a)))
        return z3.BoolVal(True)

    # ------------------------------------------------------------------ arrays
    def cell(self, st, ref):
        return st.heap[ref.loc]

    def ref_ndim(self, st, ref):
        return st.heap[ref.loc].ndim - len(ref.prefix)

    def ref_shape(self, st, ref):
        return st.heap[ref.loc].shape[len(ref.prefix):]

    def ref_term(self, st, ref):
        t = st.heap[ref.loc].term
        for i in ref.prefix:
            t = z3.Select(t, i)
        return t

    def bounds(self, st, idx, n, lineno, what):
        """Normalise an index (python negative constants wrap) and emit a bounds obligation."""
        if isinstance(idx, int) and not isinstance(idx, bool):
            if idx < 0:
                idx = n + idx if not isinstance(n, int) else n + idx
                idx = idx if is_z3(idx) else z3.IntVal(idx)
            else:
                idx = z3.IntVal(idx)
        idx = self.to_int(idx)
        if self.check_bounds:
            nn = n if is_z3(n) else z3.IntVal(n)
            goal = z3.simplify(z3.And(idx >= 0, idx < nn))
            if not z3.is_true(goal):
                self.ob(st, f"L{lineno}:index-in-bounds:{what}", "bounds", goal, lineno,
                        f"0 <= {idx} < {nn}")
        return idx

    def load(self, st, ref, idxs, lineno, what="?"):
        cell = self.cell(st, ref)
        shape = self.ref_shape(st, ref)
        t = self.ref_term(st, ref)
        for d, i in enumerate(idxs):
            i = self.bounds(st, i, shape[d], lineno, what)
            t = z3.Select(t, i)
        return t

    def store(self, st, ref, idxs, value, lineno, what="?"):
        """Store a scalar (full index) or a nested-array term (partial index)."""
        cell = self.cell(st, ref)
        shape = self.ref_shape(st, ref)
        idxs = [self.bounds(st, i, shape[d], lineno, what) for d, i in enumerate(idxs)]
        full = list(ref.prefix) + idxs

        def upd(term, ix):
            if not ix:
                return value
            return z3.Store(term, ix[0], upd(z3.Select(term, ix[0]), ix[1:]))

        if len(full) == cell.ndim:
            value = self.to_kind(value, cell.kind)
            if self.name_stores and cell.kind == "float" and is_z3(value) and value.num_args() > 0 \
                    and value.decl().kind() not in (z3.Z3_OP_SELECT,):
                # SSA-style naming: keep array cells atomic so later facts do not carry ever-growing terms
                c_ = z3.Const(fresh_name("v"), value.sort())
                st.assume(c_ == value)
                value = c_
        cell.term = upd(cell.term, full)

    def as_vec(self, st, v):
        """View a value as an immutable 1-d Vec (captures the current heap term)."""
        if isinstance(v, Vec):
            return v
        if isinstance(v, Ref):
            if self.ref_ndim(st, v) != 1:
                raise Unsupported("as_vec on non 1-d ref")
            t = self.ref_term(st, v)
            n = self.ref_shape(st, v)[0]
            return Vec(n, lambda i, t=t: z3.Select(t, i), self.cell(st, v).kind)
        if isinstance(v, tuple):
            vals = list(v)
            k = "float" if any(self.kind(x) == "float" for x in vals) else self.kind(vals[0])
            vals = [self.to_kind(x, k) for x in vals]

            def at(i, vals=vals):
                if isinstance(i, int):
                    return vals[i]
                e = vals[-1]
                for j in range(len(vals) - 2, -1, -1):
                    e = z3.If(i == j, vals[j], e)
                return e
            return Vec(len(vals), at, k)
        raise Unsupported(f"as_vec {v!r}")

    def is_arraylike(self, v):
        return isinstance(v, (Ref, Vec))

    def materialize(self, st, vec, name="vec"):
        """Allocate a fresh 1-d array equal to the Vec."""
        kind = vec.kind
        if isinstance(vec.n, int):
            a = z3.Const(fresh_name(name), array_sort(self.mode, kind, 1))
            for j in range(vec.n):
                a = z3.Store(a, j, vec.at(j) if True else None)
            return st.alloc(a, [vec.n], kind)
        a = z3.Const(fresh_name(name), array_sort(self.mode, kind, 1))
        i = z3.Int(fresh_name("i"))
        body = z3.Select(a, i) == vec.at(i)
        st.assume(z3.ForAll([i], z3.Implies(z3.And(i >= 0, i < vec.n), body),
                            patterns=[z3.Select(a, i)]))
        st.assume(vec.n >= 0)
        return st.alloc(a, [vec.n], kind)

    def new_array(self, st, shape, kind, fill=None, name="arr"):
        ndim = len(shape)
        if fill is None:
            a = z3.Const(fresh_name(name), array_sort(self.mode, kind, ndim))
        else:
            a = self.to_kind(fill, kind)
            for _ in range(ndim):
                a = z3.K(I, a)
        for s in shape:
            if is_z3(s):
                st.assume(s >= 0)
        return st.alloc(a, shape, kind)

    def vec_len_eq(self, a, b):
        if isinstance(a, int) and isinstance(b, int):
            return a == b
        return (a if is_z3(a) else z3.IntVal(a)) == (b if is_z3(b) else z3.IntVal(b))

    # ------------------------------------------------------------------ binary ops
    def binop(self, st, op, a, b, lineno):
        if self.is_arraylike(a) or self.is_arraylike(b) or isinstance(a, tuple) and self.is_arraylike(b):
            return self.vec_binop(st, op, a, b, lineno)
        # python constants
        if not is_z3(a) and not is_z3(b) and not isinstance(a, (tuple, NoneVal)) and not isinstance(b, (tuple, NoneVal)):
            try:
                return {"+": lambda: a + b, "-": lambda: a - b, "*": lambda: a * b,
                        "/": lambda: a / b, "//": lambda: a // b, "%": lambda: a % b,
                        "**": lambda: a ** b}[op]()
            except ZeroDivisionError:
                raise Unsupported("constant division by zero")
        ka, kb = self.kind(a), self.kind(b)
        if op == "/" or ka == "float" or kb == "float":
            if op == "**":
                return self.fpow(st, self.to_float(a), b, lineno)
            if op in ("//", "%"):
                raise Unsupported("float floor-div / mod")
            return self.farith(op, self.to_float(a), self.to_float(b), st, lineno)
        a, b = self.to_int(a), self.to_int(b)
        if op == "+":
            return a + b
        if op == "-":
            return a - b
        if op == "*":
            return a * b
        if op == "//":
            # python floor division; z3 div is euclidean: equal when divisor > 0
            self.ob(st, f"L{lineno}:floordiv-positive-divisor", "side", b > 0, lineno)
            return a / b
        if op == "%":
            self.ob(st, f"L{lineno}:mod-positive-divisor", "side", b > 0, lineno)
            return a % b
        if op == "**":
            if isinstance(b, int) or z3.is_int_value(b):
                n = b if isinstance(b, int) else b.as_long()
                r = z3.IntVal(1)
                for _ in range(n):
                    r = r * a
                return r
        raise Unsupported(f"int op {op}")

    def fpow(self, st, a, b, lineno):
        if isinstance(b, int) and b >= 0:
            r = self.fconst(1.0)
            for _ in range(b):
                r = self.farith("*", r, a, st, lineno)
            return r
        raise Unsupported("general power")

    def vec_binop(self, st, op, a, b, lineno):
        va = self.as_vec(st, a) if (self.is_arraylike(a) or isinstance(a, tuple)) else None
        vb = self.as_vec(st, b) if (self.is_arraylike(b) or isinstance(b, tuple)) else None
        n = va.n if va is not None else vb.n
        if va is not None and vb is not None:
            eq = self.vec_len_eq(va.n, vb.n)
            if eq is not True:
                if eq is False:
                    raise Unsupported("vector length mismatch")
                self.ob(st, f"L{lineno}:broadcast-length", "side", eq, lineno)

        if op == "/" and not self.mode.fp and self.contract.div_side and not self._suppress_side:
            q = z3.Int(fresh_name("q"))
            den = vb.at(q) if vb is not None else b
            nz = self.to_float(den) != 0 if is_z3(den) or True else den != 0
            nn_ = n if is_z3(n) else z3.IntVal(n)
            self.ob(st, f"L{lineno}:elementwise-div-nonzero", "side",
                    z3.ForAll([q], z3.Implies(z3.And(q >= 0, q < nn_), nz)), lineno, "every divisor of the elementwise division != 0")

        def at(i):
            x = va.at(i) if va is not None else a
            y = vb.at(i) if vb is not None else b
            self._suppress_side += 1
            try:
                return self.binop(st, op, x, y, lineno)
            finally:
                self._suppress_side -= 1
        # result kind
        ka = va.kind if va is not None else self.kind(a)
        kb = vb.kind if vb is not None else self.kind(b)
        k = "float" if (op == "/" or "float" in (ka, kb)) else "int"
        # evaluate once on a dummy index to surface Unsupported early and side obligations
        return Vec(n, at, k)

    def compare(self, st, op, a, b, lineno):
        if self.is_arraylike(a) or self.is_arraylike(b):
            va = self.as_vec(st, a) if self.is_arraylike(a) else None
            vb = self.as_vec(st, b) if self.is_arraylike(b) else None
            n = va.n if va is not None else vb.n

            def at(i):
                return self.compare(st, op, va.at(i) if va is not None else a,
                                    vb.at(i) if vb is not None else b, lineno)
            return Vec(n, at, "bool")
        if isinstance(a, NoneVal) or isinstance(b, NoneVal):
            same = isinstance(a, NoneVal) and isinstance(b, NoneVal)
            return same if op in ("==", "is") else (not same)
        if isinstance(a, tuple) and isinstance(b, tuple):
            if op not in ("==", "!="):
                raise Unsupported("tuple ordering")
            if len(a) != len(b):
                return op == "!="
            eqs = [self.to_bool(self.compare(st, "==", x, y, lineno)) for x, y in zip(a, b)]
            r = z3.And(*eqs) if eqs else z3.BoolVal(True)
            return r if op == "==" else z3.Not(r)
        if not is_z3(a) and not is_z3(b):
            return {"<": a < b, "<=": a <= b, ">": a > b, ">=": a >= b, "==": a == b,
                    "!=": a != b}[op]
        ka, kb = self.kind(a), self.kind(b)
        if "float" in (ka, kb):
            return self.fcmp(op, self.to_float(a), self.to_float(b))
        if ka == "bool" and kb == "bool":
            a, b = self.to_bool(a), self.to_bool(b)
            if op == "==":
                return a == b
            if op == "!=":
                return a != b
        a, b = self.to_int(a), self.to_int(b)
        return {"<": a < b, "<=": a <= b, ">": a > b, ">=": a >= b, "==": a == b,
                "!=": a != b}[op]

    def pymax(self, st, a, b, lineno):
        # python: max(a, b) returns a unless b > a
        c = self.to_bool(self.compare(st, ">", b, a, lineno))
        return self.ite(c, b, a)

    def pymin(self, st, a, b, lineno):
        c = self.to_bool(self.compare(st, "<", b, a, lineno))
        return self.ite(c, b, a)

    def ite(self, c, a, b):
        if not is_z3(c):
            return a if c else b
        if z3.is_true(c):
            return a
        if z3.is_false(c):
            return b
        ka, kb = self.kind(a), self.kind(b)
        k = "float" if "float" in (ka, kb) else ka
        return z3.If(c, self.to_kind(a, k), self.to_kind(b, k))
