"""
G2 -- dimensional contracts: a homogeneity (scale-equivariance) type checker over the real AST.

A dimensional contract gives every parameter and the result of a real function a *dimension*: a vector of
exponents over the basis (T = time, L = genome length), e.g. node times T, rates 1/T, mu*span 1/T, natural
parameters (shape-1, rate) = columns (1, 1/T), variances T^2.  A value may instead carry a *log shift* s
(it is the logarithm of a quantity of dimension s and moves by s*log(c) when units change).

Theorem the checker establishes for one function (standard "free theorem" of a dimension type system):
    if every obligation below is discharged then, over real arithmetic, for every c_T, c_L > 0
        f(c^dim(x_1) x_1, ..., c^dim(x_n) x_n)  =  c^dim(result) f(x_1, ..., x_n)
    (componentwise for tuples / columns; + s*log c for log-shifted values), and the same path is taken --
    provided each callee satisfies its own dimensional contract (checked the same way, or listed as assumed).

Obligations (one per operation of the real source, named <func>:L<line>:dim[<kind>]#<k>):
    add/sub/compare/min/max/where/assign/return  operands have equal dimension (and equal log shift)
    mul/div                                      exponents add/subtract; a log-shifted operand only times a literal
    pow                                          literal exponent scales the dimension; otherwise all dimensionless
    exp lgamma digamma hypergeo.* ...            argument dimensionless;  log(x): x has no log shift, result shift dim(x)
    isclose/allclose with default atol           operands dimensionless (atol=1e-8 is a pure number)
    index / range / shape arguments              dimensionless
    literals                                     0, inf, nan are polymorphic; every other literal is dimensionless
Unknown dimensions of locals are z3 Real unknowns; obligations are added to one incremental z3 context in
source order and the first one that makes the system unsatisfiable is reported (then dropped, so later
independent errors are reported too) -- the behaviour of a type checker, with z3 as the unifier.
Polymorphic contracts (dimension variables) are checked with each variable as an extra basis axis, which proves
the contract for every instantiation.

What is NOT modelled (stated): floating-point rounding (so "equal up to tolerance" for non-power-of-two c);
array ranks beyond what is needed to type row/column selection; flow sensitivity (a variable has one type for
the whole function, except names the contract lists under `strong`, each with its stated justification).
A construct outside the subset makes the function 'does-not-attach' (undecided), never a violation.
"""
import ast
import itertools

import z3

from . import extract
from .dimspec import parse_dim


class DimUnsupported(Exception):
    pass


# ------------------------------------------------------------------------------------------------ types
class N:
    """numeric scalar or elementwise array: scales by c**d, shifts by s*log(c); lit = python number if a literal"""

    def __init__(self, d, s, lit=None, rank=None, pz=False, taint=False):
        self.d, self.s, self.lit, self.rank = d, s, lit, rank
        self.pz = pz  # polymorphic literal (0, inf, nan): a fresh dimension at every broadcast position
        # tainted: a log-shifted value times a non-literal (a normalising constant such as b*log(t)): how it moves
        # under a change of units is not expressible; it may only flow into results the contract declares 'taint'
        self.taint = taint


class Cols:
    """array whose last axis has per-column types; lead = number of axes before the column axis"""

    def __init__(self, cols, lead):
        self.cols, self.lead = list(cols), lead


class Tup:
    def __init__(self, items):
        self.items = list(items)


class Poly:
    """zero/nan/inf filled or uninitialised array: any dimension (per element)"""
    rank = None


class NoneT:
    pass


class Opaque:
    def __init__(self, what):
        self.what = what


class Obj:
    """record (EPFactors): field -> type"""

    def __init__(self, fields):
        self.fields = dict(fields)


class Fn:
    def __init__(self, node):
        self.node = node


class Lst:
    """python list being built by append: element type"""

    def __init__(self, elem):
        self.elem = elem


# ------------------------------------------------------------------------------------------------ contracts
DIM_REGISTRY = {}


class DimContract:
    def __init__(self, name, params, returns, poly=(), locals=None, strong=None, consts=None, fields=None,
                 assumed=False, notes="", props=(), gen=None, inline=None, axes=("T",), types=None):
        self.name = name            # 'approx.approximate_gamma_iqr'
        self.params = params        # {param: spec}
        self.returns = returns      # spec
        self.poly = tuple(poly)
        self.locals = locals or {}
        self.strong = strong or {}  # {name: justification}
        self.consts = consts or {}  # extra compile-time integer constants
        self.fields = fields or {}  # 'self.x' -> spec
        self.assumed = assumed      # contract used at call sites but the body is not checked
        self.notes = notes
        self.props = tuple(props)
        self.gen = gen              # rt.gens generator name for the homogeneity replay
        self.inline = inline
        self.axes = tuple(axes)     # unit axes the homogeneity replay scales
        self.types = types          # [(kind, ndim)] per parameter for the replay when there is no numba signature
        DIM_REGISTRY[name] = self


_ctr = itertools.count()


class Checker:
    def __init__(self, contract, fn, consts, registry=None):
        self.c = contract
        self.fn = fn
        self.registry = registry if registry is not None else DIM_REGISTRY
        self.basis = ("T", "L") + tuple(contract.poly)
        self.nb = len(self.basis)
        self.consts = dict(consts)
        self.consts.update(contract.consts)
        self.solver = z3.Solver()
        self.obs = []       # dicts: name, kind, line, text, verdict
        self.env = {}
        self.ret = None
        self.count = itertools.count()
        self.assumed_callees = set()
        self.checked_callees = set()
        self.depth = 0

    # ---- vectors
    def zero(self):
        return tuple(z3.RealVal(0) for _ in range(self.nb))

    def vec(self, nums):
        return tuple(z3.RealVal(str(x)) for x in nums)

    def fresh(self, base="d"):
        k = next(_ctr)
        return tuple(z3.Real(f"{base}{k}_{b}") for b in self.basis)

    @staticmethod
    def vadd(a, b):
        return tuple(x + y for x, y in zip(a, b))

    @staticmethod
    def vsub(a, b):
        return tuple(x - y for x, y in zip(a, b))

    @staticmethod
    def vscale(a, k):
        kk = z3.RealVal(str(k))
        return tuple(x * kk for x in a)

    @staticmethod
    def veq(a, b):
        return z3.And(*[x == y for x, y in zip(a, b)])

    def vzero(self, a):
        return z3.And(*[x == 0 for x in a])

    # ---- types from specs
    def from_spec(self, spec, inst=None, basis=None):
        basis = basis or self.basis
        if isinstance(spec, str):
            if spec in ("bool", "int", "idx"):
                return N(self.zero(), self.zero())
            if spec == "none":
                return NoneT()
            if spec == "any":
                return Poly()
            if spec == "taint":
                return N(self.zero(), self.zero(), taint=True)
            if spec.startswith("log:"):
                return N(self.zero(), self._spec_vec(spec[4:], inst, basis))
            return N(self._spec_vec(spec, inst, basis), self.zero())
        kind = spec[0]
        if kind == "cols":
            lead = 1
            items = spec[1:]
            if isinstance(items[0], int):
                lead, items = items[0], items[1:]
            return Cols([self.from_spec(s, inst, basis) for s in items], lead)
        if kind == "tuple":
            return Tup([self.from_spec(s, inst, basis) for s in spec[1:]])
        if kind == "obj":
            return Obj({k: self.from_spec(v, inst, basis) for k, v in spec[1].items()})
        raise ValueError(spec)

    def _spec_vec(self, text, inst, basis):
        nums = parse_dim(text, basis)
        if inst is None:
            # own contract: basis == self.basis
            return self.vec(nums)
        # callee contract: T, L map to themselves, poly names to the instantiation vectors
        out = list(self.zero())
        for name, k in zip(basis, nums):
            if k == 0:
                continue
            v = inst[name]
            out = [o + z3.RealVal(str(k)) * x for o, x in zip(out, v)]
        return tuple(out)

    # ---- obligations
    def require(self, cond, kind, node, text=None):
        line = getattr(node, "lineno", self.fn.lineno)
        k = next(self.count)
        name = f"{self.c.name}:L{line}:dim[{kind}]#{k}"
        src = text if text is not None else (ast.get_source_segment(self.fn.full_src, node) or "")
        cond = z3.simplify(cond) if isinstance(cond, z3.ExprRef) else z3.BoolVal(bool(cond))
        self.solver.push()
        self.solver.add(cond)
        r = self.solver.check()
        if r == z3.sat:
            verdict = "proved"
        else:
            self.solver.pop()
            verdict = "refuted" if r == z3.unsat else "unknown"
        self.obs.append({"name": name, "kind": kind, "line": line, "text": " ".join(src.split())[:200],
                         "verdict": verdict})
        return verdict == "proved"

    def dimless(self, t, kind, node):
        t = self.num(t, node)
        if t.taint:
            self.require(False, kind + "-tainted", node)
            return
        self.require(z3.And(self.vzero(t.d), self.vzero(t.s)), kind, node)

    def num(self, t, node):
        if isinstance(t, N):
            return t
        if isinstance(t, Poly):
            return N(self.fresh(), self.zero(), rank=None)
        if isinstance(t, Lst):
            return self.num(t.elem, node)
        raise DimUnsupported(f"numeric value expected at line {getattr(node, 'lineno', '?')}: "
                             f"{type(t).__name__} in {ast.dump(node)[:80]}")

    def unify(self, a, b, kind, node):
        if isinstance(a, Poly) or isinstance(b, Poly):
            return
        if isinstance(a, Lst):
            a = a.elem
        if isinstance(b, Lst):
            b = b.elem
        if isinstance(a, N) and isinstance(b, N):
            if a.taint:      # the declared / first side accepts anything
                return
            if b.taint:
                self.require(False, kind + "-tainted", node)
                return
            self.require(z3.And(self.veq(a.d, b.d), self.veq(a.s, b.s)), kind, node)
            return
        if isinstance(a, NoneT) and isinstance(b, NoneT):
            return
        if isinstance(a, Obj) and isinstance(b, Obj):
            for k in a.fields:
                if k in b.fields:
                    self.unify(a.fields[k], b.fields[k], kind, node)
            return
        ai = a.cols if isinstance(a, Cols) else a.items if isinstance(a, Tup) else None
        bi = b.cols if isinstance(b, Cols) else b.items if isinstance(b, Tup) else None
        if ai is not None and bi is not None and len(ai) == len(bi):
            for x, y in zip(ai, bi):
                self.unify(x, y, kind, node)
            return
        if isinstance(a, Opaque) and isinstance(b, Opaque):
            return
        self.require(False, kind + "-shape", node)

    allow_taint = True

    def may_shift(self, t):
        """is the log shift of t possibly non-zero given the obligations so far?"""
        self.solver.push()
        self.solver.add(z3.Not(self.vzero(t.s)))
        r = self.solver.check()
        self.solver.pop()
        return r == z3.sat and not all(z3.is_rational_value(z3.simplify(x)) and z3.simplify(x).as_fraction() == 0
                                       for x in t.s)

    def inst(self, t):
        if isinstance(t, N) and t.pz:
            return N(self.fresh("z"), self.zero(), rank=t.rank, pz=True)
        return t

    def unify_bcast(self, a, b, kind, node):
        """like unify, but a plain number broadcasts over the columns of the other side"""
        ai = a.cols if isinstance(a, Cols) else a.items if isinstance(a, Tup) else None
        bi = b.cols if isinstance(b, Cols) else b.items if isinstance(b, Tup) else None
        if ai is not None and bi is None and isinstance(b, (N, Poly)):
            for x in ai:
                self.unify(x, self.inst(b), kind, node)
        elif bi is not None and ai is None and isinstance(a, (N, Poly)):
            for x in bi:
                self.unify(self.inst(a), x, kind, node)
        else:
            self.unify(a, b, kind, node)

    # ---- driver
    def run(self):
        fnode = self.fn.node
        args = [a.arg for a in fnode.args.args]
        sig = None
        try:
            sig = extract.numba_signature(fnode)
        except Exception:
            sig = None
        for i, a in enumerate(args):
            if a == "self":
                self.env[a] = Opaque("self")
                continue
            if a not in self.c.params:
                raise DimUnsupported(f"{self.c.name}: parameter {a!r} has no dimension in the contract")
            t = self.from_spec(self.c.params[a])
            if isinstance(t, N) and sig and i < len(sig[1]) and isinstance(sig[1][i][1], int):
                t.rank = sig[1][i][1]
            self.env[a] = t
        for p in self.c.params:
            if p not in args:
                raise DimUnsupported(f"{self.c.name}: contract names parameter {p!r} which the real function "
                                     f"does not have")
        self.ret = self.from_spec(self.c.returns)
        self.returned = False
        self.block(fnode.body)
        return self.obs

    def block(self, stmts):
        for s in stmts:
            self.stmt(s)

    # ---- statements
    def stmt(self, s):
        if isinstance(s, ast.Expr):
            if isinstance(s.value, ast.Constant):
                return
            self.expr(s.value)
        elif isinstance(s, ast.Assign):
            al = self.dotted(s.value) if isinstance(s.value, ast.Attribute) else None
            if al and al.startswith(("hypergeo.", "approx.")) and len(s.targets) == 1 \
                    and isinstance(s.targets[0], ast.Name):
                self.env[s.targets[0].id] = Opaque("fn:" + al)   # f = hypergeo._hyp2f1_laplace
                return
            v = self.expr(s.value)
            for t in s.targets:
                self.assign(t, v, s)
        elif isinstance(s, ast.AnnAssign):
            if s.value is not None:
                self.assign(s.target, self.expr(s.value), s)
        elif isinstance(s, ast.AugAssign):
            self.augassign(s)
        elif isinstance(s, ast.For):
            it = self.iter_type(s.iter)
            self.assign(s.target, it, s)
            self.block(s.body)
            self.block(s.orelse)
        elif isinstance(s, ast.While):
            self.expr(s.test)
            self.block(s.body)
            self.block(s.orelse)
        elif isinstance(s, ast.If):
            self.expr(s.test)
            self.block(s.body)
            self.block(s.orelse)
        elif isinstance(s, ast.Return):
            v = self.expr(s.value) if s.value is not None else NoneT()
            self.returned = True
            if self.depth:
                self.closure_ret.append((v, s))
            else:
                self.unify(self.ret, v, "return", s)
        elif isinstance(s, ast.Assert):
            self.expr(s.test)
        elif isinstance(s, (ast.Raise, ast.Pass, ast.Continue, ast.Break, ast.Import, ast.ImportFrom)):
            return
        elif isinstance(s, ast.FunctionDef):
            self.env[s.name] = Fn(s)
        elif isinstance(s, ast.With):
            self.block(s.body)
        else:
            raise DimUnsupported(f"statement {type(s).__name__} at line {s.lineno}")

    def strip(self, v):
        if isinstance(v, N):
            return N(v.d, v.s, None, v.rank, taint=v.taint)
        return v

    def assign(self, target, v, node):
        if isinstance(target, ast.Name):
            name = target.id
            if name in self.c.locals and name not in self.env:
                self.env[name] = self.from_spec(self.c.locals[name])
            if name in self.env and not isinstance(self.env[name], Fn):
                cur = self.env[name]
                if isinstance(cur, Poly):
                    self.env[name] = self.strip(v)
                elif name in self.c.strong and not isinstance(v, Poly):
                    self.env[name] = self.strip(v)
                else:
                    self.unify(cur, v, "assign", node)
                    if isinstance(cur, N) and isinstance(v, N) and cur.rank is None:
                        cur.rank = v.rank
            else:
                if isinstance(v, Poly):
                    v = N(self.fresh(name), self.zero())
                self.env[name] = self.strip(v)
        elif isinstance(target, (ast.Tuple, ast.List)):
            items = self.unpack(v, len(target.elts), node)
            for t, x in zip(target.elts, items):
                self.assign(t, x, node)
        elif isinstance(target, ast.Subscript):
            cur = self.expr(target)
            self.unify(cur, v, "store", node)
        elif isinstance(target, ast.Attribute):
            cur = self.expr(target)
            self.unify(cur, v, "store", node)
        else:
            raise DimUnsupported(f"assignment target {type(target).__name__} at line {node.lineno}")

    def unpack(self, v, n, node):
        if isinstance(v, Tup) and len(v.items) == n:
            return v.items
        if isinstance(v, Cols) and v.lead == 0 and len(v.cols) == n:
            return v.cols
        if isinstance(v, N):  # unpacking an array / dimensionless tuple: every item has the element type
            return [N(v.d, v.s, None, 0 if v.rank in (None, 1) else None) for _ in range(n)]
        raise DimUnsupported(f"cannot unpack {type(v).__name__} into {n} at line {node.lineno}")

    def augassign(self, s):
        rhs = self.expr(s.value)
        fake = ast.BinOp(left=s.target, op=s.op, right=s.value)
        ast.copy_location(fake, s)
        if isinstance(s.target, ast.Subscript) and isinstance(s.target.value, ast.Name) \
                and s.target.value.id in self.c.strong:
            # flow-sensitive re-typing of one column of a listed local (justification in the contract)
            name = s.target.value.id
            cur = self.env[name]
            col = self.column_of(cur, s.target)
            if col is not None:
                new = self.binop_types(cur.cols[col], rhs, s.op, s)
                cols = list(cur.cols)
                cols[col] = self.strip(new)
                self.env[name] = Cols(cols, cur.lead)
                return
        cur = self.expr(s.target)
        new = self.binop_any(cur, rhs, s.op, s)
        self.unify(cur, new, "augassign", s)

    def column_of(self, cur, sub):
        if not isinstance(cur, Cols):
            return None
        idx = sub.slice.elts if isinstance(sub.slice, ast.Tuple) else [sub.slice]
        if len(idx) != cur.lead + 1:
            return None
        return self.const_int(idx[-1])

    def const_int(self, node):
        if isinstance(node, ast.Constant) and isinstance(node.value, int) and not isinstance(node.value, bool):
            return node.value
        if isinstance(node, ast.Name) and isinstance(self.consts.get(node.id), int):
            return self.consts[node.id]
        if isinstance(node, ast.UnaryOp) and isinstance(node.op, ast.USub):
            v = self.const_int(node.operand)
            return None if v is None else -v
        return None

    def iter_type(self, it):
        if isinstance(it, ast.Call):
            f = self.callname(it.func)
            if f in ("range", "numba.prange", "prange"):
                for a in it.args:
                    self.dimless(self.expr(a), "index", a)
                return N(self.zero(), self.zero(), rank=0)
            if f == "zip":
                return Tup([self.elem_type(self.expr(a), a) for a in it.args])
            if f == "enumerate":
                return Tup([N(self.zero(), self.zero(), rank=0), self.elem_type(self.expr(it.args[0]), it)])
            if f == "reversed":
                return self.iter_type(it.args[0])
        return self.elem_type(self.expr(it), it)

    def elem_type(self, v, node):
        if isinstance(v, N):
            return N(v.d, v.s, None, None if v.rank is None else max(v.rank - 1, 0), taint=v.taint)
        if isinstance(v, Cols):
            if v.lead == 0:
                raise DimUnsupported(f"iteration over a row with mixed columns at line {node.lineno}")
            return Cols(v.cols, v.lead - 1)
        if isinstance(v, Lst):
            return v.elem
        if isinstance(v, Tup):
            first = v.items[0]
            for x in v.items[1:]:
                self.unify(first, x, "iter", node)
            return first
        if isinstance(v, Poly):
            return N(self.fresh(), self.zero())
        raise DimUnsupported(f"iteration over {type(v).__name__} at line {node.lineno}")

    # ---- expressions
    def expr(self, e):
        m = getattr(self, "e_" + type(e).__name__, None)
        if m is None:
            raise DimUnsupported(f"expression {type(e).__name__} at line {getattr(e, 'lineno', '?')}")
        return m(e)

    def lit(self, v):
        if isinstance(v, bool):
            return N(self.zero(), self.zero(), rank=0)
        if isinstance(v, (int, float)):
            if v == 0 or v != v or v in (float("inf"), float("-inf")):
                return N(self.fresh("z"), self.zero(), rank=0, pz=True)   # 0, inf, nan: polymorphic
            return N(self.zero(), self.zero(), lit=v, rank=0)
        if v is None:
            return NoneT()
        return Opaque(type(v).__name__)

    def e_Constant(self, e):
        return self.lit(e.value)

    def e_Name(self, e):
        if e.id in self.env:
            return self.env[e.id]
        if e.id in ("inf", "nan"):
            return self.lit(float(e.id))
        if e.id in self.consts:
            v = self.consts[e.id]
            if isinstance(v, (int, float, bool)):
                t = self.lit(v)
                # a module constant is a pure number even when it is 0 only if it is an index-like int
                if isinstance(t, N) and t.lit is None and isinstance(v, int):
                    return N(self.zero(), self.zero(), lit=None, rank=0)
                return t
        if e.id in ("True", "False"):
            return N(self.zero(), self.zero(), rank=0)
        if e.id in self.module_names:
            # any other module-level constant (e.g. _KLMIN_RELTOL = np.sqrt(np.finfo(np.float64).eps)) is a pure number
            return N(self.zero(), self.zero(), rank=0)
        raise DimUnsupported(f"name {e.id!r} at line {e.lineno} has no known dimension")

    def e_Tuple(self, e):
        return Tup([self.expr(x) for x in e.elts])

    def e_List(self, e):
        if not e.elts:
            return Lst(Poly())
        items = [self.expr(x) for x in e.elts]
        for x in items[1:]:
            self.unify(items[0], x, "list", e)
        return Lst(self.strip(items[0]))

    def e_UnaryOp(self, e):
        v = self.expr(e.operand)
        if isinstance(e.op, (ast.Not, ast.Invert)):
            return N(self.zero(), self.zero(), rank=getattr(v, "rank", None))
        if isinstance(v, (Cols, Tup)):
            return v
        v = self.num(v, e)
        if isinstance(e.op, ast.USub):
            return N(v.d, self.vscale(v.s, -1), None if v.lit is None else -v.lit, v.rank)
        return v

    def e_BoolOp(self, e):
        for x in e.values:
            self.expr(x)
        return N(self.zero(), self.zero(), rank=0)

    def e_Compare(self, e):
        left = self.expr(e.left)
        rank = None
        for op, right in zip(e.ops, e.comparators):
            r = self.expr(right)
            if isinstance(op, (ast.Is, ast.IsNot, ast.In, ast.NotIn)):
                left = r
                continue
            if isinstance(left, (NoneT, Opaque)) or isinstance(r, (NoneT, Opaque)):
                left = r
                continue
            if isinstance(left, (Tup, Cols)) or isinstance(r, (Tup, Cols)):
                self.unify_bcast(left, r, "compare", e)
            else:
                a, b = self.num(left, e), self.num(r, e)
                if a.taint or b.taint:
                    self.require(False, "compare-tainted", e)
                else:
                    self.require(z3.And(self.veq(a.d, b.d), self.veq(a.s, b.s)), "compare", e)
                rank = _rmax(a.rank, b.rank)
            left = r
        return N(self.zero(), self.zero(), rank=rank)

    def e_IfExp(self, e):
        self.expr(e.test)
        a, b = self.expr(e.body), self.expr(e.orelse)
        self.unify(a, b, "ifexp", e)
        return self.strip(a if not isinstance(a, Poly) else b)

    def e_BinOp(self, e):
        return self.binop_any(self.expr(e.left), self.expr(e.right), e.op, e)

    def binop_any(self, a, b, op, node):
        # rows / column-typed arrays: componentwise; a plain number broadcasts over the columns
        if isinstance(a, (Cols, Tup)) or isinstance(b, (Cols, Tup)):
            ai = a.cols if isinstance(a, Cols) else a.items if isinstance(a, Tup) else None
            bi = b.cols if isinstance(b, Cols) else b.items if isinstance(b, Tup) else None
            n = len(ai if ai is not None else bi)
            if ai is not None and bi is not None and len(ai) != len(bi):
                self.require(False, "arith-shape", node)
                return a
            out = [self.binop_types(ai[i] if ai is not None else self.inst(a), bi[i] if bi is not None else self.inst(b),
                                    op, node) for i in range(n)]
            lead = max(a.lead if isinstance(a, Cols) else 0, b.lead if isinstance(b, Cols) else 0)
            return Cols(out, lead)
        return self.binop_types(a, b, op, node)

    def binop_types(self, a, b, op, node):
        a, b = self.num(a, node), self.num(b, node)
        rank = _rmax(a.rank, b.rank)
        if a.taint or b.taint:
            return N(self.zero(), self.zero(), None, rank, taint=True)
        if isinstance(op, ast.Mult) and a.lit is None and b.lit is None and self.allow_taint \
                and (self.may_shift(a) or self.may_shift(b)):
            # log-shifted value times a non-literal: well defined only if the other factor is a pure number
            other = b if self.may_shift(a) else a
            self.require(z3.And(self.vzero(other.d), self.vzero(other.s)), "mul-logshift", node)
            return N(self.zero(), self.zero(), None, rank, taint=True)
        if isinstance(op, (ast.Add, ast.Sub)):
            kind = "add" if isinstance(op, ast.Add) else "sub"
            self.require(z3.And(self.veq(a.d, b.d),
                                z3.Or(self.vzero(a.d), z3.And(self.vzero(a.s), self.vzero(b.s)))), kind, node)
            s = self.vadd(a.s, b.s) if isinstance(op, ast.Add) else self.vsub(a.s, b.s)
            return N(a.d, s, None, rank)
        if isinstance(op, ast.Mult):
            if a.lit is not None:
                return N(b.d, self.vscale(b.s, a.lit), None, rank)
            if b.lit is not None:
                return N(a.d, self.vscale(a.s, b.lit), None, rank)
            self.require(z3.And(self.vzero(a.s), self.vzero(b.s)), "mul", node)
            return N(self.vadd(a.d, b.d), self.zero(), None, rank)
        if isinstance(op, (ast.Div, ast.FloorDiv, ast.Mod)):
            if b.lit is not None and isinstance(op, ast.Div):
                return N(a.d, self.vscale(a.s, 1.0 / b.lit), None, rank)
            self.require(z3.And(self.vzero(a.s), self.vzero(b.s)), "div", node)
            if isinstance(op, ast.Mod):
                self.require(self.veq(a.d, b.d), "mod", node)
                return N(a.d, self.zero(), None, rank)
            return N(self.vsub(a.d, b.d), self.zero(), None, rank)
        if isinstance(op, ast.Pow):
            if b.lit is not None:
                self.require(self.vzero(a.s), "pow", node)
                return N(self.vscale(a.d, b.lit), self.zero(), None, rank)
            self.require(z3.And(self.vzero(a.d), self.vzero(a.s), self.vzero(b.d), self.vzero(b.s)), "pow", node)
            return N(self.zero(), self.zero(), None, rank)
        if isinstance(op, (ast.BitAnd, ast.BitOr, ast.BitXor, ast.LShift, ast.RShift)):
            self.dimless(a, "bitop", node)
            self.dimless(b, "bitop", node)
            return N(self.zero(), self.zero(), None, rank)
        if isinstance(op, ast.MatMult):
            raise DimUnsupported(f"matrix product at line {node.lineno}")
        raise DimUnsupported(f"operator {type(op).__name__} at line {node.lineno}")

    # ---- subscripts and attributes
    def e_Subscript(self, e):
        base = self.expr(e.value)
        idx = e.slice.elts if isinstance(e.slice, ast.Tuple) else [e.slice]
        ranks = []
        for i in idx:
            ranks.append(self.index_rank(i))
        if isinstance(base, (N, Poly, Lst)):
            if isinstance(base, Lst):
                base = base.elem
            b = self.num(base, e)
            r = None
            if b.rank is not None:
                r = b.rank
                for k in ranks:
                    if k == 0:
                        r -= 1
                    elif k == "new":
                        r += 1
                r = max(r, 0)
            return N(b.d, b.s, None, r, taint=b.taint)
        if isinstance(base, Cols):
            lead = base.lead
            used = 0
            newlead = 0
            for k, i in zip(ranks, idx):
                if used < lead:
                    used += 1
                    if k != 0:
                        newlead += 1
                else:  # the column axis
                    c = self.const_int(i)
                    if c is None:
                        if isinstance(i, ast.Slice) and i.lower is None and i.upper is None:
                            return Cols(base.cols, newlead)
                        first = base.cols[0]
                        for x in base.cols[1:]:
                            self.unify(first, x, "column-index", e)
                        return N(first.d, first.s, None, None)
                    if not -len(base.cols) <= c < len(base.cols):
                        self.require(False, "column-index", e)
                        c = 0
                    col = base.cols[c]
                    if isinstance(col, N):
                        return N(col.d, col.s, None, newlead)
                    return col
            return Cols(base.cols, newlead + (lead - used))
        if isinstance(base, Tup):
            c = self.const_int(e.slice)
            if c is not None and -len(base.items) <= c < len(base.items):
                return base.items[c]
            first = base.items[0]
            for x in base.items[1:]:
                self.unify(first, x, "tuple-index", e)
            return first
        if isinstance(base, Opaque):
            return Opaque("item")
        raise DimUnsupported(f"subscript of {type(base).__name__} at line {e.lineno}")

    def index_rank(self, i):
        """0 for a scalar index, 1 for slice/mask/array, 'new' for np.newaxis; emits dimensionless obligations"""
        if isinstance(i, ast.Slice):
            for part in (i.lower, i.upper, i.step):
                if part is not None:
                    self.dimless(self.expr(part), "index", part)
            return 1
        if isinstance(i, ast.Constant) and i.value is None:
            return "new"
        if isinstance(i, ast.Attribute) and i.attr == "newaxis":
            return "new"
        if isinstance(i, ast.Constant) and i.value is Ellipsis:
            return 1
        t = self.expr(i)
        self.dimless(t, "index", i)
        r = getattr(t, "rank", None)
        return 0 if r in (0, None) else 1

    def e_Attribute(self, e):
        full = self.dotted(e)
        if full is not None:
            if full in self.c.fields:
                return self.from_spec(self.c.fields[full])
            if full in ("np.inf", "np.nan", "numpy.inf", "numpy.nan", "math.inf", "math.nan"):
                return self.lit(float(full.split(".")[1]))
            if full in ("np.pi", "math.pi", "np.e", "math.e"):
                return N(self.zero(), self.zero(), lit=3.14159 if full.endswith("pi") else 2.71828, rank=0)
            if full in ("np.newaxis",):
                return NoneT()
            if full.startswith("np.") and full.split(".")[1] in ("float64", "int32", "int64", "bool_", "uint64",
                                                                "float32", "int8", "uint8"):
                return Opaque("dtype")
            if full.startswith("tskit."):
                c = {"tskit.NULL": -1, "tskit.NODE_IS_SAMPLE": 1}.get(full)
                if c is not None:
                    return N(self.zero(), self.zero(), rank=0)
        base = self.expr(e.value)
        if isinstance(base, Obj):
            if e.attr not in base.fields:
                raise DimUnsupported(f"field .{e.attr} at line {e.lineno} has no dimension in the contract")
            return base.fields[e.attr]
        if e.attr in ("size", "shape", "ndim", "dtype"):
            if e.attr == "shape":
                return N(self.zero(), self.zero(), rank=1)
            if e.attr == "dtype":
                return Opaque("dtype")
            return N(self.zero(), self.zero(), rank=0)
        if e.attr == "T":
            return base
        if e.attr in ("real",):
            return base
        raise DimUnsupported(f"attribute .{e.attr} at line {e.lineno}")

    def dotted(self, e):
        parts = []
        while isinstance(e, ast.Attribute):
            parts.append(e.attr)
            e = e.value
        if isinstance(e, ast.Name):
            parts.append(e.id)
            return ".".join(reversed(parts))
        return None

    def callname(self, f):
        if isinstance(f, ast.Name):
            return f.id
        return self.dotted(f)

    # ---- calls
    SAME = {"np.abs", "abs", "np.fabs", "np.sort", "np.unique", "np.copy", "np.ascontiguousarray", "np.asarray",
            "np.array", "float", "np.float64", "np.negative", "np.flip", "np.ravel", "np.squeeze", "np.atleast_1d",
            "np.nan_to_num", "np.real", "np.float32", "list", "tuple"}
    ROUNDING = {"np.round", "np.around", "round", "np.floor", "np.ceil", "np.trunc", "np.rint", "math.floor",
                "math.ceil", "np.fix"}
    REDUCE = {"np.sum", "np.max", "np.min", "np.mean", "np.median", "np.amax", "np.amin", "np.nanmax", "np.nanmin",
              "np.nansum", "np.nanmean", "max1", "min1", "np.cumsum", "np.diff", "np.ptp"}
    NARY_EQ = {"np.maximum", "np.minimum", "max", "min", "np.fmax", "np.fmin", "np.append", "np.nextafter",
               "np.union1d", "np.hypot"}
    DIMLESS_FN = {"np.exp", "exp", "lgamma", "math.lgamma", "np.expm1", "np.log1p", "math.exp", "math.expm1",
                  "math.log1p", "np.tanh", "np.sin", "np.cos", "erf", "math.erf", "np.sign"}
    BOOL_FN = {"np.isfinite", "np.isnan", "np.isinf", "isfinite", "isnan", "isinf", "math.isfinite", "math.isnan",
               "math.isinf", "np.all", "np.any", "np.logical_not", "bool", "all", "any"}
    INDEX_FN = {"np.argsort", "np.argmax", "np.argmin", "np.flatnonzero", "np.nonzero", "len", "np.arange",
                "np.count_nonzero", "np.bincount", "np.nanargmax", "np.nanargmin"}

    def e_Call(self, e):
        f = self.callname(e.func)
        args = e.args
        kw = {k.arg: k.value for k in e.keywords}
        if f is None:
            # method call on a value: x.copy(), x.min(), lst.append(v), x.astype(...)
            if isinstance(e.func, ast.Attribute):
                return self.method(e, e.func.value, e.func.attr, args, kw)
            raise DimUnsupported(f"call at line {e.lineno}")
        if isinstance(e.func, ast.Attribute) and isinstance(e.func.value, ast.Name) \
                and e.func.value.id in self.env and not isinstance(self.env[e.func.value.id], Opaque):
            return self.method(e, e.func.value, e.func.attr, args, kw)
        if isinstance(e.func, ast.Attribute) and not isinstance(e.func.value, ast.Name) and \
                self.dotted(e.func.value) not in ("np.random", "np.linalg") and \
                not (self.dotted(e.func) or "").startswith(("np.", "numba.", "math.", "hypergeo.", "approx.",
                                                             "tskit.", "logging.", "logger.", "scipy.")):
            return self.method(e, e.func.value, e.func.attr, args, kw)
        if f in self.env and isinstance(self.env[f], Fn):
            return self.inline(self.env[f].node, args, e)
        if f in self.env and isinstance(self.env[f], Opaque) and self.env[f].what.startswith("fn:"):
            f = self.env[f].what[3:]
        short = f.split(".")[-1]
        if f in self.SAME:
            v = self.expr(args[0])
            if f in ("abs", "np.abs", "np.fabs") and isinstance(v, N):
                self.require(self.vzero(v.s), "abs", e)
            if isinstance(v, Lst):
                return self.strip(self.num(v.elem, e)) if not isinstance(v.elem, Poly) else Poly()
            return self.strip(v)
        if f in self.ROUNDING:
            # rounding to a fixed number of decimals / to integers is tied to the unit: only pure numbers
            v = self.num(self.expr(args[0]), e)
            self.dimless(v, short, e)
            for a in list(args[1:]) + list(kw.values()):
                self.dimless(self.expr(a), "index", a)
            return N(self.zero(), self.zero(), None, v.rank)
        if f in self.REDUCE:
            v = self.num(self.expr(args[0]), e)
            if short in ("sum", "cumsum", "nansum"):
                self.require(self.vzero(v.s), short, e)
            s = self.zero() if short in ("diff", "ptp") else v.s
            return N(v.d, s, None, v.rank if short in ("cumsum", "diff") else 0 if "axis" not in kw and len(args) < 2 else None)
        if f in self.NARY_EQ:
            vs = [self.expr(a) for a in args]
            first = None
            for v in vs:
                if isinstance(v, Poly):
                    continue
                if first is None:
                    first = v
                else:
                    self.unify(first, v, short, e)
            if first is None:
                return Poly()
            if isinstance(first, N):
                return N(first.d, first.s, None, 1 if short in ("append", "union1d") else _rmaxl([getattr(v, "rank", None) for v in vs]))
            return first
        if f == "np.column_stack":
            v = self.expr(args[0])
            if isinstance(v, Tup):
                return Cols([self.strip(self.num(x, e)) for x in v.items], 1)
            raise DimUnsupported(f"np.column_stack of a non-tuple at line {e.lineno}")
        if f in ("np.concatenate", "np.hstack", "np.stack", "np.vstack"):
            v = self.expr(args[0])
            return self.strip(self.elem_type(v, e)) if isinstance(v, (Tup, Lst)) else v
        if f in ("np.log", "log", "math.log", "np.log2", "np.log10"):
            v = self.num(self.expr(args[0]), e)
            self.require(self.vzero(v.s), "log", e)
            return N(self.zero(), v.d, None, v.rank)
        if f in ("np.sqrt", "sqrt", "math.sqrt"):
            v = self.num(self.expr(args[0]), e)
            self.require(self.vzero(v.s), "sqrt", e)
            return N(self.vscale(v.d, 0.5), self.zero(), None, v.rank)
        if f in ("np.square",):
            v = self.num(self.expr(args[0]), e)
            self.require(self.vzero(v.s), "square", e)
            return N(self.vscale(v.d, 2), self.zero(), None, v.rank)
        if f in ("np.exp", "exp", "math.exp"):
            v = self.num(self.expr(args[0]), e)
            self.require(self.vzero(v.d), "exp", e)
            return N(v.s, self.zero(), None, v.rank)
        if f in self.DIMLESS_FN or f.startswith(("hypergeo.", "scipy.stats.", "scipy.special.")) or short in self.c.consts.get("__dimless_fns__", ()):
            for a in list(args) + list(kw.values()):
                self.dimless(self.expr(a), short, a)
            if f.startswith(("hypergeo.", "scipy.")):
                self.assumed_callees.add(f)
            return N(self.zero(), self.zero(), None, None)
        if f in self.BOOL_FN:
            for a in args:
                self.expr(a)
            return N(self.zero(), self.zero(), None, None)
        if f in ("np.logical_and", "np.logical_or", "np.logical_xor"):
            for a in args:
                self.expr(a)
            return N(self.zero(), self.zero(), None, None)
        if f in self.INDEX_FN:
            vs = [self.expr(a) for a in args]
            if short == "arange":
                for v, a in zip(vs, args):
                    self.dimless(v, "index", a)
            return N(self.zero(), self.zero(), None, 0 if short in ("len", "argmax", "argmin", "count_nonzero") else 1)
        if f in ("int", "np.int32", "np.int64", "np.uint64"):
            v = self.expr(args[0])
            self.dimless(v, "int", e)
            return N(self.zero(), self.zero(), None, getattr(v, "rank", None))
        if f in ("np.searchsorted", "np.digitize"):
            a, v = self.num(self.expr(args[0]), e), self.num(self.expr(args[1]), e)
            self.require(z3.And(self.veq(a.d, v.d), self.veq(a.s, v.s)), "searchsorted", e)
            return N(self.zero(), self.zero(), None, v.rank)
        if f in ("np.zeros", "np.empty", "np.zeros_like", "np.empty_like"):
            if f in ("np.zeros", "np.empty"):
                self.shape_arg(args[0])
            else:
                self.expr(args[0])
            return Poly()
        if f in ("np.ones", "np.ones_like", "np.eye", "np.identity"):
            return N(self.zero(), self.zero(), None, None)
        if f in ("np.full", "np.full_like", "np.repeat", "np.tile"):
            if f == "np.full":
                self.shape_arg(args[0])
            else:
                self.expr(args[0])
            v = self.expr(args[1]) if f in ("np.full", "np.full_like") else self.expr(args[0])
            if f in ("np.repeat", "np.tile"):
                self.dimless(self.expr(args[1]), "index", args[1])
                return self.strip(v)
            if isinstance(v, N) and v.lit is None and _is_poly_literal(args[1]) and \
                    not (isinstance(args[1], ast.Constant) and isinstance(args[1].value, bool)):
                return Poly()
            return self.strip(v)
        if f in ("np.where",):
            if len(args) == 1:
                self.expr(args[0])
                return N(self.zero(), self.zero(), None, 1)
            self.expr(args[0])
            a, b = self.expr(args[1]), self.expr(args[2])
            self.unify(a, b, "where", e)
            return self.strip(b if isinstance(a, Poly) else a)
        if f in ("np.clip",):
            a = self.expr(args[0])
            for x in args[1:]:
                self.unify(a, self.expr(x), "clip", e)
            return self.strip(a)
        if f in ("np.isclose", "np.allclose"):
            a, b = self.num(self.expr(args[0]), e), self.num(self.expr(args[1]), e)
            self.require(z3.And(self.veq(a.d, b.d), self.veq(a.s, b.s)), "isclose", e)
            atol = kw.get("atol", args[3] if len(args) > 3 else None)
            rtol = kw.get("rtol", args[2] if len(args) > 2 else None)
            if rtol is not None:
                self.dimless(self.expr(rtol), "isclose-rtol", rtol)
            if atol is None:
                # |a-b| <= atol + rtol*|b| with the default atol = 1e-8, a pure number
                self.require(z3.And(self.vzero(a.d), self.vzero(a.s)), "isclose-atol", e)
            else:
                t = self.num(self.expr(atol), e)
                self.require(z3.And(self.veq(t.d, a.d), self.vzero(t.s), z3.Or(self.vzero(a.d), self.vzero(a.s))),
                             "isclose-atol", e)
            return N(self.zero(), self.zero(), None, None)
        if f in ("np.linspace", "np.geomspace", "np.logspace"):
            a, b = self.num(self.expr(args[0]), e), self.num(self.expr(args[1]), e)
            if f == "np.logspace":
                self.dimless(a, "logspace", e)
                self.dimless(b, "logspace", e)
            else:
                self.require(z3.And(self.veq(a.d, b.d), self.vzero(a.s), self.vzero(b.s)), short, e)
            for x in args[2:]:
                self.dimless(self.expr(x), "index", x)
            return N(a.d, self.zero(), None, 1)
        if f in ("print", "logging.info", "logging.debug", "logging.warning", "logger.info", "logger.debug",
                 "logger.warning", "str", "repr", "KLMinimizationFailedError", "ValueError", "RuntimeError"):
            return Opaque("effect")
        if f in ("np.errstate",):
            return Opaque("ctx")
        # a function under dimensional contract
        callee = self.resolve(f)
        if callee is not None:
            return self.call_contract(callee, args, kw, e)
        raise DimUnsupported(f"call of {f} at line {e.lineno}: no dimensional rule or contract")

    def shape_arg(self, a):
        v = self.expr(a)
        if isinstance(v, Tup):
            for x in v.items:
                self.dimless(x, "shape", a)
        else:
            self.dimless(v, "shape", a)

    def method(self, e, recv, attr, args, kw):
        base = self.expr(recv)
        if isinstance(base, Obj):
            if attr + "()" not in base.fields:
                raise DimUnsupported(f"method .{attr}() at line {e.lineno} has no dimension in the contract")
            for a in args:
                self.expr(a)
            return base.fields[attr + "()"]
        if attr == "append" and isinstance(base, Lst):
            v = self.expr(args[0])
            if isinstance(base.elem, Poly):
                base.elem = self.strip(v)
            else:
                self.unify(base.elem, v, "append", e)
            return NoneT()
        if attr in ("copy", "flatten", "ravel", "squeeze", "transpose", "reshape", "astype", "view", "item"):
            for a in args:
                if attr == "reshape":
                    self.shape_arg(a)
            return base
        if attr in ("sum", "min", "max", "mean", "cumsum"):
            if isinstance(base, Cols):
                raise DimUnsupported(f".{attr}() of a column-typed array at line {e.lineno}")
            v = self.num(base, e)
            if attr in ("sum", "cumsum"):
                self.require(self.vzero(v.s), attr, e)
            return N(v.d, v.s, None, None if attr == "cumsum" or args or kw else 0)
        if attr in ("argsort", "argmax", "argmin", "nonzero"):
            return N(self.zero(), self.zero(), None, None)
        if attr in ("all", "any"):
            return N(self.zero(), self.zero(), None, 0)
        if attr in ("fill",):
            self.unify(base, self.expr(args[0]), "fill", e)
            return NoneT()
        raise DimUnsupported(f"method .{attr}() at line {e.lineno}")

    def resolve(self, f):
        mod = self.fn.module
        cands = [f"{mod}.{f}"] if "." not in f else [f]
        short = f.split(".")[-1]
        for c in cands:
            if c in self.registry:
                return self.registry[c]
        # imported name: unique contract with that function name (possibly under an alias declared by the contract)
        alias = self.c.consts.get("__alias__", {}).get(f)
        if alias and alias in self.registry:
            return self.registry[alias]
        m = [c for n, c in self.registry.items() if n.split(".")[-1] == short]
        if len(m) == 1:
            return m[0]
        return None

    def call_contract(self, callee, args, kw, e):
        fn = extract.get_function(callee.name)
        names = [a.arg for a in fn.node.args.args if a.arg != "self"]
        basis = ("T", "L") + tuple(callee.poly)
        inst = {"T": tuple(z3.RealVal(1 if b == "T" else 0) for b in self.basis),
                "L": tuple(z3.RealVal(1 if b == "L" else 0) for b in self.basis)}
        for p in callee.poly:
            inst[p] = self.fresh("p_" + p)
        bound = dict(zip(names, args))
        bound.update(kw)
        for n in bound:
            if n not in callee.params:
                raise DimUnsupported(f"call of {callee.name} at line {e.lineno}: argument {n!r} not in its contract")
        for n, a in bound.items():
            want = self.from_spec(callee.params[n], inst, basis)
            self.unify(want, self.expr(a), f"call-{callee.name.split('.')[-1]}-{n}", a)
        (self.assumed_callees if callee.assumed else self.checked_callees).add(callee.name)
        return self.from_spec(callee.returns, inst, basis)

    def inline(self, node, args, e):
        """nested closure: checked at every call with the argument types of that call"""
        saved = {}
        params = [a.arg for a in node.args.args]
        if len(params) != len(args):
            raise DimUnsupported(f"closure call arity at line {e.lineno}")
        vals = [self.expr(a) for a in args]
        for p, v in zip(params, vals):
            saved[p] = self.env.get(p)
            self.env[p] = self.strip(v)
        locals_before = set(self.env)
        self.depth += 1
        outer_ret = getattr(self, "closure_ret", None)
        self.closure_ret = []
        self.block(node.body)
        rets = self.closure_ret
        self.closure_ret = outer_ret
        self.depth -= 1
        for k in set(self.env) - locals_before:
            del self.env[k]
        for p, v in saved.items():
            if v is None:
                self.env.pop(p, None)
            else:
                self.env[p] = v
        if not rets:
            return NoneT()
        first = rets[0][0]
        for v, s in rets[1:]:
            self.unify(first, v, "closure-return", s)
        return first

    def e_Lambda(self, e):
        raise DimUnsupported(f"lambda at line {e.lineno}")

    def e_JoinedStr(self, e):
        return Opaque("str")

    def e_Slice(self, e):
        return Opaque("slice")


def _is_poly_literal(node):
    if isinstance(node, ast.Constant) and isinstance(node.value, (int, float)) and not isinstance(node.value, bool):
        v = node.value
        return v == 0 or v != v or v in (float("inf"), float("-inf"))
    if isinstance(node, ast.Attribute) and node.attr in ("nan", "inf"):
        return True
    if isinstance(node, ast.Name) and node.id in ("nan", "inf"):
        return True
    if isinstance(node, ast.UnaryOp) and isinstance(node.op, ast.USub):
        return _is_poly_literal(node.operand)
    return False


def _rmax(a, b):
    if a is None or b is None:
        return None
    return max(a, b)


def _rmaxl(rs):
    out = 0
    for r in rs:
        out = _rmax(out, r)
    return out


# ------------------------------------------------------------------------------------------------ entry point
class Result:
    def __init__(self):
        self.obligations = []
        self.error = None
        self.fn = None
        self.assumed_callees = []
        self.checked_callees = []
        self.solver_s = 0.0


def check(contract, registry=None):
    import time
    res = Result()
    fn = extract.get_function(contract.name)
    res.fn = fn
    _tree, full = extract.module_ast(fn.module)
    fn.full_src = full
    consts = extract.module_constants(fn.module)
    ch = Checker(contract, fn, consts, registry)
    ch.module_names = {t.id for st in _tree.body if isinstance(st, ast.Assign) for t in st.targets
                       if isinstance(t, ast.Name)}
    t0 = time.time()
    try:
        ch.run()
        if not ch.returned and not isinstance(ch.ret, NoneT):
            res.error = "function under contract has no return statement"
    except DimUnsupported as ex:
        res.error = str(ex)
    except RecursionError as ex:  # pragma: no cover
        res.error = f"recursion: {ex}"
    res.solver_s = time.time() - t0
    res.obligations = ch.obs
    res.assumed_callees = sorted(ch.assumed_callees)
    res.checked_callees = sorted(ch.checked_callees)
    return res
