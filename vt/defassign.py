"""Definite-assignment analysis of one function (loops may run zero times; a try body may stop anywhere)."""
import ast, sys, os
def analyse(fn):
    """possibly-unbound reads: returns list of (name, lineno). Loops may run zero times; try bodies may stop anywhere."""
    params = {a.arg for a in fn.args.args + fn.args.kwonlyargs + fn.args.posonlyargs}
    if fn.args.vararg: params.add(fn.args.vararg.arg)
    if fn.args.kwarg: params.add(fn.args.kwarg.arg)
    # locals = names assigned anywhere in this function (not nested defs)
    assigned = set()
    class A(ast.NodeVisitor):
        def visit_FunctionDef(self, n):
            assigned.add(n.name)
        visit_AsyncFunctionDef = visit_FunctionDef
        def visit_ClassDef(self, n): assigned.add(n.name)
        def visit_Lambda(self, n): pass
        def visit_Name(self, n):
            if isinstance(n.ctx, (ast.Store, ast.Del)): assigned.add(n.id)
        def visit_Import(self, n):
            for a in n.names: assigned.add((a.asname or a.name).split(".")[0])
        visit_ImportFrom = visit_Import
        def visit_ListComp(self, n): pass
        visit_SetComp = visit_DictComp = visit_GeneratorExp = visit_ListComp
    for st in fn.body: A().visit(st)
    locals_ = assigned - params
    issues = []
    def reads(e, defined):
        for n in ast.walk(e):
            if isinstance(n, (ast.ListComp, ast.SetComp, ast.DictComp, ast.GeneratorExp, ast.Lambda)):
                pass
            if isinstance(n, ast.Name) and isinstance(n.ctx, ast.Load) and n.id in locals_ and n.id not in defined:
                issues.append((n.id, n.lineno))
    def targets(t, defined):
        for n in ast.walk(t):
            if isinstance(n, ast.Name) and isinstance(n.ctx, ast.Store): defined.add(n.id)
    def block(stmts, defined):
        """returns (defined_after, falls_through)"""
        for s in stmts:
            defined, ft = stmt(s, defined)
            if not ft: return defined, False
        return defined, True
    def stmt(s, d):
        d = set(d)
        if isinstance(s, (ast.FunctionDef, ast.AsyncFunctionDef, ast.ClassDef)):
            d.add(s.name); return d, True
        if isinstance(s, ast.Assign):
            reads(s.value, d)
            for t in s.targets:
                for n in ast.walk(t):
                    if isinstance(n, ast.Name) and isinstance(n.ctx, ast.Load) and n.id in locals_ and n.id not in d: issues.append((n.id, n.lineno))
                targets(t, d)
            return d, True
        if isinstance(s, ast.AugAssign):
            reads(s.value, d)
            if isinstance(s.target, ast.Name):
                if s.target.id in locals_ and s.target.id not in d: issues.append((s.target.id, s.lineno))
            else: reads(s.target, d)
            return d, True
        if isinstance(s, ast.AnnAssign):
            if s.value is not None: reads(s.value, d); targets(s.target, d)
            return d, True
        if isinstance(s, (ast.Return,)):
            if s.value is not None: reads(s.value, d)
            return d, False
        if isinstance(s, ast.Raise):
            if s.exc is not None: reads(s.exc, d)
            return d, False
        if isinstance(s, (ast.Continue, ast.Break)): return d, False
        if isinstance(s, ast.If):
            reads(s.test, d)
            d1, f1 = block(s.body, d); d2, f2 = block(s.orelse, d)
            if f1 and f2: return d1 & d2, True
            if f1: return d1, True
            if f2: return d2, True
            return d, False
        if isinstance(s, (ast.For, ast.AsyncFor)):
            reads(s.iter, d); db = set(d); targets(s.target, db)
            block(s.body, db)
            d2, _ = block(s.orelse, d)
            return d, True
        if isinstance(s, ast.While):
            reads(s.test, d); block(s.body, d)
            always = isinstance(s.test, ast.Constant) and s.test.value is True
            return d, True
        if isinstance(s, (ast.With, ast.AsyncWith)):
            for it in s.items:
                reads(it.context_expr, d)
                if it.optional_vars is not None: targets(it.optional_vars, d)
            return block(s.body, d)
        if isinstance(s, ast.Try):
            d1, f1 = block(s.body, d)
            outs = []
            if f1:
                d1e, f1e = block(s.orelse, d1)
                if f1e: outs.append(d1e)
            for h in s.handlers:
                dh = set(d)
                if h.name: dh.add(h.name)
                dh, fh = block(h.body, dh)
                if fh: outs.append(dh)
            if not outs:
                res, ft = d, False
            else:
                res = set.intersection(*outs); ft = True
            if s.finalbody:
                res, ff = block(s.finalbody, res if ft else d)
                ft = ft and ff
            return res, ft
        if isinstance(s, ast.Expr): reads(s.value, d); return d, True
        if isinstance(s, ast.Assert):
            reads(s.test, d); return d, True
        if isinstance(s, ast.Delete): return d, True
        if isinstance(s, (ast.Import, ast.ImportFrom)):
            for a in s.names: d.add((a.asname or a.name).split(".")[0])
            return d, True
        if isinstance(s, (ast.Pass, ast.Global, ast.Nonlocal)): return d, True
        if isinstance(s, ast.Match): return d, True
        return d, True
    block(fn.body, set())
    return sorted(set(issues))
