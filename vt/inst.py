"""
Quantifier pre-instantiation for G1 obligations.

An obligation is (assumptions |- goal).  We refute  assumptions /\\ not goal  after
  1. NNF + skolemisation (z3 tactic 'nnf'),
  2. replacing every remaining (positive) universal quantifier over Int variables by the
     conjunction of its instances at the index terms that occur in the ground part
     (a few rounds, so instances feed new index terms),
  3. instantiating the axioms of uninterpreted spec functions (nextafter_up, ...) by pattern.
Dropping / instantiating positive universals only weakens the assumptions, so `unsat` of the
instantiated, quantifier-free problem proves the obligation.  `sat` does NOT: the model is only
a candidate counterexample, to be confirmed by the quantified query or by replay on the real code.
"""
import itertools

import z3

import os
MAX_CANDS = int(os.environ.get('VT_MAX_CANDS', '8'))
MAX_INST_PER_Q = 400


def _is_forall(f):
    return z3.is_quantifier(f) and f.is_forall()


def _contains_quantifier(f, cache):
    k = f.get_id()
    if k in cache:
        return cache[k]
    if z3.is_quantifier(f):
        cache[k] = True
        return True
    r = any(_contains_quantifier(c, cache) for c in f.children())
    cache[k] = r
    return r


def _contains_var(f, cache):
    k = f.get_id()
    if k in cache:
        return cache[k]
    if z3.is_var(f):
        cache[k] = True
        return True
    if z3.is_quantifier(f):
        r = _contains_var(f.body(), cache)  # conservative
        cache[k] = r
        return r
    r = any(_contains_var(c, cache) for c in f.children())
    cache[k] = r
    return r


def collect_index_terms(fs, qcache, vcache, numeral_uses=None):
    """Int-sorted ground terms used as array indices or as arguments of uninterpreted functions.
    numeral_uses (optional dict): numeral term id -> list of array terms it indexes."""
    out = {}
    seen = set()

    def visit(t):
        k = t.get_id()
        if k in seen:
            return
        seen.add(k)
        if z3.is_quantifier(t):
            return
        if z3.is_app(t):
            d = t.decl()
            kind = d.kind()
            if kind == z3.Z3_OP_SELECT or kind == z3.Z3_OP_STORE:
                idx = t.arg(1)
                if idx.sort() == z3.IntSort() and not _contains_var(idx, vcache):
                    out[idx.get_id()] = idx
                    if numeral_uses is not None and z3.is_int_value(idx):
                        numeral_uses.setdefault(idx.get_id(), []).append(t.arg(0))
                # integer array reads are index-valued in this code base (edge -> node, sorted position, ...):
                # they are candidates for variables of the matching index sort
                if kind == z3.Z3_OP_SELECT and t.sort() == z3.IntSort() and not _contains_var(t, vcache):
                    out[t.get_id()] = t
            elif kind == z3.Z3_OP_UNINTERPRETED and t.num_args() > 0:
                for a in t.children():
                    if a.sort() == z3.IntSort() and not _contains_var(a, vcache):
                        out[a.get_id()] = a
            for c in t.children():
                visit(c)

    for f in fs:
        visit(f)
    return list(out.values())


def collect_apps(fs, name):
    out = {}
    seen = set()

    def visit(t):
        k = t.get_id()
        if k in seen:
            return
        seen.add(k)
        if z3.is_quantifier(t):
            visit(t.body())
            return
        if z3.is_app(t):
            if t.decl().name() == name and t.num_args() == 1:
                out[t.get_id()] = t
            for c in t.children():
                visit(c)

    for f in fs:
        visit(f)
    return list(out.values())


def collect_apps2(fs, name):
    out = {}
    seen = set()

    def visit(t):
        k = t.get_id()
        if k in seen:
            return
        seen.add(k)
        if z3.is_quantifier(t):
            return
        if z3.is_app(t):
            if t.num_args() == 2 and t.decl().kind() == z3.Z3_OP_UNINTERPRETED and t.decl().name() == name:
                out[t.get_id()] = t
            for c in t.children():
                visit(c)

    for f in fs:
        visit(f)
    return list(out.values())


def collect_fp_terms(fs, fsort, vcache, limit=40):
    out = {}
    seen = set()

    def visit(t):
        k = t.get_id()
        if k in seen or len(out) >= limit:
            return
        seen.add(k)
        if z3.is_quantifier(t):
            return
        if z3.is_app(t):
            if t.sort() == fsort and not _contains_var(t, vcache):
                dk = t.decl().kind()
                if dk in (z3.Z3_OP_SELECT, z3.Z3_OP_UNINTERPRETED):
                    out[t.get_id()] = t
            for c in t.children():
                visit(c)

    for f in fs:
        visit(f)
    return list(out.values())


class UF:
    def __init__(self):
        self.p = {}

    def find(self, x):
        self.p.setdefault(x, x)
        while self.p[x] != x:
            self.p[x] = self.p[self.p[x]]
            x = self.p[x]
        return x

    def union(self, a, b):
        if a is None or b is None:
            return
        ra, rb = self.find(a), self.find(b)
        if ra != rb:
            self.p[ra] = rb


class Typing:
    """Infer 'index sorts' (node ids, edge ids, ...) of Int terms by unification, so a quantifier
    over edge indices is only instantiated with edge-index terms (prevents matching loops such as
    P[P[P[e]]] when node and edge ids are both Int)."""

    def __init__(self):
        self.uf = UF()
        self.seen = set()

    def base(self, a, env):
        """UF key(s) of the array family of array term a."""
        if z3.is_app(a):
            k = a.decl().kind()
            if k == z3.Z3_OP_STORE:
                return self.base(a.arg(0), env)
            if k == z3.Z3_OP_SELECT:
                inner = self.base(a.arg(0), env)
                return None if inner is None else ("row", inner)
            if k == z3.Z3_OP_ITE:
                x, y = self.base(a.arg(1), env), self.base(a.arg(2), env)
                self.uf.union(x, y)
                return x or y
            if k == z3.Z3_OP_UNINTERPRETED and a.num_args() == 0:
                return ("arr", a.decl().name())
            if k == z3.Z3_OP_CONST_ARRAY:
                return None
        return None

    def cls(self, t, env):
        """UF key of the index-sort of Int term t (None for numerals)."""
        if z3.is_var(t):
            idx = z3.get_var_index(t)
            if idx < len(env):
                return env[len(env) - 1 - idx]
            return None
        if z3.is_int_value(t):
            return None
        if z3.is_app(t):
            k = t.decl().kind()
            if k == z3.Z3_OP_SELECT:
                b = self.base(t.arg(0), env)
                return None if b is None else ("elem", b)
            if k in (z3.Z3_OP_ADD, z3.Z3_OP_SUB):
                cs = [self.cls(c, env) for c in t.children()]
                cs = [c for c in cs if c is not None]
                for c in cs[1:]:
                    self.uf.union(cs[0], c)
                return cs[0] if cs else None
            if k == z3.Z3_OP_ITE:
                x, y = self.cls(t.arg(1), env), self.cls(t.arg(2), env)
                self.uf.union(x, y)
                return x or y
            if k == z3.Z3_OP_UNINTERPRETED:
                return ("sym", t.decl().name())
        return None

    def visit(self, t, env):
        key = (t.get_id(), len(env), tuple(env[-3:]))
        if key in self.seen:
            return
        self.seen.add(key)
        if z3.is_quantifier(t):
            q = t.get_id()
            new = [("var", q, i) for i in range(t.num_vars())]
            self.visit(t.body(), env + new)
            return
        if not z3.is_app(t):
            return
        k = t.decl().kind()
        if k in (z3.Z3_OP_SELECT, z3.Z3_OP_STORE):
            idx = t.arg(1)
            if idx.sort() == z3.IntSort():
                b = self.base(t.arg(0), env)
                if b is not None:
                    self.uf.union(self.cls(idx, env), ("idx", b))
        elif k in (z3.Z3_OP_EQ, z3.Z3_OP_LE, z3.Z3_OP_LT, z3.Z3_OP_GE, z3.Z3_OP_GT, z3.Z3_OP_DISTINCT):
            if t.arg(0).sort() == z3.IntSort():
                self.uf.union(self.cls(t.arg(0), env), self.cls(t.arg(1), env))
            elif z3.is_array(t.arg(0)) and k == z3.Z3_OP_EQ:
                self.uf.union(self.base(t.arg(0), env), self.base(t.arg(1), env))
        for c in t.children():
            self.visit(c, env)

    def var_class(self, q, i):
        return self.uf.find(("var", q.get_id(), i))

    def term_class(self, t):
        c = self.cls(t, [])
        return None if c is None else self.uf.find(c)


class Instantiator:
    def __init__(self, rounds=3, typed=True):
        self.rounds = rounds
        self.typed = typed
        self.qcache = {}
        self.vcache = {}
        self.stats = {"instances": 0, "dropped_quantifiers": 0, "rounds": 0, "candidates": 0}

    def expand(self, f, cands, done, typing):
        """Replace positive universals in f (NNF) by conjunctions of instances."""
        if not _contains_quantifier(f, self.qcache):
            return f
        if _is_forall(f):
            nv = f.num_vars()
            sorts = [f.var_sort(i) for i in range(nv)]
            if all(s == z3.IntSort() for s in sorts):
                per_var = []
                for i in range(nv):
                    if self.typed:
                        vc = typing.var_class(f, i)
                        cs = [t for t, c in cands if c == vc]
                    else:
                        cs = [t for t, c in cands]
                    per_var.append(cs[:MAX_CANDS])
                insts = []
                count = 0
                for tup in itertools.product(*per_var):
                    key = (f.get_id(),) + tuple(t.get_id() for t in tup)
                    if key in done:
                        continue
                    done.add(key)
                    count += 1
                    if count > MAX_INST_PER_Q:
                        break
                    # substitute_vars: var 0 is the LAST bound variable
                    body = z3.substitute_vars(f.body(), *reversed(tup))
                    insts.append(body)
                self.stats["instances"] += len(insts)
                # nested quantifiers of the instances are expanded in the next round
                return z3.And(*insts) if insts else z3.BoolVal(True)
            self.stats["dropped_quantifiers"] += 1
            return z3.BoolVal(True)
        if z3.is_quantifier(f):  # existential left over: cannot weaken soundly -> keep
            return f
        if z3.is_and(f):
            return z3.And(*[self.expand(c, cands, done, typing) for c in f.children()])
        if z3.is_or(f):
            return z3.Or(*[self.expand(c, cands, done, typing) for c in f.children()])
        # quantifier in a non-monotone position (should not happen after NNF): keep unchanged
        return f

    def run_formulas(self, formulas, axioms=(), goal_index=None):
        g = z3.Goal()
        for a in formulas:
            g.add(a)
        res = z3.Tactic("nnf")(g)
        fs = []
        for sub in res:
            fs.extend(list(sub))
        self.goal_ids = set()
        if goal_index is not None:
            gg = z3.Goal()
            gg.add(formulas[goal_index])
            # NB: skolem names differ between two nnf runs, so the goal part is recognised by
            # running nnf once on the whole set and remembering what the goal formula became:
            # the last `k` formulas of the result stem from the last input formula.
            n_before = 0
            g0 = z3.Goal()
            for a in formulas[:goal_index]:
                g0.add(a)
            r0 = z3.Tactic("nnf")(g0)
            n_before = sum(len(sub) for sub in r0)
            self.goal_ids = {f.get_id() for f in fs[n_before:]}
        flat = []

        def split(f):
            if z3.is_and(f):
                for c in f.children():
                    split(c)
            else:
                flat.append(f)
        goal_flat = set()
        for f in fs:
            n0 = len(flat)
            split(f)
            if f.get_id() in self.goal_ids:
                goal_flat.update(x.get_id() for x in flat[n0:])
        self.goal_flat = goal_flat
        ground = [f for f in flat if not _contains_quantifier(f, self.qcache)]
        quant = [f for f in flat if _contains_quantifier(f, self.qcache)]
        done = set()
        n_orig = len(ground)
        for r in range(self.rounds):
            typing = Typing()
            for f in ground + quant:
                typing.visit(f, [])
            numeral_uses = {}
            terms = collect_index_terms(ground, self.qcache, self.vcache, numeral_uses)
            goal_terms = {t.get_id() for t in collect_index_terms(
                [f for f in ground if f.get_id() in goal_flat], self.qcache, self.vcache)}
            orig_terms = {t.get_id() for t in collect_index_terms(ground[:n_orig], self.qcache, self.vcache)}
            terms.sort(key=lambda t: (0 if t.get_id() in goal_terms else (1 if t.get_id() in orig_terms else 2),
                                      len(t.sexpr())))
            cands = []
            for t in terms:
                if z3.is_int_value(t):
                    # a numeral is a candidate for the index sorts of the arrays it actually indexes
                    classes = set()
                    for arr in numeral_uses.get(t.get_id(), []):
                        b = typing.base(arr, [])
                        if b is not None:
                            classes.add(typing.uf.find(("idx", b)))
                    for c in classes:
                        cands.append((t, c))
                else:
                    cands.append((t, typing.term_class(t)))
            self.stats["candidates"] = max(self.stats["candidates"], len(cands))
            new_ground, new_quant = [], []
            for q in quant:
                e = z3.simplify(self.expand(q, cands, done, typing))
                if z3.is_true(e):
                    continue
                parts = []

                def split2(f):
                    if z3.is_and(f):
                        for c in f.children():
                            split2(c)
                    else:
                        parts.append(f)
                split2(e)
                for p_ in parts:
                    (new_quant if _contains_quantifier(p_, self.qcache) else new_ground).append(p_)
            self.stats["rounds"] = r + 1
            if not new_ground and not new_quant:
                break
            ground.extend(new_ground)
            quant.extend(new_quant)
        self.residual_quantified = len(quant)
        for ax in axioms:
            ground.extend(ax(ground, self))
        return ground


def nextafter_axioms(fsort):
    def ax(ground, inst):
        apps = collect_apps(ground, "nextafter_up")
        if not apps:
            return []
        out = []
        pinf = z3.FPVal(float("inf"), fsort)
        ys = collect_fp_terms(ground, fsort, inst.vcache, limit=16)
        for r in apps:
            x = r.arg(0)
            ok = z3.And(z3.Not(z3.fpIsNaN(x)), z3.fpLT(x, pinf))
            out.append(z3.Implies(ok, z3.fpGT(r, x)))
            out.append(z3.Implies(z3.fpIsNaN(x), z3.fpIsNaN(r)))
            out.append(z3.Implies(z3.And(z3.Not(z3.fpIsNaN(x)), z3.Not(z3.fpLT(x, pinf))), r == pinf))
            for y in ys:
                out.append(z3.Implies(z3.And(ok, z3.fpGT(y, x)), z3.fpGEQ(y, r)))
        return out
    return ax


def _keys(f, cache):
    """Linking keys of a ground formula: scalar array reads and skolem constants."""
    k = f.get_id()
    if k in cache:
        return cache[k]
    out = set()
    seen = set()

    def visit(t):
        i = t.get_id()
        if i in seen:
            return
        seen.add(i)
        if z3.is_quantifier(t):
            visit(t.body())
            return
        if z3.is_app(t):
            kind = t.decl().kind()
            if kind == z3.Z3_OP_SELECT and not z3.is_array(t):
                out.add(("sel", i))
            elif kind == z3.Z3_OP_UNINTERPRETED and t.num_args() == 0 and "!" in t.decl().name() and not z3.is_array(t):
                out.add(("c", t.decl().name()))
            elif kind == z3.Z3_OP_UNINTERPRETED and t.num_args() > 0:
                out.add(("app", i))
            for c in t.children():
                visit(c)
    visit(f)
    cache[k] = out
    return out


def relevance_stages(ground, goal_flat, hops=(1, 2, 3)):
    """Yield growing subsets of `ground` (lists) by key-sharing distance from the goal formulas."""
    cache = {}
    goal = [f for f in ground if f.get_id() in goal_flat]
    if not goal:
        yield list(ground)
        return
    free = [f for f in ground if not _keys(f, cache)]  # scalar-only facts: always kept
    rest = [f for f in ground if _keys(f, cache) and f.get_id() not in goal_flat]
    cur = set()
    for f in goal:
        cur |= _keys(f, cache)
    chosen = []
    remaining = list(rest)
    last = -1
    for h in range(1, max(hops) + 1):
        add = [f for f in remaining if _keys(f, cache) & cur]
        remaining = [f for f in remaining if not (_keys(f, cache) & cur)]
        chosen.extend(add)
        for f in add:
            cur |= _keys(f, cache)
        if h in hops and len(chosen) != last:
            last = len(chosen)
            yield goal + free + chosen
        if not remaining:
            return
    yield list(ground)
