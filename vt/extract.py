"""
Mechanical extraction of functions from /repo's *current* source.

Every run re-parses the module text; nothing is cached and no hand-written copy of any
function exists in /verif.  What extraction drops is recorded in DROPS and copied into
every evidence file.
"""
import ast
import hashlib
import os

from . import REPO

DROPS = [
    "decorators (@numba_jit(sig), @numba.njit(sig), @staticmethod): the signature is read and "
    "used as the sort declaration of the parameters, then the decorator is dropped",
    "docstrings and comments",
    "logger.* / logging.* calls and tqdm wrappers (tqdm(x, ...) is the identity on x)",
]

_cache = {}


def module_path(module):
    return os.path.join(os.environ.get("VERIF_REPO", REPO), "tsdate", module + ".py")


def module_source(module):
    path = module_path(module)
    with open(path) as f:
        return f.read()


def module_ast(module):
    path = module_path(module)
    src = module_source(module)
    key = (path, hashlib.sha1(src.encode()).hexdigest())
    if key not in _cache:
        _cache[key] = ast.parse(src, filename=path)
    return _cache[key], src


class Extracted:
    def __init__(self, qualname, node, src, module):
        self.qualname = qualname
        self.node = node
        self.module = module
        self.src = ast.get_source_segment(src, node)
        self.lineno = node.lineno
        self.end_lineno = node.end_lineno
        self.sha1 = hashlib.sha1(self.src.encode()).hexdigest()[:12]
        self.file = module_path(module)

    def describe(self):
        return {
            "function": f"tsdate.{self.module}.{self.qualname}",
            "file": self.file,
            "lines": [self.lineno, self.end_lineno],
            "source_sha1": self.sha1,
        }


def get_function(dotted):
    """dotted = 'util._constrain_ages' or 'variational.ExpectationPropagation.iterate'"""
    parts = dotted.split(".")
    module, path = parts[0], parts[1:]
    tree, src = module_ast(module)
    node = tree
    for name in path:
        found = None
        for child in node.body:
            if isinstance(child, (ast.FunctionDef, ast.ClassDef)) and child.name == name:
                found = child
        if found is None:
            raise LookupError(f"{dotted}: '{name}' not found in {module_path(module)}")
        node = found
    return Extracted(".".join(path), node, src, module)


def module_constants(module):
    """Top-level NAME = <literal> assignments (ROOTWARD = 0, TINY = ..., DEFAULT_* ...)."""
    tree, _ = module_ast(module)
    out = {}
    for st in tree.body:
        if isinstance(st, ast.Assign) and len(st.targets) == 1 and isinstance(st.targets[0], ast.Name):
            try:
                out[st.targets[0].id] = ast.literal_eval(st.value)
            except Exception:
                pass
    return out


# numba signature names used in tsdate/approx.py -> (kind, ndim)
SIG_TYPES = {
    "_f": ("float", 0), "_i": ("int", 0), "_b": ("bool", 0),
    "_f1r": ("float", 1), "_f1w": ("float", 1), "_i1r": ("int", 1), "_i1w": ("int", 1),
    "_b1r": ("bool", 1), "_b1w": ("bool", 1),
    "_f2r": ("float", 2), "_f2w": ("float", 2), "_i2r": ("int", 2), "_i2w": ("int", 2),
    "_b2r": ("bool", 2), "_f3w": ("float", 3), "_f3r": ("float", 3),
    "_fac": ("factors", 0), "_void": ("void", 0),
}


def _sig_type(node):
    if isinstance(node, ast.Name):
        if node.id not in SIG_TYPES:
            raise LookupError(f"unknown signature type {node.id}")
        return SIG_TYPES[node.id]
    if isinstance(node, ast.Call) and isinstance(node.func, ast.Name):
        if node.func.id in ("_unituple", "_unituple"):
            t = _sig_type(node.args[0])
            n = ast.literal_eval(node.args[1])
            return ("tuple", [t] * n)
        if node.func.id == "_tuple":
            return ("tuple", [_sig_type(e) for e in node.args[0].elts])
    raise LookupError(f"unsupported signature node {ast.dump(node)}")


def numba_signature(fnode):
    """Return (ret_type, [param_types]) from @numba_jit(ret(args...)) or None."""
    for dec in fnode.decorator_list:
        if isinstance(dec, ast.Call):
            fn = dec.func
            name = fn.id if isinstance(fn, ast.Name) else getattr(fn, "attr", None)
            if name in ("numba_jit", "njit") and dec.args:
                sig = dec.args[0]
                if isinstance(sig, ast.Call):
                    ret = _sig_type(sig.func)
                    params = [_sig_type(a) for a in sig.args]
                    return ret, params
    return None


def loops_of(fnode):
    """Pre-order list of For/While nodes in the function body (nested defs included)."""
    out = []

    def walk(n):
        for child in ast.iter_child_nodes(n):
            if isinstance(child, (ast.For, ast.While)):
                out.append(child)
            walk(child)

    walk(fnode)
    return out


def loop_header(node, src_lines=None):
    if isinstance(node, ast.For):
        return f"for {ast.unparse(node.target)} in {ast.unparse(node.iter)}"
    return f"while {ast.unparse(node.test)}"
