"""G1 driver: set up the entry state from the real signature, run the engine, collect obligations."""
import ast
import os

import z3

from . import extract
from .values import Cell, NoneVal, Obj, Ref, Unsupported, Vec, array_sort, fresh_name, is_z3
from .vc_call import CallMixin
from .vc_expr import ExprMixin
from .vc_stmt import StmtMixin
from .vcgen import EngineBase, Obligation, State

I = z3.IntSort()


class Engine(ExprMixin, CallMixin, StmtMixin, EngineBase):
    pass


class Attach(Exception):
    """The real code no longer has the shape the contract addresses."""


def param_names(fnode):
    return [a.arg for a in fnode.args.args]


def resolve_registry(registry):
    """Fill Contract.params / ret for every contract that names a real function."""
    for name, c in registry.items():
        if c.params is not None:
            continue
        try:
            fn = extract.get_function(name)
        except (LookupError, FileNotFoundError) as e:
            raise Attach(f"{name}: {e}")
        c.params = param_names(fn.node)
        sig = extract.numba_signature(fn.node)
        if c.types is None:
            if sig is None:
                raise Attach(f"{name}: no numba signature and no types in contract")
            c.types = sig[1]
        if c.ret is None:
            c.ret = sig[0] if sig is not None else ("void", 0)
        if len(c.types) != len(c.params):
            raise Attach(f"{name}: signature has {len(c.types)} types for {len(c.params)} parameters")


def make_factors(eng, st):
    n = z3.Int("factors_N")
    e = z3.Int("factors_E")
    b = z3.Int("factors_B")
    for x in (n, e, b):
        st.assume(x >= 0)
    f = {}
    m = eng.mode
    f["node"] = st.alloc(z3.Const("factors_node", array_sort(m, "float", 3)), [n, 2, 2], "float")
    f["edge"] = st.alloc(z3.Const("factors_edge", array_sort(m, "float", 3)), [e, 2, 2], "float")
    f["block"] = st.alloc(z3.Const("factors_block", array_sort(m, "float", 3)), [b, 2, 2], "float")
    f["scale"] = st.alloc(z3.Const("factors_scale", array_sort(m, "float", 1)), [n], "float")
    f["_p"] = st.alloc(z3.Const("factors__p", array_sort(m, "int", 1)), [e], "int")
    f["_c"] = st.alloc(z3.Const("factors__c", array_sort(m, "int", 1)), [e], "int")
    f["_j"] = st.alloc(z3.Const("factors__j", array_sort(m, "int", 1)), [b], "int")
    f["_k"] = st.alloc(z3.Const("factors__k", array_sort(m, "int", 1)), [b], "int")
    # ghost field: S[n] = sum of all messages addressed to node n (mirrored at every write to a factor)
    f["S"] = st.alloc(z3.Const("factors_S", array_sort(m, "float", 2)), [n, 2], "float")
    return Obj(f)


def entry_state(eng, contract):
    st = State(eng.mode)
    inputs = []
    for p, (kind, nd) in zip(contract.params, contract.types):
        if kind == "factors":
            st.vars[p] = make_factors(eng, st)
            continue
        if nd == 0:
            c = z3.Const(p, eng.mode.sort(kind))
            st.vars[p] = c
            inputs.append({"name": p, "z3name": p, "ndim": 0, "shape": [], "kind": kind})
            continue
        shape = []
        fixed = contract.shapes.get(p, [None] * nd)
        for d in range(nd):
            if fixed[d] is not None:
                shape.append(fixed[d])
            else:
                s = z3.Int(f"{p}_n{d}")
                st.assume(s >= 0)
                shape.append(s)
        term = z3.Const(p, array_sort(eng.mode, kind, nd))
        st.vars[p] = st.alloc(term, shape, kind)
        inputs.append({"name": p, "z3name": p, "ndim": nd,
                       "shape": [s if isinstance(s, int) else str(s) for s in shape], "kind": kind})
    st.entry = dict(st.vars)
    st.entry_heap = {k: Cell(c.term, c.shape, c.kind) for k, c in st.heap.items()}
    return st, inputs


class FunctionVCs:
    def __init__(self, contract, fn):
        self.contract = contract
        self.fn = fn
        self.obligations = []
        self.notes = []
        self.inputs = []
        self.error = None  # does-not-attach reason
        self.npaths = 0


def generate(contract, registry, props=None, tier="quick"):
    """Generate all obligations for one function under its contract (once per variant, if any)."""
    if contract.variants:
        outs = []
        for var in contract.variants:
            label = ",".join(f"{k}={v}" for k, v in var.items() if k != "__bind")
            o = _generate(contract, registry, props, tier, var, label)
            outs.append(o)
        first = outs[0]
        for o in outs[1:]:
            first.obligations.extend(o.obligations)
            first.notes.extend(n for n in o.notes if n not in first.notes)
            first.error = first.error or o.error
            first.npaths += o.npaths
        return first
    return _generate(contract, registry, props, tier, None, "")


def _generate(contract, registry, props, tier, variant, label):
    resolve_registry(registry)
    fn = extract.get_function(contract.name)
    out = FunctionVCs(contract, fn)
    consts = {}
    consts.update(extract.module_constants(fn.module))
    consts.update(contract.consts)
    eng = Engine(fn, contract, registry, consts)
    try:
        st, inputs = entry_state(eng, contract)
        out.inputs = inputs
        for k_, v_ in (variant or {}).items():
            if k_ == "__bind":
                continue
            st.vars[k_] = v_
            st.entry[k_] = v_
        for k_, expr_ in ((variant or {}).get("__bind") or {}).items():
            st.vars[k_] = eng.ev(st, ast.parse(expr_, mode="eval").body, True)
            st.entry[k_] = st.vars[k_]
        for gname, (gkind, gshape) in contract.ghost_decl.items():
            if gname in st.vars:
                raise Unsupported(f"ghost variable {gname} clashes with a program variable")
            shape = [eng.to_int(eng.ev(st, ast.parse(x, mode="eval").body, True)) if isinstance(x, str) else x
                     for x in gshape]
            st.vars[gname] = eng.new_array(st, shape, gkind, None, "ghost_" + gname)
        for k, clause in enumerate(contract.requires):
            st.assume(eng.spec_bool(st, clause))
        for clause in contract.axioms:
            st.assume(eng.spec_bool(st, clause))
        eng.cover(st, "precondition-satisfiable", fn.lineno)
        # ghost code anchored at function entry
        for anchor, code in contract.ghost_after:
            if anchor == "<entry>":
                eng.ghost_hits.add(anchor)
                gbody = ast.parse(code).body
                for b_ in gbody:
                    for n_ in ast.walk(b_):
                        n_._is_ghost = True
                        n_.lineno = fn.lineno
                        n_.col_offset = 0
                        n_.end_lineno = fn.lineno
                        n_.end_col_offset = 0
                outs0 = eng.exec_block(gbody, st)
                st = outs0[0][0]
        body = fn.node.body
        outs = eng.exec_block(body, st)
        nret = 0
        for cur, flow, val in outs:
            if flow in (eng.NORMAL, eng.RETURN):
                nret += 1
                if flow == eng.NORMAL:
                    val = NoneVal()
                cur.vars["result"] = val
                for cl in contract.ensures_c:
                    if props is not None and cl.props is not None and not (set(cl.props) & set(props)):
                        continue
                    g = eng.spec_bool(cur, cl.expr)
                    eng.ob(cur, f"exit{nret}:ensures:{cl.name}", "post", g, fn.end_lineno, cl.expr)
            elif flow == eng.RAISE:
                if val in contract.raises:
                    cond = contract.raises[val]
                    if cond is not None:
                        g = eng.spec_bool(cur, cond)
                        eng.ob(cur, f"raise:{val}:allowed-only-when", "post", g, fn.lineno, cond)
                else:
                    eng.ob(cur, f"raise:{val}:unreachable", "post", z3.BoolVal(False), fn.lineno,
                           f"raise {val} is not permitted by the contract")
            else:
                raise Unsupported(f"flow {flow} escaped the function body")
        for anchor, _ in contract.ghost_after:
            if anchor not in eng.ghost_hits:
                raise Unsupported(f"does-not-attach: ghost anchor '{anchor}' matches no statement")
        # loops named by the contract must exist
        nloops = len(extract.loops_of(fn.node))
        for k in contract.loops:
            if k >= nloops:
                raise Unsupported(f"does-not-attach: contract names loop {k}, function has {nloops}")
            hdr = extract.loop_header(extract.loops_of(fn.node)[k])
            if hdr != contract.loops[k].header:
                raise Unsupported(f"does-not-attach: loop {k} header '{hdr}' != '{contract.loops[k].header}'")
    except Unsupported as e:
        if os.environ.get("VT_DEBUG"):
            raise
        out.error = str(e)
    except z3.Z3Exception as e:
        if os.environ.get("VT_DEBUG"):
            raise
        out.error = f"encoding error: {e}"
    out.obligations = eng.obligations
    if getattr(eng, "uses_cumsum_lemma", False) and not eng.mode.fp:
        # induction step: C non-decreasing on [0, j], C[j+1] = C[j] + x, x >= 0  |-  non-decreasing on [0, j+1]
        C = z3.Array("C!lem", z3.IntSort(), z3.RealSort())
        jj, x = z3.Int("j!lem"), z3.Real("x!lem")
        a, b = z3.Ints("a!lem b!lem")
        hyp = z3.And(z3.ForAll([a, b], z3.Implies(z3.And(0 <= a, a <= b, b <= jj), C[a] <= C[b])),
                     C[jj + 1] == C[jj] + x, x >= 0, jj >= 0)
        goal = z3.ForAll([a, b], z3.Implies(z3.And(0 <= a, a <= b, b <= jj + 1), C[a] <= C[b]))
        o = Obligation(f"{fn.module}.{fn.qualname}:lemma:cumsum-monotone-induction-step", "lemma", [hyp], goal, 0,
                       f"{fn.module}.{fn.qualname}", "prefix sums of non-negative terms are non-decreasing (induction step; base case trivial)")
        out_lemmas = [o]
    else:
        out_lemmas = []
    out.obligations = out.obligations + out_lemmas
    if label:
        for ob_ in out.obligations:
            ob_.name = ob_.name + f"[{label}]"
    if eng.abstract_fp and eng.mode.fp:
        from .fplemmas import lemma_obligations
        lems, lnotes = lemma_obligations(tier)
        eng.notes.extend(lnotes)
        for nm, refute, doc in lems:
            o = Obligation(f"{fn.module}.{fn.qualname}:{nm}", "lemma", [refute], z3.BoolVal(False), 0,
                           f"{fn.module}.{fn.qualname}", doc)
            o.raw = True
            out.obligations.append(o)
    for ob in out.obligations:
        ob.inputs = out.inputs
    out.notes = eng.notes
    out.npaths = eng.npaths
    return out
