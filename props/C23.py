"""C23 -- Rescaling credits each unphased singleton to its branches by phase probability"""
from vt import g3, runner

META = {
    "category": "proof",
    "text": "G1 (real arithmetic) proves on the real phasing.reallocate_unphased, for all block tables and phases, that every candidate branch ends with exactly the sum of the phase shares of the singletons in its blocks (a singleton contributes phase to its block's first edge and 1 - phase to the second, one in total), that all other branches and all spans are unchanged, and that the real-code asserts about indices and phases hold. G3 + z3 prove the call-site orientation: the phase vector handed over by rescale() gives the branch each singleton was finally placed on the share max(p, 1-p) (this was a defect, fixed: ab91eed). The bounded stand-in runs real EP fits.",
    "design_ref": "DESIGN.md section 4, C23; Appendix A.2",
    "level_note": "A-REAL (phases as reals; NaN phases, which the code skips, are outside the encoding). The closing real-code assert isclose(total before, total after) is NOT discharged (needs the caller's state and a sum exchange): assumed, exercised by the bounded part. Trusted: encoding, numpy primitive contracts, z3.",
    "technique": "contract-based deductive verification: VC generation over the real Python AST + SMT (z3/cvc5); call-site data-flow contract",
}
PLAN = {"level": "proof", "explanation": META["text"]}


def run(ctx):
    runner.run_g1(ctx, ["phasing.reallocate_unphased"], registry_modules=("contracts.phasing",))
    runner.bounded_contract(ctx, "phasing.reallocate_unphased")
    g = g3.G3(ctx)
    g3.rescale_orientation(g)
    runner.bounded_if_present(ctx)
