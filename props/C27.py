"""C27 -- constraint enforcement is minimal and idempotent (G1, mode fp64, util._constrain_ages)."""
from vt import g3, runner

META = {
    "category": "proof",
    "text": "Every clause of C27 is a postcondition of the real util._constrain_ages (extracted from /repo on each "
            "run) under a contract with loop invariants; all obligations (postconditions at both exits, invariant "
            "initiation/preservation for the three loops, real-code asserts, index bounds) are discharged by z3 for "
            "all array lengths, edge orders, iteration counts and doubles; the Python wrapper util.constrain_ages is shown (G3, path enumeration) to pass its arguments to the kernel, to hand the kernel the sample-flag bit as the fixed mask (z3 bit-vectors) and to return the kernel result without storing into it. Proof is the right level because the "
            "property is a per-call postcondition of one numba kernel.",
    "design_ref": "DESIGN.md 4/C27, Appendix A.1",
    "level_note": "Trusted: the AST->SMT encoding; numpy primitive contracts (copy, zeros, all, nextafter); z3/cvc5. "
                  "IEEE arithmetic enters only through lemmas proved bit-precisely on each run, except A-FP-MONO "
                  "(binary64 instance assumed, binary16/32 proved). A-LS-FINITE: least-squares sweeps assumed not to "
                  "overflow (only when max_iterations > 0). A-TS-ORDER: tskit edge ordering implies topo_ordered.",
    "technique": "contract-based deductive verification: WP/VC generation over the real Python AST + SMT (z3/cvc5)",
}
PLAN = {"level": "proof", "explanation": META["text"]}


def run(ctx):
    runner.run_g1(ctx, ["util._constrain_ages"])
    runner.bounded_contract(ctx, "util._constrain_ages")
    # the Python wrapper between the kernel and every caller: passes its arguments through, returns the kernel's
    # result untouched (G3 data-flow + frame obligations), so the kernel's postconditions are the wrapper's
    g3.constrain_ages_wrapper(g3.G3(ctx))
    ctx.add_assumption("A-TS-ORDER (lemma L1): a tskit tree sequence lists edges by non-decreasing parent time "
                       "and children are strictly younger, hence no earlier edge's child is a later edge's parent")
