"""C24 -- Per-edge mutation, span and singleton-block tallies are exact"""
from vt import g3, runner

META = {
    "category": "other",
    "text": "Proved (G3 + z3): the real-code assert of count_mutations is implied by the caller-visible precondition `mask has one entry per node` (was inverted; fixed: 24a48c9) and the explicit mask and the tree-sequence columns are the kernel's arguments. The sweeps themselves (_count_mutations, _block_singletons) are compared with direct per-tree tallies on real inputs (bounded).",
    "design_ref": "DESIGN.md section 4, C24",
    "level_note": 'Trusted: G3; bounded part only for the kernels.',
    "technique": 'contract-based verification: frame/protocol/data-flow contracts decided by symbolic path enumeration of the real AST (+ z3 where arithmetic is involved); bounded stand-in on the real code',
}
PLAN = {"level": "other", "explanation": META["text"]}


def run(ctx):
    g = g3.G3(ctx)
    g3.count_mutations_wrapper(g)
    runner.bounded_if_present(ctx)
