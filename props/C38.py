"""C38 -- ignore_oldest_root ignores exactly the oldest root"""
from vt import g3, runner

META = {
    "category": "other",
    "text": 'Branch contract (G3) on the real outside_pass: under the flag the only effect is skipping edges whose parent equals one designated node, and that node must be defined from node times (the parent of greatest input time). The second obligation is refuted on the current code (it uses num_nodes - 1): a known finding that cannot be repaired without breaking an existing unit test. The bounded stand-in renumbers nodes on real inputs.',
    "design_ref": "DESIGN.md section 4, C38",
    "level_note": 'Trusted: G3 structural matching of the branch.',
    "technique": 'contract-based verification: frame/protocol/data-flow contracts decided by symbolic path enumeration of the real AST (+ z3 where arithmetic is involved); bounded stand-in on the real code',
}
PLAN = {"level": "other", "explanation": META["text"]}


def run(ctx):
    g = g3.G3(ctx)
    g3.outside_pass_contract(g)
    runner.bounded_if_present(ctx)
