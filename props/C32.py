"""C32 -- Time metadata writing follows the set_metadata policy"""
from vt import g3, runner

META = {
    "category": "proof",
    "text": 'Decision-table contract (G3) on the real set_time_metadata: every path over set_metadata in {False, None, True} x encodable? x (metadata or schema present?) ends in the state the property prescribes (untouched / merged rows / warning + untouched / cleared + default schema + all rows), rows are built completely before the single packset_metadata write, and each row is the existing row updated with mn and vr. The codec matrix is exercised on real tables by the bounded stand-in.',
    "design_ref": "DESIGN.md section 4, C32",
    "level_note": "Trusted: G3 path enumeration; assumed: which exceptions tskit's validate_and_encode_row raises (MetadataValidationError/EncodingError) and packset_metadata/drop_metadata semantics (A-TS-API).",
    "technique": 'contract-based verification: frame/protocol/data-flow contracts decided by symbolic path enumeration of the real AST (+ z3 where arithmetic is involved); bounded stand-in on the real code',
}
PLAN = {"level": "proof", "explanation": META["text"]}


def run(ctx):
    g = g3.G3(ctx)
    g3.get_modified_ts(g, "C32")
    g3.set_time_metadata(g, "C32")
    runner.bounded_if_present(ctx)
