"""C33 -- Provenance records each call exactly once"""
from vt import g3, runner

META = {
    "category": "other",
    "text": 'Call-protocol contract (G3): get_modified_ts and preprocess_ts call record_provenance exactly once iff recording is on, record_provenance appends exactly one row built from the command name and every recorded parameter and touches nothing else, nested calls pass record_provenance=False, and every run() parameter is copied into the record. Encodability of numpy parameter values was a defect (fixed: 9c8774f).',
    "design_ref": "DESIGN.md section 4, C33",
    "level_note": 'Trusted: G3 path enumeration; assumed: provenances.add_row appends and keeps earlier rows (A-TS-API); json.dumps (A-JSON).',
    "technique": 'contract-based verification: frame/protocol/data-flow contracts decided by symbolic path enumeration of the real AST (+ z3 where arithmetic is involved); bounded stand-in on the real code',
}
PLAN = {"level": "other", "explanation": META["text"]}


def run(ctx):
    g = g3.G3(ctx)
    g3.get_modified_ts(g, "C33")
    g3.provenance_contract(g)
    runner.bounded_if_present(ctx)
