"""C37 -- Standalone tree-sequence rescaling works"""
from vt import g3, runner

META = {
    "category": "other",
    "text": "Call-type contract (G3): the arguments of the numba kernel mutational_timescale at its call site match the kernel's declared signature (was a defect, fixed: 522e0bd); composition contract: samples rejected unless contemporary, fixed mask = samples, node times go through piecewise_scale_point_estimate with that mask, mutations at branch midpoints / node time above roots, only nodes.time and mutations.time are written. Monotonicity then follows from the C25 contract; validity from A-TS-API. Real runs in the bounded stand-in.",
    "design_ref": "DESIGN.md section 4, C37",
    "level_note": "Trusted: G3; C25's contract for piecewise_scale_point_estimate (bounded there); A-TS-API/A-TS-ORDER: documented behaviour of tskit tables (sort, build_index, compute_mutation_parents/times, tree_sequence validation, edge ordering).",
    "technique": 'contract-based verification: frame/protocol/data-flow contracts decided by symbolic path enumeration of the real AST (+ z3 where arithmetic is involved); bounded stand-in on the real code',
}
PLAN = {"level": "other", "explanation": META["text"]}


def run(ctx):
    g = g3.G3(ctx)
    g3.rescale_tree_sequence_contract(g)
    runner.bounded_if_present(ctx)
