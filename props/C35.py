"""C35 -- Invalid inputs are rejected cleanly and valid ones never crash"""
from vt import g3, runner

META = {
    "category": "other",
    "text": "Proved: the validation table (each listed invalid parameter reaches a ValueError/NotImplementedError guard before inference), the result shape of parse_result, the exception-type contract over every raise site of the package, and the real-code asserts of _damp/_rescale/_constrain_ages (G1). Absence of every numerical assertion failure inside the EP kernels is not decidable by this family; a bounded sweep over pathological inputs records exception types (one known finding: 'Use fewer rescaling intervals').",
    "design_ref": "DESIGN.md section 4, C35",
    "level_note": 'Trusted: G3/G1 engines. Assumed: reviewed allow-list of internal guards (EXC_ALLOWLIST in vt/g3.py), A-NUM-CONVERGENCE.',
    "technique": 'contract-based verification: frame/protocol/data-flow contracts decided by symbolic path enumeration of the real AST (+ z3 where arithmetic is involved); bounded stand-in on the real code',
}
PLAN = {"level": "other", "explanation": META["text"]}


def run(ctx):
    g = g3.G3(ctx)
    g3.validation_table(g)
    g3.parse_result_shape(g)
    g3.exception_contract(g)
    g3.loop_assigned_locals(g)
    runner.run_g1(ctx, ["variational._damp", "variational._rescale", "util._constrain_ages"])
    runner.bounded_if_present(ctx)
