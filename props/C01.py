"""C01 -- Dated output is always a valid tree sequence with enforced branch lengths"""
from vt import g3, runner

META = {
    "category": "other",
    "text": 'Both ordering clauses are postconditions of the real util._constrain_ages proved for all inputs (G1, fp64); G3 proves that get_modified_ts assigns exactly that result to nodes.time, resets mutation times/parents and runs sort -> build_index -> compute_mutation_parents -> compute_mutation_times -> tree_sequence(), and that constrain_ages hands the kernel the sample-flag mask. Mutation-time bounds and validity then follow from the assumed tskit contracts -- except on branches one ulp long, where the midpoint computed by tskit rounds onto the time of the parent (a known, recorded finding that keeps this check below proof level). A bounded end-to-end run over methods/options/time scales is a cross-check, not part of the proof.',
    "design_ref": "DESIGN.md section 4, C01",
    "level_note": 'Trusted: AST->SMT encoding, numpy primitive contracts, z3/cvc5, A-TS-API/A-TS-ORDER: documented behaviour of tskit tables (sort, build_index, compute_mutation_parents/times, tree_sequence validation, edge ordering). Assumed: A-LS-FINITE (least-squares sweeps do not overflow), A-FP-MONO (binary64 instance of one monotonicity lemma), posterior means are finite (bounded only).',
    "technique": 'contract-based deductive verification: VC generation over the real Python AST + SMT (z3/cvc5)',
}
PLAN = {"level": "other", "explanation": META["text"]}


def run(ctx):
    runner.run_g1(ctx, ["util._constrain_ages"])
    g = g3.G3(ctx)
    g3.get_modified_ts(g, "C01")
    g3.constrain_ages_wrapper(g)
    runner.bounded_contract(ctx, "util._constrain_ages")
    runner.bounded_if_present(ctx)
    ctx.add_assumption('A-TS-API/A-TS-ORDER: documented behaviour of tskit tables (sort, build_index, compute_mutation_parents/times, tree_sequence validation, edge ordering)')
