"""C36 -- The precomputed prior cache is crash-safe and exact"""
from vt import g3, runner

META = {
    "category": "other",
    "text": 'Effect contract (G3) under A-FS with the file system as ghost state: on every path the cache path is only ever the destination of os.replace from a fully written mkstemp file in the same directory, so at every crash point and under any interleaving of writers it is absent or complete; a table read from disk is used only after its shape and finiteness are checked, otherwise recomputed. Truncation at every byte offset and writer interleavings are replayed on the real functions by the bounded stand-in (fault enumeration).',
    "design_ref": "DESIGN.md section 4, C36",
    "level_note": 'Assumed: A-FS (POSIX rename atomicity, no power-loss durability), np.savetxt/np.loadtxt text round-trip of %.18e (checked bitwise in the bounded part).',
    "technique": 'contract-based verification: frame/protocol/data-flow contracts decided by symbolic path enumeration of the real AST (+ z3 where arithmetic is involved); bounded stand-in on the real code',
}
PLAN = {"level": "other", "explanation": META["text"]}


def run(ctx):
    g = g3.G3(ctx)
    g3.cache_contract(g)
    runner.bounded_if_present(ctx)
