"""C05 -- Variational posteriors are proper, precision-capped gamma distributions"""
from vt import g3, runner

META = {
    "category": "other",
    "text": "Proved (G1, real arithmetic, on the real kernels): _damp and _rescale keep a proper posterior proper, bound the cavity from below, and cap/floor the shape for max_shape > 1 (max_shape <= 1 was a defect, fixed: e9e25d1); proved (G3): the caller's max_shape reaches every kernel that caps a posterior, including the rescaling step. The base case (every node receives a first valid message) is numerical and is evaluated on real runs (bounded).",
    "design_ref": "DESIGN.md section 4, C05",
    "level_note": 'A-REAL: float64 treated as reals in _damp/_rescale. Bounded: whole-run properness.',
    "technique": 'contract-based deductive verification: VC generation over the real Python AST + SMT (z3/cvc5)',
}
PLAN = {"level": "other", "explanation": META["text"]}


def run(ctx):
    runner.run_g1(ctx, ["variational._damp", "variational._rescale"])
    runner.bounded_contract(ctx, "variational._damp")
    runner.bounded_contract(ctx, "variational._rescale")
    g = g3.G3(ctx)
    g3.max_shape_chain(g)
    runner.bounded_if_present(ctx)
