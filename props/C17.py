"""C17 -- Population-size time transforms are exact and mutually inverse"""
from vt import g3, runner

META = {
    "category": "other",
    "text": "Proved (G1, real arithmetic, on the real _change_time_measure with an inductive ghost lemma): the returned times are the integral of 1/measure from 0, the returned breakpoints are that integral at the breakpoints, the new measure is the reciprocal; the map fixes 0, is continuous at breakpoints and strictly increasing inside every epoch; lemma T2 proves that applying the same contract to (integral at breakpoints, reciprocal measure) is the inverse map. G3 proves that __init__ stores 2N and the integral at the breaks, that both conversion methods call the kernel on the stored triples, and (z3, bit-precise) that as_dict() rebuilds identical arrays. gamma_to_natural and floating-point accuracy are bounded only (three known findings on cancellation).",
    "design_ref": "DESIGN.md section 4, C17; Appendix A.7",
    "level_note": "A-REAL for the transforms (floating-point cancellation is a known finding of the bounded part); A-NUMPY (searchsorted, cumsum, concatenate); np.all(np.diff(x) > 0) (adjacent) is used by callers while the kernel contract needs all-pairs order: the step between the two is the standard induction, not mechanised for the caller. gamma_to_natural: bounded (mpmath).",
    "technique": "contract-based deductive verification: VC generation over the real Python AST + SMT, inductive ghost lemma; data-flow contracts for the callers",
}
PLAN = {"level": "other", "explanation": META["text"]}


def run(ctx):
    import contracts.demography as d
    runner.run_g1(ctx, ["demography.PopulationSizeHistory._change_time_measure"], registry_modules=("contracts.demography",))
    runner.run_lemmas(ctx, d.inverse_lemmas(), "demography")
    runner.bounded_contract(ctx, "demography.PopulationSizeHistory._change_time_measure")
    g = g3.G3(ctx)
    g3.demography_contract(g)
    runner.bounded_if_present(ctx)
