"""C34 -- The command-line interface is faithful to the Python API"""
from vt import g3, runner

META = {
    "category": "other",
    "text": "Data-flow contract (G3): the option table is extracted from the parser; for every successful path of run_date / run_preprocess each option is passed to the API under its keyword with the parsed value or the path has rejected it; boolean options' type callables map off-tokens to False; no output is written before an error exit. `--epsilon` being silently ignored for variational_gamma is a known unrepaired finding. The bounded stand-in runs the real CLI against the API.",
    "design_ref": "DESIGN.md section 4, C34",
    "level_note": 'Trusted: G3 path enumeration; A-ARGPARSE.',
    "technique": 'contract-based verification: frame/protocol/data-flow contracts decided by symbolic path enumeration of the real AST (+ z3 where arithmetic is involved); bounded stand-in on the real code',
}
PLAN = {"level": "other", "explanation": META["text"]}


def run(ctx):
    g = g3.G3(ctx)
    g3.cli_contract(g)
    runner.bounded_if_present(ctx)
