"""C02 -- Dating changes only times, time metadata and unphased singleton placement"""
from vt import g3, runner

META = {
    "category": "other",
    "text": "Frame contract (G3): on every path of get_modified_ts / set_time_metadata the writes to the copied tables are within {time_units, nodes.time, nodes/mutations metadata(+schema), mutations.node/time/parent, one provenance row} plus sort/build_index/compute_*; mutations.node is the fit's mutation mapping. Row identity of mutations across tables.sort() is a known unrepaired defect (KNOWN_FINDINGS). The bounded stand-in diffs whole table collections on real runs.",
    "design_ref": "DESIGN.md section 4, C02",
    "level_note": 'Trusted: G3 path enumeration; A-TS-API/A-TS-ORDER: documented behaviour of tskit tables (sort, build_index, compute_mutation_parents/times, tree_sequence validation, edge ordering). Not proved: that mutation_mapping() differs from the input only for unphased singletons (bounded).',
    "technique": 'contract-based verification: frame/protocol/data-flow contracts decided by symbolic path enumeration of the real AST (+ z3 where arithmetic is involved); bounded stand-in on the real code',
}
PLAN = {"level": "other", "explanation": META["text"]}


def run(ctx):
    g = g3.G3(ctx)
    g3.get_modified_ts(g, "C02")
    g3.set_time_metadata(g, "C02")
    runner.bounded_if_present(ctx)
