"""C04 -- Reported posteriors in metadata equal the fit object's posteriors"""
from vt import g3, runner

META = {
    "category": "other",
    "text": "Data-flow contract (G3): the arrays written as mn/vr are exactly Results.posterior_mean/var and mutation_mean/var, row i of the packed metadata is the existing row updated with mn=mean[i], vr=var[i], and nothing is written when var is None (maximization). That the fit object's *_posteriors() recompute the same values, and the grid-row clauses for inside_outside, are evaluated on real runs (bounded).",
    "design_ref": "DESIGN.md section 4, C04",
    "level_note": 'Trusted: G3 path enumeration, JSON float round-trip (A-JSON), A-TS-API/A-TS-ORDER: documented behaviour of tskit tables (sort, build_index, compute_mutation_parents/times, tree_sequence validation, edge ordering).',
    "technique": 'contract-based verification: frame/protocol/data-flow contracts decided by symbolic path enumeration of the real AST (+ z3 where arithmetic is involved); bounded stand-in on the real code',
}
PLAN = {"level": "other", "explanation": META["text"]}


def run(ctx):
    g = g3.G3(ctx)
    g3.get_modified_ts(g, "C04")
    g3.set_time_metadata(g, "C04")
    runner.bounded_if_present(ctx)
