"""C08 -- Dates depend only on topology, sample times and mutation placement"""
from vt import g3, runner

META = {
    "category": "other",
    "text": "Read-frame contract (G3): every attribute read on the input tree sequence inside the dating cone (core, variational, discrete, prior, node_time_class, demography and the kernels' wrappers) is a topology / node-time / sample-flag / mutation node-and-position accessor, individuals only on the unphased path; no function of the cone reads metadata, states, populations, provenance or site tables; site positions are only used through mutations_site. Perturbation runs on the real code are the bounded part.",
    "design_ref": "DESIGN.md section 4, C08",
    "level_note": 'Trusted: syntactic alias set {ts, tree_sequence, *.ts, *.tree_sequence}; tskit accessors return what their names say (A-TS-API).',
    "technique": 'contract-based verification: frame/protocol/data-flow contracts decided by symbolic path enumeration of the real AST (+ z3 where arithmetic is involved); bounded stand-in on the real code',
}
PLAN = {"level": "other", "explanation": META["text"]}


def run(ctx):
    g = g3.G3(ctx)
    g3.reads_contract(g)
    g3.get_modified_ts(g, "C08")
    runner.bounded_if_present(ctx)
