"""C03 -- Sample times are kept, except for the minimal push above dated children"""
from vt import g3, runner

META = {
    "category": "proof",
    "text": "G1 (fp64) proves on the real _constrain_ages that every fixed node is returned numerically unchanged unless it has a child edge, in which case it equals the least double above that child's output time that is >= child + epsilon; the least-squares phase never moves a fixed node. G3 proves the fixed mask is exactly the NODE_IS_SAMPLE bit (z3 bit-vectors) and that the kernel result is what reaches nodes.time.",
    "design_ref": "DESIGN.md section 4, C03",
    "level_note": 'Trusted as for C01. Assumed: A-LS-FINITE, A-FP-MONO; fit objects report the tree-sequence time for samples (bounded only).',
    "technique": 'contract-based deductive verification: VC generation over the real Python AST + SMT (z3/cvc5)',
}
PLAN = {"level": "proof", "explanation": META["text"]}


def run(ctx):
    runner.run_g1(ctx, ["util._constrain_ages"])
    g = g3.G3(ctx)
    g3.get_modified_ts(g, "C03")
    g3.constrain_ages_wrapper(g)
    runner.bounded_contract(ctx, "util._constrain_ages")
    runner.bounded_if_present(ctx)
