#!/bin/bash
# usage: tools/run_all.sh [tier] [parallel]  -- every check on the current /repo tree; summary in /tmp/run_all.log
tier=${1:-quick}; par=${2:-3}
cd /verif
: > /tmp/run_all.log
ls props | grep -o 'C[0-9][0-9]' | sort -u | xargs -P $par -I{} bash -c './check {} --tier '$tier' > /tmp/run_all_{}.out 2>&1; echo "{} exit=$? $(grep "^{}:" /tmp/run_all_{}.out)" >> /tmp/run_all.log'
sort /tmp/run_all.log
