#!/bin/bash
# usage: tools/run_seed.sh <seed> [parallel]  -- every quick check with VERIF_SEED=<seed>, evidence redirected; summary on stdout
seed=$1; par=${2:-3}
cd /verif
out=/tmp/run_seed_$seed; rm -rf $out; mkdir -p $out
ls props | grep -o 'C[0-9][0-9]' | sort -u | xargs -P $par -I{} bash -c "VERIF_SEED=$seed VERIF_OUT=$out/o ./check {} > $out/{}.out 2>&1; echo \"{} exit=\$? \$(grep '^{}:' $out/{}.out)\" >> $out/summary.log"
sort $out/summary.log
