#!/usr/bin/env python3
"""Regenerate the two generated tables of DESIGN.md section 0 from props/, evidence/ and seeded/."""
import glob, json, os, re
V = "/verif"
rows = []
for f in sorted(glob.glob(f"{V}/props/C*.py")):
    pid = os.path.basename(f)[:3]
    src = open(f).read()
    cat = re.search(r'"category":\s*"(\w+)"', src).group(1)
    try:
        ev = json.load(open(f"{V}/evidence/{pid}.json"))
    except OSError:
        continue
    cov = ev["coverage"]
    gens = cov.get("generators") or sorted({o["generator"] for o in cov["obligation_list"]})
    fns = sorted({x["function"].replace("tsdate.", "") for x in cov["functions_under_contract"]})
    g3 = sorted({o["name"].split(":")[0] for o in cov["obligation_list"] if o["generator"] == "G3"})
    names = fns + [x for x in g3 if x not in fns]
    if len(names) > 6:
        names = names[:6] + [f"… ({len(names)} in all)"]
    nb = [o for o in cov["obligation_list"] if o["generator"] == "G4"]
    bounded = f"{len(nb)} clause(s)" + (f", rt/bounded_{pid}.py" if os.path.exists(f"{V}/rt/bounded_{pid}.py") else "")
    ob = f"{cov['discharged']}/{cov['obligations']}" if cov["obligations"] else "–"
    rows.append(f"| {pid} | {cat} | {'+'.join(gens)} | {ob} | {', '.join('`'+n+'`' for n in names) or '–'} | {bounded} | "
                f"{len(cov['known_findings_matched'])} |")
table = "\n".join(rows)

suite = {}
for ln in open(f"{V}/seeded/SUITE.txt") if os.path.exists(f"{V}/seeded/SUITE.txt") else []:
    m = re.match(r"(\S+) HEAD=(\S+) :: (.*)", ln.strip())
    if m:
        suite[m.group(1)] = m.group(3)
srows = ["| seed | change (short) | needs | reported by | my suite run on HEAD+patch |", "|---|---|---|---|---|"]
for f in sorted(glob.glob(f"{V}/seeded/C*/meta.json")):
    m = json.load(open(f))
    sid = m["seed"]
    srows.append(f"| {sid} | {m['change'][:150]} | {m['needs_to_manifest'][:110]} | **{', '.join(m['checks_that_report_it'])}** — "
                 f"{m['how_detected'][:260]} | {suite.get(sid, 'not re-run by me (sub-agent reported 470 passed)')[:40]} |")
seeds = "\n".join(srows)

p = f"{V}/DESIGN.md"
s = open(p).read()
def put(s, tag, body):
    b, e = f"<!--{tag}-BEGIN-->", f"<!--{tag}-END-->"
    if f"@@{tag}@@" in s:
        return s.replace(f"@@{tag}@@", f"{b}\n{body}\n{e}")
    i, j = s.index(b), s.index(e)
    return s[:i] + f"{b}\n{body}\n" + s[j:]
s = put(s, "TABLE", table)
s = put(s, "SEEDS", seeds)
open(p, "w").write(s)
print(len(rows), "rows;", len(srows) - 2, "seeds")
