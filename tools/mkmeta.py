#!/usr/bin/env python3
"""usage: tools/mkmeta.py <id> <change> <needs> <checks,comma> <how_detected> [suite-result]"""
import json, sys
sid, change, needs, checks, how = sys.argv[1:6]
suite = sys.argv[6] if len(sys.argv) > 6 else "470 passed, 20 skipped (reported by the authoring sub-agent on its worktree at /repo HEAD + patch)"
meta = {"seed": sid, "property_broken": sid, "change": change, "needs_to_manifest": needs,
        "author": "independent sub-agent given only the property text and a scratch worktree",
        "confirmed": {"demo_on_unchanged_tree": "exit 0 (tools/verify_seed.sh, NUMBA_DISABLE_JIT=1)",
                      "demo_with_change": "exit 1", "test_suite_with_change": suite},
        "checks_that_report_it": checks.split(","), "how_detected": how}
json.dump(meta, open(f"/verif/seeded/{sid}/meta.json", "w"), indent=1)
