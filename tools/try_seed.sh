#!/bin/bash
# usage: tools/try_seed.sh <patch.diff> <Cxx> [<Cyy> ...]   -- run checks against a scratch copy of /repo with the patch applied
patch=$1; shift
scratch=$(mktemp -d /tmp/scratch_seed.XXXXXX)
cp -r /repo/tsdate $scratch/tsdate
cp -r /repo/tests $scratch/tests 2>/dev/null
( cd $scratch && patch -p1 --no-backup-if-mismatch < $patch > $scratch/patch.log 2>&1 ) || { echo "PATCH FAILED"; cat $scratch/patch.log; rm -rf $scratch; exit 9; }
for c in "$@"; do
  VERIF_REPO=$scratch VERIF_OUT=$scratch/out VT_NO_CACHE= /verif/check $c > $scratch/$c.out 2>&1; rc=$?
  echo "$c exit=$rc  $(grep -c '^VIOLATION' $scratch/$c.out) violation line(s): $(grep '^VIOLATION' $scratch/$c.out | head -2 | tr '\n' ' ')"
  grep "^$c:" $scratch/$c.out
  jq -r '.coverage.obligation_list[] | select(.verdict=="refuted" or .verdict=="refuted-candidate" or .verdict=="bounded-fail") | "    failed: \(.name) [\(.generator)/\(.verdict)]" + (if .known_finding then " (known finding)" else "" end)' $scratch/out/evidence/$c.json 2>/dev/null | head -12
done
[ -n "$KEEP_REPLAYS" ] && { mkdir -p $KEEP_REPLAYS; cp -r $scratch/out/replays/. $KEEP_REPLAYS/ 2>/dev/null; }
rm -rf $scratch
