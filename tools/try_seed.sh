#!/bin/bash
# usage: tools/try_seed.sh <patch.diff> <Cxx> [<Cyy> ...]   -- run checks against a scratch copy of /repo with the patch applied
patch=$1; shift
scratch=$(mktemp -d /tmp/scratch_seed.XXXXXX)
cp -r /repo/tsdate $scratch/tsdate
cp -r /repo/tests $scratch/tests 2>/dev/null
( cd $scratch && patch -p1 --no-backup-if-mismatch < $patch > $scratch/patch.log 2>&1 ) || { echo "PATCH FAILED"; cat $scratch/patch.log; rm -rf $scratch; exit 9; }
for c in "$@"; do
  VERIF_REPO=$scratch VT_NO_CACHE= /verif/check $c > $scratch/$c.out 2>&1; rc=$?
  echo "$c exit=$rc  $(grep -c '^VIOLATION' $scratch/$c.out) violation line(s): $(grep '^VIOLATION' $scratch/$c.out | head -2 | tr '\n' ' ')"
  grep "^$c:" $scratch/$c.out
done
rm -rf $scratch
