#!/usr/bin/env python3
"""Rebuild MANIFEST.json from the props/ modules (META) and properties.jsonl."""
import importlib
import json
import os
import sys

ROOT = os.path.dirname(os.path.dirname(os.path.abspath(__file__)))
sys.path.insert(0, ROOT)

NOT_APPLICABLE = {}


def main():
    props = [json.loads(l) for l in open(os.path.join(ROOT, "properties.jsonl"))]
    checks, na = [], []
    for p in props:
        pid = p["id"]
        path = os.path.join(ROOT, "props", f"{pid}.py")
        if not os.path.exists(path):
            na.append({"property_id": pid, "reason": NOT_APPLICABLE.get(
                pid, "no check registered yet: the planned contract is described in DESIGN.md section 4")})
            continue
        src = open(path).read()
        ns = {}
        # META is a literal dict near the top of each module
        start = src.index("META = {")
        end = src.index("\n}\n", start) + 3
        exec(src[start:end], ns)  # noqa: S102
        m = ns["META"]
        checks.append({
            "property_id": pid,
            "quick_cmd": f"./check {pid} --tier quick",
            "thorough_cmd": f"./check {pid} --tier thorough",
            "evidence_file": f"evidence/{pid}.json",
            "replay_cmd_template": "cat {path}",
            "engine": "vt",
            "level_claimed": {"category": m["category"], "text": m["text"], "design_ref": m["design_ref"]},
            "level_note": m["level_note"],
            "technique": m["technique"],
        })
    man = {
        "version": 1,
        "setup_cmd": "python3-vt -m vt.selfcheck --fast",
        "hooks": {
            "guard": "TSDATE_VERIF",
            "enable": "no hooks: contracts are sidecars under /verif/contracts; /repo is read as text by the generators "
                      "(G1-G3) and imported unmodified by the replay / bounded harness (G4)",
            "baseline_off_cmd": "cd /repo && /venv/bin/python -m pytest -ra -q -p no:cacheprovider --timeout=900 "
                                "--continue-on-collection-errors",
            "source_commits": [],
            "add_only": True,
        },
        "engines": [
            {"name": "vt", "path": "vt/", "serves_properties": [c["property_id"] for c in checks],
             "kind_free_text": "G1: VC generator over the real Python AST -> z3/cvc5 (loop invariants, callee contracts, "
                               "ghost state, typed quantifier pre-instantiation, IEEE arithmetic via bit-precisely proved "
                               "lemmas); G2: dimensional contracts (homogeneity type check of the real AST, unification constraints discharged by z3) with a homogeneity replay on the real functions; G3: frame/protocol/data-flow contracts by symbolic path enumeration; "
                               "G4 (rt/): replay of counter-models and bounded stand-ins on the real code under /venv"},
        ],
        "checks": checks,
        "notes": "See DESIGN.md. Exit codes of ./check: 0 held, 1 violation (VIOLATION line), 2 undecided, 3 checker error. "
                 "KNOWN_FINDINGS.txt lists repaired (fix: commits in /repo) and recorded defects.",
        "not_applicable": na,
    }
    json.dump(man, open(os.path.join(ROOT, "MANIFEST.json"), "w"), indent=1)
    print(f"{len(checks)} checks, {len(na)} not applicable")


if __name__ == "__main__":
    main()
