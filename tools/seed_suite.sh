#!/bin/bash
# usage: tools/seed_suite.sh <id|HEAD> ...  -- full unedited test suite on a scratch copy of /repo HEAD with
# seeded/<id>/patch.diff applied (HEAD: no patch); one result line per id appended to /tmp/seed_suite.log
N=${SUITE_N:-5}
for id in "$@"; do
  d=/verif/seeded/$id
  scratch=$(mktemp -d /tmp/scratch_ts.XXXXXX)
  git -C /repo archive HEAD | tar -x -C $scratch
  if [ "$id" != HEAD ]; then
    ( cd $scratch && patch -p1 --no-backup-if-mismatch < $d/patch.diff > /dev/null 2>&1 ) || { echo "$id PATCH-FAILED" >> /tmp/seed_suite.log; rm -rf $scratch; continue; }
  fi
  res=$(cd $scratch && PYTHONPATH=$scratch timeout 7000 nice -n 10 /venv/bin/python -m pytest -q -p no:cacheprovider --timeout=1800 -n $N 2>&1 | tail -1)
  echo "$id HEAD=$(git -C /repo log --format=%h -1) :: $res" >> /tmp/seed_suite.log
  rm -rf $scratch
done
