#!/bin/bash
# usage: tools/verify_seed.sh <id>   -- checks that seeded/<id>/patch.diff applies to /repo HEAD, the demo passes
# without it and fails with it (NUMBA_DISABLE_JIT=1).  The test-suite run is done separately.
id=$1
d=/verif/seeded/$id
scratch=$(mktemp -d /tmp/scratch_vs.XXXXXX)
git -C /repo archive HEAD | tar -x -C $scratch
cd /tmp
NUMBA_DISABLE_JIT=1 PYTHONPATH=$scratch timeout 3000 /venv/bin/python $d/demo.py > $scratch/orig.out 2>&1; rc0=$?
( cd $scratch && patch -p1 --no-backup-if-mismatch < $d/patch.diff > $scratch/patch.log 2>&1 ) || { echo "$id PATCH-FAILED"; rm -rf $scratch; exit 9; }
NUMBA_DISABLE_JIT=1 PYTHONPATH=$scratch timeout 3000 /venv/bin/python $d/demo.py > $scratch/changed.out 2>&1; rc1=$?
echo "$id demo_on_HEAD=$rc0 demo_with_patch=$rc1"
tail -2 $scratch/changed.out | cut -c1-200
rm -rf $scratch
