#!/bin/bash
# usage: tools/seed_matrix.sh [id ...]  -- every seeded change against the checks its meta.json lists; writes seeded/MATRIX.txt
cd /verif
ids=${@:-$(ls seeded | grep '^C')}
out=/verif/seeded/MATRIX.txt
: > $out.tmp
for id in $ids; do
  checks=$(jq -r '.checks_that_report_it | join(" ")' seeded/$id/meta.json)
  echo "=== seed $id (checks: $checks)" >> $out.tmp
  tools/try_seed.sh /verif/seeded/$id/patch.diff $checks >> $out.tmp 2>&1
done
mv $out.tmp $out
