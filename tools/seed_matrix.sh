#!/bin/bash
# usage: tools/seed_matrix.sh [-j N] [id ...]  -- every seeded change against the checks its meta.json lists, N seeds at
# a time (default 3); writes seeded/MATRIX.txt (one block per seed: exit codes, VIOLATION lines, failed obligations)
cd /verif
par=3
if [ "$1" = "-j" ]; then par=$2; shift 2; fi
ids=${@:-$(ls seeded | grep '^C')}
tmp=$(mktemp -d /tmp/seed_matrix.XXXXXX)
one() {
  id=$1; tmp=$2
  checks=$(jq -r '.checks_that_report_it | join(" ")' /verif/seeded/$id/meta.json)
  { echo "=== seed $id (checks: $checks)"; /verif/tools/try_seed.sh /verif/seeded/$id/patch.diff $checks 2>&1; } > $tmp/$id.txt
}
export -f one
echo $ids | tr ' ' '\n' | xargs -P $par -I{} bash -c "one {} $tmp"
cat $(ls $tmp/*.txt | sort) > /verif/seeded/MATRIX.txt
rm -rf $tmp
grep -E "^=== |exit=" /verif/seeded/MATRIX.txt | awk '/^===/ {s=$3} /exit=/ {print s, $1, $2}'
