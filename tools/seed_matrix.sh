#!/bin/bash
# usage: tools/seed_matrix.sh [-j N] [id ...]  -- every seeded change against the checks its meta.json lists, N seeds at
# a time (default 3; OWN_ONLY=1: only the first listed check, i.e. the seed's own property); writes seeded/MATRIX.txt (one block per seed: exit codes, VIOLATION lines, failed obligations)
cd /verif
par=3
if [ "$1" = "-j" ]; then par=$2; shift 2; fi
ids=${@:-$(ls seeded | grep '^C')}
tmp=$(mktemp -d /tmp/seed_matrix.XXXXXX)
one() {
  id=$1; tmp=$2
  checks=$(jq -r '.checks_that_report_it | join(" ")' /verif/seeded/$id/meta.json)
  [ -n "$OWN_ONLY" ] && checks=$(echo $checks | cut -d' ' -f1)
  { echo "=== seed $id (checks: $checks)"; /verif/tools/try_seed.sh /verif/seeded/$id/patch.diff $checks 2>&1; } > $tmp/$id.txt
}
export -f one; export OWN_ONLY
echo $ids | tr ' ' '\n' | xargs -P $par -I{} bash -c "one {} $tmp"
[ -d /tmp/matrix_keep ] && cp -n /tmp/matrix_keep/*.txt $tmp/ 2>/dev/null
cat $(ls $tmp/*.txt | sort) > /verif/seeded/MATRIX.txt
rm -rf $tmp
grep -E "^=== |exit=" /verif/seeded/MATRIX.txt | awk '/^===/ {s=$3} /exit=/ {print s, $1, $2}'
