"""Contracts for tsdate/demography.py."""
import z3

from .base import E, Loop, contract

# ---------------------------------------------------------------------------------------------
# PopulationSizeHistory._change_time_measure (mode real) -- C17, C16
#
# Ib(i) = integral_0^{b_i} ds / m(s)  for the piecewise-constant measure m (value m_i on [b_i, b_{i+1})):
# an uninterpreted function with its recursive definition as axioms.
IB = z3.Function("Ib", z3.IntSort(), z3.RealSort())


def Ib(eng, st, i):
    return IB(eng.to_int(i))


K, NT = "len(breakpoints)", "len(time_ago)"
B, M, T = "breakpoints", "time_measure", "time_ago"

contract(
    "demography.PopulationSizeHistory._change_time_measure", mode="real", gen="change_time_measure",
    types=[("float", 1), ("float", 1), ("float", 1)],
    ret=("tuple", [("float", 1), ("float", 1), ("float", 1)]),
    spec_funcs={"Ib": Ib},
    spec_src={"Ib": "lambda env, i: sum((env['breakpoints'][q + 1] - env['breakpoints'][q]) / env['time_measure'][q] for q in range(i))"},
    requires=[
        f"len({B}) == len({M})", f"len({B}) >= 1",
        f"{B}[0] == 0",
        f"forall(k, 0, {K}, forall(l, k + 1, {K}, {B}[k] < {B}[l]))",
        f"forall(k, 0, {K}, {M}[k] > 0)",
        f"forall(k, 0, {NT}, {T}[k] >= 0)",
    ],
    axioms=[
        "Ib(0) == 0.0",
        f"forall(i, 0, {K} - 1, Ib(i + 1) == Ib(i) + ({B}[i + 1] - {B}[i]) / {M}[i])",
    ],
    ghost_after=[
        ("step = np.concatenate(", "induct('i', 0, len(breakpoints), 'step[i] == Ib(i) - breakpoints[i] / time_measure[i]', 'T1-step-telescopes')"),
    ],
    ensures=[
        E("shapes", f"len(result[0]) == {NT} and len(result[1]) == {K} and len(result[2]) == {K}"),
        E("new-measure-is-reciprocal", f"forall(i, 0, {K}, result[2][i] * {M}[i] == 1)", ["C17"]),
        E("new-breakpoints-are-the-integral-at-breakpoints", f"forall(i, 0, {K}, result[1][i] == Ib(i))", ["C17", "C16"]),
        E("new-times-are-the-integral-of-one-over-measure",
          f"forall(k, 0, {NT}, forall(i, 0, {K}, implies({B}[i] <= {T}[k] and (i + 1 == {K} or {T}[k] < {B}[i + 1]), "
          f"result[0][k] == Ib(i) + ({T}[k] - {B}[i]) / {M}[i])))", ["C17", "C16"]),
        E("fixes-zero", f"forall(k, 0, {NT}, implies({T}[k] == 0, result[0][k] == 0))", ["C17"]),
        E("continuous-at-breakpoints",
          f"forall(i, 0, {K} - 1, Ib(i) + ({B}[i + 1] - {B}[i]) / {M}[i] == Ib(i + 1))", ["C17"]),
        E("strictly-increasing-within-an-epoch",
          f"forall(k, 0, {NT}, forall(l, 0, {NT}, forall(i, 0, {K}, implies({B}[i] <= {T}[k] and {T}[k] < {T}[l] and "
          f"(i + 1 == {K} or {T}[l] < {B}[i + 1]), result[0][k] < result[0][l]))))", ["C17"]),
    ],
    notes="A-REAL (the catastrophic cancellation of t/m_i + step_i in floating point is a known finding of the bounded "
          "part). Ib is the integral of the piecewise-constant 1/m by its recursive definition; global strict "
          "monotonicity follows from monotonicity within epochs plus continuity at breakpoints.",
)


def inverse_lemmas():
    """Lemma T2 (C17): applying the contract of _change_time_measure to (Ib(b), 1/m) inverts it.

    Pure consequences of the function's postconditions (no code involved): returned as
    (name, assumptions, goal, text) for the G1 discharge pipeline."""
    R = z3.RealSort()
    b = z3.Array("b", z3.IntSort(), R)
    m = z3.Array("m", z3.IntSort(), R)
    Kk = z3.Int("K")
    Ib_ = z3.Function("Ib", z3.IntSort(), R)    # integral for (b, m)
    Jb = z3.Function("Jb", z3.IntSort(), R)     # integral for (Ib(b), 1/m)
    i, j = z3.Ints("i j")
    base = [Kk >= 1, b[0] == 0,
            z3.ForAll([i], z3.Implies(z3.And(0 <= i, i < Kk), m[i] > 0)),
            z3.ForAll([i], z3.Implies(z3.And(0 <= i, i + 1 < Kk), b[i] < b[i + 1])),
            Ib_(0) == 0,
            z3.ForAll([i], z3.Implies(z3.And(0 <= i, i + 1 < Kk), Ib_(i + 1) == Ib_(i) + (b[i + 1] - b[i]) / m[i])),
            Jb(0) == 0,
            # recursive definition of the integral for breakpoints Ib(b) and measure 1/m
            z3.ForAll([i], z3.Implies(z3.And(0 <= i, i + 1 < Kk), Jb(i + 1) == Jb(i) + (Ib_(i + 1) - Ib_(i)) / (1 / m[i])))]
    out = []
    k = z3.Int("k")
    out.append(("lemma-T2:inverse-breakpoints:base", base, Jb(0) == b[0], "Jb(0) == b[0]"))
    out.append(("lemma-T2:inverse-breakpoints:step", base + [0 <= k, k + 1 < Kk, Jb(k) == b[k]], Jb(k + 1) == b[k + 1],
                "Jb(k) == b[k]  |-  Jb(k+1) == b[k+1]"))
    t, c = z3.Reals("t c")
    hyp = base + [0 <= k, k < Kk, Jb(k) == b[k], b[k] <= t, z3.Or(k + 1 == Kk, t < b[k + 1]),
                  c == Ib_(k) + (t - b[k]) / m[k]]
    # the image c lies in epoch k of the transformed history, and mapping it back gives t
    out.append(("lemma-T2:image-stays-in-epoch", hyp, z3.And(Ib_(k) <= c, z3.Or(k + 1 == Kk, c < Ib_(k + 1))),
                "t in epoch k  |-  to_coalescent(t) in epoch k of (Ib(b), 1/m)"))
    out.append(("lemma-T2:to-natural-of-to-coalescent-is-identity", hyp, Jb(k) + (c - Ib_(k)) / (1 / m[k]) == t,
                "Jb(k) + (c - Ib(k)) / (1/m_k) == t"))
    return out
