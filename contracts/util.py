"""Contracts for tsdate/util.py kernels."""
import z3

from .base import E, Loop, contract

# ---------------------------------------------------------------------------------------------
# util._constrain_ages  (mode fp64)  --  C01, C03, C27 (C11 corollary)
#
# T0 = old(nodes_time) is the input; `nodes_time` inside invariants is the working copy.

P, C = "edges_parent", "edges_child"
N, EN = "len(nodes_fixed)", "len(edges_parent)"
T, T0 = "nodes_time", "old(nodes_time)"


def isleast(eng, st, y, x):
    """y is the least double with y > x and y >= fl(x + epsilon): the *minimal* push (C03, C27).

    Written as y == max(fl(x + epsilon), succ(x)) where succ is the successor function on doubles
    (axioms: succ(x) > x and no double lies strictly between); lemma `least-is-max-of-sum-and-successor`
    shows the two formulations agree.
    """
    eps = st.vars["epsilon"]
    y, x = eng.to_float(y), eng.to_float(x)
    s = eng.farith("+", x, eps, st, 0)  # the same (abstracted) addition the code performs
    n = eng.nextafter_up(st, x)
    return z3.Or(z3.And(z3.fpGT(n, s), z3.fpEQ(y, n)), z3.And(z3.Not(z3.fpGT(n, s)), z3.fpEQ(y, s)))


SAT = (f"forall(e_, 0, {EN}, {T0}[{P}[e_]] > {T0}[{C}[e_]] and "
       f"{T0}[{P}[e_]] >= {T0}[{C}[e_]] + epsilon)")

LS_INV = [
    # J1: the least-squares phase never moves a fixed (sample) node   (C03)
    f"forall(n, 0, {N}, implies(nodes_fixed[n], feq({T}[n], {T0}[n])))",
    # J2: cavities attached to fixed ends are zero
    f"forall(f, 0, {EN}, implies(nodes_fixed[{C}[f]], feq(edges_cavity[f, 0], 0.0)) and "
    f"implies(nodes_fixed[{P}[f]], feq(edges_cavity[f, 1], 0.0)))",
    # J3: inputs that already satisfy every constraint are never touched   (C27 ii, iii)
    f"implies({SAT}, forall(n, 0, {N}, feq({T}[n], {T0}[n])) and "
    f"forall(f, 0, {EN}, feq(edges_cavity[f, 0], 0.0) and feq(edges_cavity[f, 1], 0.0)))",
    # J4: nothing has happened before the first sweep
    f"implies(it == 0, forall(n, 0, {N}, feq({T}[n], {T0}[n])))",
    "0 <= it",
]
A_LS_FINITE = f"implies(it > 0, forall(n, 0, {N}, isfinite({T}[n])))"

contract(
    "util._constrain_ages", mode="fp64",
    spec_funcs={"isleast": isleast},
    requires=[
        "len(nodes_time) == len(nodes_fixed)",
        "len(edges_parent) == len(edges_child)",
        f"forall(e, 0, {EN}, 0 <= {P}[e] and {P}[e] < {N} and 0 <= {C}[e] and {C}[e] < {N} and {P}[e] != {C}[e])",
        # lemma L1 (A-TS-ORDER): edges are sorted by parent time and children are strictly younger,
        # so no earlier edge's child is a later edge's parent
        f"forall(e, 0, {EN}, forall(f, 0, e, {C}[f] != {P}[e]))",
        f"forall(n, 0, {N}, isfinite(nodes_time[n]))",
        "epsilon > 0 and isfinite(epsilon)",
        "max_iterations >= 0",
        # fixed nodes carry their tree-sequence times, and a valid tree sequence has parent > child
        f"forall(e, 0, {EN}, implies(nodes_fixed[{P}[e]] and nodes_fixed[{C}[e]], "
        f"nodes_time[{P}[e]] > nodes_time[{C}[e]]))",
    ],
    ensures=[
        E("result-shape", f"len(result) == {N}"),
        E("C01-parent-strictly-older",
          f"forall(e, 0, {EN}, implies(isfinite(result[{P}[e]]), result[{P}[e]] > result[{C}[e]]))",
          ["C01", "C27", "C35"]),
        E("C01-parent-at-least-child-plus-epsilon",
          f"forall(e, 0, {EN}, implies(isfinite(result[{P}[e]]), result[{P}[e]] >= result[{C}[e]] + epsilon))",
          ["C01", "C27"]),
        E("C01-no-nan", f"forall(n, 0, {N}, result[n] > -inf)", ["C01"]),
        E("C03-sample-kept-or-minimal-push",
          f"forall(n, 0, {N}, implies(nodes_fixed[n], feq(result[n], {T0}[n]) or "
          f"exists(e, 0, {EN}, {P}[e] == n and isleast(result[n], result[{C}[e]]))))", ["C03"]),
        E("C03-childless-sample-exact",
          f"forall(n, 0, {N}, implies(nodes_fixed[n] and forall(e, 0, {EN}, {P}[e] != n), feq(result[n], {T0}[n])))",
          ["C03"]),
        E("C27-never-lowered",
          f"implies(max_iterations == 0, forall(n, 0, {N}, result[n] >= {T0}[n]))", ["C27", "C11"]),
        E("C27-raised-only-as-needed",
          f"implies(max_iterations == 0, forall(n, 0, {N}, feq(result[n], {T0}[n]) or "
          f"exists(e, 0, {EN}, {P}[e] == n and isleast(result[n], result[{C}[e]]))))", ["C27", "C11"]),
        E("C27-satisfied-input-unchanged-idempotent",
          f"implies({SAT}, forall(n, 0, {N}, feq(result[n], {T0}[n])))", ["C27"]),
    ],
    loops={
        0: Loop("for _ in range(max_iterations)", counter="it", invariants=LS_INV, assumed=[A_LS_FINITE]),
        1: Loop("for e in range(num_edges)", counter="e",
                invariants=[c for c in LS_INV if "it == 0" not in c] + ["it < max_iterations"],
                assumed=[f"forall(n, 0, {N}, isfinite({T}[n]))"]),
        2: Loop("for e in range(num_edges)", counter="e", invariants=[
            f"forall(f, 0, e, implies(isfinite({T}[{P}[f]]), {T}[{P}[f]] > {T}[{C}[f]] and "
            f"{T}[{P}[f]] >= {T}[{C}[f]] + epsilon))",
            f"forall(n, 0, {N}, {T}[n] > -inf)",
            # ghost witness wit[n]: the child edge that last pushed n (instead of an existential)
            f"forall(n, 0, {N}, implies(max_iterations == 0 or nodes_fixed[n], feq({T}[n], {T0}[n]) or "
            f"(0 <= wit[n] and wit[n] < e and {P}[wit[n]] == n and isleast({T}[n], {T}[{C}[wit[n]]]))))",
            f"implies(max_iterations == 0, forall(n, 0, {N}, {T}[n] >= {T0}[n]))",
            f"implies({SAT}, forall(n, 0, {N}, feq({T}[n], {T0}[n])))",
        ]),
    },
    gen="constrain_ages",
    spec_src={"isleast": "lambda env, y, x: bool(y == max(x + env['epsilon'], np.nextafter(x, np.inf)))"},
    ghost_decl={"wit": ("int", [N])},
    ghost_after=[("nodes_time[p] = ", "wit[p] = e")],
    notes="A-LS-FINITE: the least-squares sweeps (max_iterations > 0) are assumed not to overflow; "
          "the forced pass is proved for finite outputs (a parent time of +inf is the only excluded case).",
)


# ---------------------------------------------------------------------------------------------
# util._relabel_mutations_node (mode real; integer reasoning) -- C29
NN, NE, NM = "len(nodes_order)", "len(edges_parent)", "len(mutations_node)"
IMAP = (f"forall(n, 0, {NN}, 0 <= nodes_map[n] and nodes_map[n] < {NN} and "
        f"(nodes_map[n] == n or nodes_order[nodes_map[n]] == n))")
IOUT = (f"forall(q, 0, m, 0 <= output[q] and output[q] < {NN} and nodes_order[output[q]] == mutations_node[q])")

contract(
    "util._relabel_mutations_node", mode="real", gen="relabel_mutations",
    requires=[
        f"len(edges_child) == {NE} and len(edges_left) == {NE} and len(edges_right) == {NE}",
        f"len(insert_index) == {NE} and len(remove_index) == {NE}",
        f"len(mutations_position) == {NM}",
        f"forall(k, 0, {NE}, 0 <= insert_index[k] and insert_index[k] < {NE} and 0 <= remove_index[k] and remove_index[k] < {NE})",
        f"forall(k, 0, {NE}, 0 <= edges_parent[k] and edges_parent[k] < {NN} and 0 <= edges_child[k] and edges_child[k] < {NN})",
        f"forall(k, 0, {NN}, 0 <= nodes_order[k] and nodes_order[k] < {NN})",
        # a mutation sits on an ORIGINAL node, and original nodes keep their id (nodes_order is the identity on them)
        f"forall(q, 0, {NM}, 0 <= mutations_node[q] and mutations_node[q] < {NN} and nodes_order[mutations_node[q]] == mutations_node[q])",
    ],
    ensures=[
        E("result-shape", f"len(result) == {NM}"),
        E("every-mutation-gets-a-node", f"forall(q, 0, {NM}, result[q] != -1 and 0 <= result[q] and result[q] < {NN})", ["C29"]),
        E("new-node-is-a-piece-of-the-original-node", f"forall(q, 0, {NM}, nodes_order[result[q]] == mutations_node[q])", ["C29"]),
    ],
    loops={
        0: Loop("while left < sequence_length", invariants=[IMAP, IOUT, f"0 <= m and m <= {NM}", f"0 <= a and a <= {NE}", f"0 <= b and b <= {NE}",
                                                             f"len(output) == {NM} and len(nodes_map) == {NN}"]),
        1: Loop("while b < num_edges and remove_position[b] == left", invariants=[f"0 <= b and b <= {NE}"]),
        2: Loop("while a < num_edges and insert_position[a] == left", invariants=[IMAP, f"0 <= a and a <= {NE}", f"len(nodes_map) == {NN}"]),
        3: Loop("while m < num_mutations and mutations_position[m] < right", invariants=[IOUT, f"0 <= m and m <= {NM}", f"len(output) == {NM}"]),
        4: Loop("while m < num_mutations", invariants=[IOUT, f"0 <= m and m <= {NM}", f"len(output) == {NM}"]),
    },
    notes="Partial correctness (no variants for the sweep loops). Proves the two defects repaired in d577c1e/f1fade2 "
          "cannot recur: no assertion failure, no NULL node, for every placement of mutations relative to edges.",
)
