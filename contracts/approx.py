"""Contracts for tsdate/approx.py: moment matching and the projection wrappers (C05, C18, C19, C21)."""
from .base import E, Loop, contract

# exact method-of-moments fit (C19): returns (shape - 1, rate) with shape = mean^2/var, rate = mean/var
contract(
    "approx.approximate_gamma_mom", mode="real", gen="gamma_mom",
    requires=["mean > 0 and variance > 0"],
    ensures=[
        E("natural-parameters-match-moments", "(result[0] + 1) * variance == mean * mean and result[1] * variance == mean", ["C19", "C18", "C05"]),
        E("proper-gamma", "result[0] + 1 > 0 and result[1] > 0", ["C05", "C18", "C19", "C21"]),
        E("mean-and-variance-recovered", "(result[0] + 1) / result[1] == mean and (result[0] + 1) / (result[1] * result[1]) == variance", ["C19"]),
    ],
    notes="A-REAL. The raise (KLMinimizationFailedError for non-positive moments) is excluded by the precondition; that "
          "every caller establishes it is the pre-call obligation in the projection wrappers.",
)

contract(
    "approx._valid_moments", mode="real",
    ensures=[E("valid-iff-positive", "result == (mn > 0 and va > 0)", ["C05", "C18", "C21"])],
    notes="A-REAL: np.isfinite is True on reals; NaN / inf moments are outside the real encoding (they take the "
          "`return False` branch in the code, which is the skipped-update case).",
)

# the *_moments functions (Laplace approximations to hypergeometric functions) are NOT verified: assumed to return
# arbitrary reals.  The wrappers are proved correct for whatever they return.
for name, nret in (("moments", 5), ("rootward_moments", 3), ("leafward_moments", 3), ("unphased_moments", 5),
                   ("twin_moments", 3), ("sideways_moments", 3)):
    contract(f"approx.{name}", mode="real", assumed=True, ensures=[],
             notes="assumed contract: returns arbitrary reals (numerical accuracy is bounded only, C18)")

PROPER = "{x}[0] + 1 > 0 and {x}[1] > 0"
SAMEAS = "{a}[0] == {b}[0] and {a}[1] == {b}[1]"


def one_node(fname, cav, extra):
    contract(
        f"approx.{fname}", mode="real", nan_sentinel=True,
        shapes={cav: [2], "pars_ij": [2]}, result_shape=None,
        ensures=[
            E("skipped-or-proper",
              "(" + SAMEAS.format(a="result[1]", b=cav) + ") or (" + PROPER.format(x="result[1]") + ")",
              ["C05", "C18", "C21"]),
            E("result-is-a-pair", "len(result[1]) == 2"),
        ],
        notes="verified against assumed (arbitrary-valued) *_moments; the wrapper either returns the cavity it was given "
              "(explicit skip, log-normaliser NaN) or the exact moment-matched gamma of positive moments",
    )


one_node("leafward_projection", "pars_j", None)
one_node("rootward_projection", "pars_i", None)
one_node("sideways_projection", "pars_j", None)
one_node("twin_projection", "pars_i", None)

for fname in ("gamma_projection", "unphased_projection"):
    contract(
        f"approx.{fname}", mode="real", nan_sentinel=True,
        shapes={"pars_i": [2], "pars_j": [2], "pars_ij": [2]},
        ensures=[
            E("skipped-or-proper",
              "((" + SAMEAS.format(a="result[1]", b="pars_i") + ") and (" + SAMEAS.format(a="result[2]", b="pars_j") + ")) or "
              "((" + PROPER.format(x="result[1]") + ") and (" + PROPER.format(x="result[2]") + "))",
              ["C05", "C18", "C21"]),
            E("results-are-pairs", "len(result[1]) == 2 and len(result[2]) == 2"),
        ],
    )
