"""Contracts for tsdate/discrete.py."""
import z3

from .base import E, Loop, contract

# ---------------------------------------------------------------------------------------------
# LogLikelihoods.logsumexp (mode real, exp/log uninterpreted + schema instances) -- C12
#
# -inf is the sentinel constant NINF (every other element is greater).  SE(k) = sum of exp(X[i]) over the finite
# elements among the first k, by its recursive definition.
SE_F = z3.Function("SE", z3.IntSort(), z3.RealSort())


def SE(eng, st, k):
    return SE_F(eng.to_int(k))


def EXP(eng, st, a):
    return eng.ufun("u_exp")(eng.to_float(a))


def LOG(eng, st, a):
    return eng.ufun("u_log")(eng.to_float(a))


contract(
    "discrete.LogLikelihoods.logsumexp", mode="real", neg_inf_sentinel=True,
    types=[("float", 1)], ret=("float", 0),
    spec_funcs={"SE": SE, "EXP": EXP, "LOG": LOG},
    requires=["forall(i, 0, len(X), X[i] == -inf or X[i] > -inf)"],
    axioms=[
        "SE(0) == 0.0",
        "forall(i, 0, len(X), SE(i + 1) == SE(i) + ite(X[i] == -inf, 0.0, EXP(X[i])))",
    ],
    ghost_after=[
        ("r += np.exp(x - alpha)", "exp_add(x - alpha, alpha); exp_pos(x - alpha)"),
        ("r *= np.exp(alpha - x)", "exp_add(alpha - x, x); exp_pos(alpha - x); exp_pos(x)"),
        ("<entry>", "exp_zero()"),
        ("before:return -np.inf if r == 0", "exp_pos(alpha); log_exp(alpha); log_mul_if(r, EXP(alpha))"),
    ],
    ensures=[
        E("minus-inf-iff-nothing-finite", "implies(forall(i, 0, len(X), X[i] == -inf), result == -inf)", ["C12"]),
        E("log-of-sum-of-exponentials",
          "implies(exists(i, 0, len(X), X[i] != -inf), result == LOG(SE(len(X))))", ["C12"]),
    ],
    loops={0: Loop("for x in X", counter="k", invariants=[
        "implies(alpha == -inf, r == 0 and SE(k) == 0 and forall(i, 0, k, X[i] == -inf))",
        "implies(alpha != -inf, r > 0 and r * EXP(alpha) == SE(k) and exists(i, 0, k, X[i] != -inf))",
        "alpha == -inf or alpha > -inf",
    ])},
    notes="A-REAL; A-MATH: exp/log are uninterpreted, only the listed schema instances are used.",
)
