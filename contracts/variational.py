"""Contracts for tsdate/variational.py kernels."""
from .base import E, Loop, contract

# ---------------------------------------------------------------------------------------------
# _damp(x, y, s): step size d so that the cavity x - d*y stays a proper gamma (C05, C21)
contract(
    "variational._damp", mode="real", gen="damp",
    shapes={"x": [2], "y": [2]},
    requires=[
        "0 < s and s < 1",
        # either the 'nothing there yet' case or a proper posterior x = (alpha, beta)
        "(x[0] == 0 and x[1] == 0 and y[0] == 0 and y[1] == 0) or (x[0] + 1 > 0 and x[1] > 0)",
    ],
    ensures=[
        E("step-in-unit-interval", "0 < result and result <= 1", ["C05", "C21", "C35"]),
        E("cavity-shape-bounded-below", "1 + x[0] - result * y[0] >= s * (1 + x[0])", ["C05"]),
        E("cavity-rate-bounded-below", "x[1] - result * y[1] >= s * x[1]", ["C05"]),
        E("no-message-no-damping", "implies(y[0] == 0 and y[1] == 0, result == 1)", ["C20", "C21"]),
    ],
)

# _rescale(x, s): factor d so that the shape 1 + d*x[0] lies in [1/s, s] (C05)
contract(
    "variational._rescale", mode="real", gen="rescale",
    shapes={"x": [2]},
    requires=[
        "s > 1",
        "(x[0] == 0 and x[1] == 0) or (x[0] + 1 > 0 and x[1] > 0)",
    ],
    ensures=[
        E("factor-in-unit-interval", "0 < result and result <= 1", ["C05", "C21", "C35"]),
        E("shape-capped", "1 + result * x[0] <= s", ["C05", "C20"]),
        E("shape-floored", "1 + result * x[0] >= 1 / s", ["C05"]),
        E("rate-stays-positive", "implies(x[1] > 0, result * x[1] > 0)", ["C05"]),
        E("identity-when-within-cap", "implies(1 + x[0] <= s and 1 + x[0] >= 1 / s, result == 1)", ["C20", "C21"]),
    ],
)
