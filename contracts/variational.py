"""Contracts for tsdate/variational.py kernels."""
from .base import E, Loop, contract

# ---------------------------------------------------------------------------------------------
# _damp(x, y, s): step size d so that the cavity x - d*y stays a proper gamma (C05, C21)
contract(
    "variational._damp", mode="real", gen="damp",
    shapes={"x": [2], "y": [2]},
    requires=[
        "0 < s and s < 1",
        # either the 'nothing there yet' case or a proper posterior x = (alpha, beta)
        "(x[0] == 0 and x[1] == 0 and y[0] == 0 and y[1] == 0) or (x[0] + 1 > 0 and x[1] > 0)",
    ],
    ensures=[
        E("step-in-unit-interval", "0 < result and result <= 1", ["C05", "C21", "C35"]),
        E("cavity-shape-bounded-below", "1 + x[0] - result * y[0] >= s * (1 + x[0])", ["C05"]),
        E("cavity-rate-bounded-below", "x[1] - result * y[1] >= s * x[1]", ["C05"]),
        E("no-message-no-damping", "implies(y[0] == 0 and y[1] == 0, result == 1)", ["C20", "C21"]),
    ],
)

# _rescale(x, s): factor d so that the shape 1 + d*x[0] lies in [1/s, s] (C05)
contract(
    "variational._rescale", mode="real", gen="rescale",
    shapes={"x": [2]},
    requires=[
        "s > 1",
        "(x[0] == 0 and x[1] == 0) or (x[0] + 1 > 0 and x[1] > 0)",
    ],
    ensures=[
        E("factor-in-unit-interval", "0 < result and result <= 1", ["C05", "C21", "C35"]),
        E("shape-capped", "1 + result * x[0] <= s", ["C05", "C20"]),
        E("shape-floored", "1 + result * x[0] >= 1 / s", ["C05"]),
        E("rate-stays-positive", "implies(x[1] > 0, result * x[1] > 0)", ["C05"]),
        E("identity-when-within-cap", "implies(1 + x[0] <= s and 1 + x[0] >= 1 / s, result == 1)", ["C20", "C21"]),
    ],
)


# ---------------------------------------------------------------------------------------------
# EP message passing (mode real) -- C21 (bookkeeping), C05 (properness / cap preserved), C35 (asserts)
#
# Ghost state: factors.S[n] = sum of all messages addressed to node n, mirrored at every write to a factor row.
# The central invariant is  posterior[n] == scale[n] * S[n]  for every free node.
TINY = 1.4916681462400413e-154  # np.sqrt(np.finfo(np.float64).tiny), a module constant that literal_eval cannot read

contract(
    "variational._rescale_factors", mode="real", assumed=True,
    assigns=["factors"], assigns_fields={"factors": ["edge", "block", "node", "scale", "S"]},
    requires=[
        "forall(e, 0, factors.edge.shape[0], 0 <= factors._p[e] and factors._p[e] < len(factors.scale) and 0 <= factors._c[e] and factors._c[e] < len(factors.scale))",
        "forall(b, 0, factors.block.shape[0], 0 <= factors._j[b] and factors._j[b] < len(factors.scale) and 0 <= factors._k[b] and factors._k[b] < len(factors.scale))",
    ],
    ensures=[
        "forall(n, 0, len(factors.scale), factors.scale[n] == 1)",
        "forall(e, 0, factors.edge.shape[0], forall(k, 0, 2, "
        "factors.edge[e, 0, k] == old(factors).edge[e, 0, k] * old(factors).scale[factors._p[e]] and "
        "factors.edge[e, 1, k] == old(factors).edge[e, 1, k] * old(factors).scale[factors._c[e]]))",
        "forall(b, 0, factors.block.shape[0], forall(k, 0, 2, "
        "factors.block[b, 0, k] == old(factors).block[b, 0, k] * old(factors).scale[factors._j[b]] and "
        "factors.block[b, 1, k] == old(factors).block[b, 1, k] * old(factors).scale[factors._k[b]]))",
        "forall(n, 0, len(factors.scale), forall(k, 0, 2, "
        "factors.node[n, 0, k] == old(factors).node[n, 0, k] * old(factors).scale[n] and "
        "factors.node[n, 1, k] == old(factors).node[n, 1, k] * old(factors).scale[n]))",
        # ghost: every message addressed to n is multiplied by scale[n], hence so is their sum (linearity of the sum)
        "forall(n, 0, len(factors.scale), forall(k, 0, 2, factors.S[n, k] == old(factors).S[n, k] * old(factors).scale[n]))",
    ],
    notes="used as a callee contract inside the loop proofs; its own body (vectorised 3-d updates with np.newaxis) is outside "
          "the G1 engine's subset, so the element-wise clauses are derived from the real statements by a separate z3 "
          "obligation set (vt/g3_sites.py: rescale_factors_contract_from_body, under the numpy broadcast meaning of the "
          "statements) and the in-place / no-rebinding frame by the G3 effect obligation; only the ghost-sum clause S "
          "(linearity of the sum) stays assumed",
)

N_, E_ = "len(posterior)", "len(edges_parent)"
FREE = "not fixed[{n}]"
ZERO2 = "{x}[0] == 0 and {x}[1] == 0"
PROP2 = "{x}[0] + 1 > 0 and {x}[1] > 0"
INV_BOOK0 = f"forall(n, 0, {N_}, implies(not fixed[n], posterior[n, 0] == scale[n] * factors.S[n, 0]))"
INV_BOOK1 = f"forall(n, 0, {N_}, implies(not fixed[n], posterior[n, 1] == scale[n] * factors.S[n, 1]))"
INV_SCALE = f"forall(n, 0, {N_}, scale[n] > 0)"
INV_PROPER = f"forall(n, 0, {N_}, implies(not fixed[n], (posterior[n, 0] == 0 and posterior[n, 1] == 0) or (posterior[n, 0] + 1 > 0 and posterior[n, 1] > 0)))"
INV_CAP = (f"forall(n, 0, {N_}, implies(not fixed[n], (posterior[n, 0] == 0 and posterior[n, 1] == 0) or "
           f"(1 + posterior[n, 0] <= max_shape and 1 + posterior[n, 0] >= 1 / max_shape)))")
INV_ZERO = (f"forall(e, 0, {E_}, implies(posterior[edges_parent[e], 0] == 0 and posterior[edges_parent[e], 1] == 0, "
            "factor[e, 0, 0] == 0 and factor[e, 0, 1] == 0) and "
            "implies(posterior[edges_child[e], 0] == 0 and posterior[edges_child[e], 1] == 0, "
            "factor[e, 1, 0] == 0 and factor[e, 1, 1] == 0))")
INV_FIXED = f"forall(n, 0, {N_}, implies(fixed[n], posterior[n, 0] == old(posterior)[n, 0] and posterior[n, 1] == old(posterior)[n, 1]))"


def _entry(clause):
    """The same clause phrased over the parameters (before the locals `fixed`, `scale`, `factor` exist);
    FACT is bound per variant to factors.edge / factors.block."""
    return (clause.replace("fixed[n]", "(constraints[n, 0] == constraints[n, 1])")
            .replace("scale[n]", "factors.scale[n]").replace("factor[", "FACT["))


PL_REQUIRES = [
    f"len(constraints) == {N_}", f"len(edges_child) == {E_}", f"len(likelihoods) == {E_}", f"len(lognorm) == {E_}",
    f"len(factors.scale) == {N_}", f"FACT.shape[0] == {E_}",
    f"forall(e, 0, {E_}, 0 <= edges_parent[e] and edges_parent[e] < {N_} and 0 <= edges_child[e] and edges_child[e] < {N_})",
    f"forall(k, 0, len(edge_order), 0 <= edge_order[k] and edge_order[k] < {E_})",
    "max_shape > 1", "0 < min_step and min_step < 1",
    "forall(e, 0, factors.edge.shape[0], 0 <= factors._p[e] and factors._p[e] < len(factors.scale) and 0 <= factors._c[e] and factors._c[e] < len(factors.scale))",
    "forall(b, 0, factors.block.shape[0], 0 <= factors._j[b] and factors._j[b] < len(factors.scale) and 0 <= factors._k[b] and factors._k[b] < len(factors.scale))",
    # the edge pass never sees a self-loop (singleton blocks with a single parent only occur in the block pass)
    f"unphased or forall(e, 0, {E_}, edges_parent[e] != edges_child[e])",
] + [_entry(c) for c in (INV_BOOK0, INV_BOOK1, INV_SCALE, INV_PROPER, INV_CAP, INV_ZERO)]

PL_ENSURES = [
    E("C21-posterior-shape-equals-scale-times-sum-of-messages", _entry(INV_BOOK0), ["C21"]),
    E("C21-posterior-rate-equals-scale-times-sum-of-messages", _entry(INV_BOOK1), ["C21"]),
    E("scale-positive", _entry(INV_SCALE), ["C21", "C05"]),
    E("C05-free-posteriors-zero-or-proper", _entry(INV_PROPER), ["C05", "C21"]),
    E("C05-free-posteriors-capped", _entry(INV_CAP), ["C05"]),
    E("zero-posterior-has-zero-messages", _entry(INV_ZERO), ["C21", "C05"]),
    E("C21-fixed-nodes-untouched", _entry(INV_FIXED), ["C21"]),
]

GHOST_PL = [
    ("scale[p] *= parent_eta", "assert_(posterior[p, 0] == scale[p] * factors.S[p, 0])\nassert_(posterior[p, 1] == scale[p] * factors.S[p, 1])"),
    ("scale[c] *= child_eta", "assert_(posterior[c, 0] == scale[c] * factors.S[c, 0])\nassert_(posterior[c, 1] == scale[c] * factors.S[c, 1])"),
    # after the (rare) in-loop renormalisation the loop invariants are re-established and everything else forgotten
    ("_rescale_factors(factors)", "recut()"),
    ("before:factor[i, LEAFWARD] *= 1.0 - ", "g_l = factor[i, LEAFWARD] * 1.0"),
    ("factor[i, LEAFWARD] += (posterior[c] - child_cavity) / scale[c]",
     "factors.S[c] += factor[i, LEAFWARD] - g_l\nassert_(posterior[c, 0] == scale[c] * factors.S[c, 0])\nassert_(posterior[c, 1] == scale[c] * factors.S[c, 1])"),
    ("before:factor[i, ROOTWARD] *= 1.0 - ", "g_r = factor[i, ROOTWARD] * 1.0"),
    ("factor[i, ROOTWARD] += (posterior[p] - parent_cavity) / scale[p]",
     "factors.S[p] += factor[i, ROOTWARD] - g_r\nassert_(posterior[p, 0] == scale[p] * factors.S[p, 0])\nassert_(posterior[p, 1] == scale[p] * factors.S[p, 1])"),
]

contract(
    "variational.ExpectationPropagation.propagate_likelihood", mode="real", name_stores=True,
    shapes={"likelihoods": [None, 2], "constraints": [None, 2], "posterior": [None, 2]},
    consts={"TINY": TINY},
    variants=[{"unphased": False, "__bind": {"FACT": "factors.edge"}}, {"unphased": True, "__bind": {"FACT": "factors.block"}}],
    assigns=["posterior", "factors", "lognorm"],
    requires=PL_REQUIRES,
    ensures=PL_ENSURES,
    ghost_after=GHOST_PL,
    loops={0: Loop("for i in edge_order", counter="kk",
                   invariants=[INV_BOOK0, INV_BOOK1, INV_SCALE, INV_PROPER, INV_CAP, INV_ZERO, INV_FIXED,
                               f"len(scale) == {N_}"],
                   # the bookkeeping identities need only themselves and scale > 0 (they hold whatever the
                   # projections return); scale > 0 needs properness (the cap factor is positive)
                   uses={0: [2, 7], 1: [2, 7], 6: [7], 7: []})},
    notes="A-REAL. Verified against the VERIFIED contracts of _damp, _rescale and the six projection wrappers and the "
          "ASSUMED contract of _rescale_factors. The ghost sum S is mirrored at the four factor-update statements.",
)
