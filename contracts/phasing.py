"""Contracts for tsdate/phasing.py kernels."""
import z3

from .base import E, Loop, contract

# ---------------------------------------------------------------------------------------------
# reallocate_unphased (mode real) -- C23
#
# share(m, k): what singleton m contributes to edge k = phase[m] if k is the first edge of m's block,
# 1 - phase[m] if k is the second (both if they coincide); 0 for mutations outside blocks.
# ssum(k, m) = sum_{m' < m} share(m', k), an uninterpreted function with its two defining axioms.

SSUM = z3.Function("ssum", z3.IntSort(), z3.IntSort(), z3.RealSort())


def ssum(eng, st, k, m):
    return SSUM(eng.to_int(k), eng.to_int(m))


M, B, EN = "len(mutations_block)", "blocks_edges.shape[0]", "edges_likelihood.shape[0]"
SHARE = ("ite(mutations_block[{m}] == -1, 0.0, "
         "ite(blocks_edges[mutations_block[{m}], 0] == {k}, mutations_phase[{m}], 0.0) + "
         "ite(blocks_edges[mutations_block[{m}], 1] == {k}, 1.0 - mutations_phase[{m}], 0.0))")
UNPH = "exists(b_, 0, {B}, blocks_edges[b_, 0] == {k} or blocks_edges[b_, 1] == {k})"

contract(
    "phasing.reallocate_unphased", mode="real", gen="reallocate_unphased",
    shapes={"blocks_edges": [None, 2], "edges_likelihood": [None, 2]},
    spec_funcs={"ssum": ssum},
    spec_src={"ssum": "lambda env, k, m: sum((0.0 if env['mutations_block'][q] == -1 else "
                      "((env['__old_mutations_phase'][q] if env['blocks_edges'][env['mutations_block'][q], 0] == k else 0.0) + "
                      "((1.0 - env['__old_mutations_phase'][q]) if env['blocks_edges'][env['mutations_block'][q], 1] == k else 0.0))) "
                      "for q in range(m))"},
    assigns=["edges_likelihood"],
    requires=[
        "len(mutations_phase) == len(mutations_block)",
        f"forall(b, 0, {B}, 0 <= blocks_edges[b, 0] and blocks_edges[b, 0] < {EN} and 0 <= blocks_edges[b, 1] and blocks_edges[b, 1] < {EN})",
        f"forall(m, 0, {M}, mutations_block[m] == -1 or (0 <= mutations_block[m] and mutations_block[m] < {B}))",
        # C05: a singleton's phase is a probability (NaN = skipped update is handled by the real-arithmetic assumption)
        f"forall(m, 0, {M}, implies(mutations_block[m] != -1, 0 <= mutations_phase[m] and mutations_phase[m] <= 1))",
    ],
    axioms=[
        f"forall(k, 0, {EN}, ssum(k, 0) == 0.0)",
        f"forall(k, 0, {EN}, forall(m, 0, {M}, ssum(k, m + 1) == ssum(k, m) + " + SHARE.format(m="m", k="k") + "))",
    ],
    ensures=[
        E("other-branches-unchanged",
          f"forall(k, 0, {EN}, implies(not " + UNPH.format(B=B, k="k") + ", edges_likelihood[k, 0] == old(edges_likelihood)[k, 0]))", ["C23"]),
        E("spans-unchanged", f"forall(k, 0, {EN}, edges_likelihood[k, 1] == old(edges_likelihood)[k, 1])", ["C23"]),
        E("candidate-branch-gets-sum-of-phase-shares",
          f"forall(k, 0, {EN}, implies(" + UNPH.format(B=B, k="k") + f", edges_likelihood[k, 0] == ssum(k, {M})))", ["C23"]),
    ],
    loops={
        0: Loop("for (m, b) in enumerate(mutations_block)", counter="mm", invariants=[
            f"forall(k, 0, {EN}, implies(edges_unphased[k], edges_likelihood[k, 0] == ssum(k, mm)))",
            f"forall(k, 0, {EN}, implies(not edges_unphased[k], edges_likelihood[k, 0] == old(edges_likelihood)[k, 0]))",
            f"forall(k, 0, {EN}, edges_likelihood[k, 1] == old(edges_likelihood)[k, 1])",
        ]),
    },
    assume_asserts={
        "np.isclose(num_unphased, np.sum(edges_likelihood[edges_unphased, 0]))":
            "relates the input counts on block edges to the number of singletons in blocks (a property of the caller's "
            "state: no NaN phase, every mutation on a block edge lies in a block) and needs an exchange of the order "
            "of summation; evaluated on real runs by the bounded stand-in of C23",
    },
    notes="A-REAL: phases are treated as reals (NaN phases, which the code skips, are outside the encoding).",
)
