"""Contract language (sidecar): requires / ensures / loop invariants / assigns / ghost state."""


class Clause:
    def __init__(self, name, expr, props=None):
        self.name = name
        self.expr = expr
        self.props = props  # None: every property that uses the function depends on it


def E(name, expr, props=None):
    return Clause(name, expr, props)


class Loop:
    def __init__(self, header, invariants=(), counter=None, variant=None, ghost_init=None,
                 ghost_modified=(), assumed=(), forget=True, uses=None):
        self.header = header
        self.invariants = list(invariants)
        self.counter = counter
        self.variant = variant
        self.ghost_init = dict(ghost_init or {})
        self.ghost_modified = list(ghost_modified)
        self.uses = dict(uses or {})  # invariant index -> indices of the invariants its preservation proof may use
        self.forget = forget  # drop path facts about pre-loop values of modified variables
        self.assumed = list(assumed)  # assumed at the loop head, NOT proved: listed in evidence


class Contract:
    def __init__(self, name, mode="real", requires=(), ensures=(), loops=None, assigns=(),
                 assigns_fields=None, types=None, ret=None, result_shape=None, raises=None,
                 may_raise=False, consts=None, callee_alias=None, spec_funcs=None,
                 check_bounds=True, div_side=True, assumed=False, source="", shapes=None,
                 notes="", abstract_fp=True, ghost_decl=None, ghost_after=None, gen=None, spec_src=None,
                 axioms=(), assume_asserts=None, neg_inf_sentinel=False, nan_sentinel=False,
                 variants=None, name_stores=False):
        self.name = name  # 'util._constrain_ages'
        self.mode = mode
        self.requires = [c.expr if isinstance(c, Clause) else c for c in requires]
        self.requires_c = [c if isinstance(c, Clause) else Clause(f"requires[{k}]", c) for k, c in enumerate(requires)]
        self.ensures_c = [c if isinstance(c, Clause) else Clause(f"ensures[{k}]", c) for k, c in enumerate(ensures)]
        self.ensures = [c.expr for c in self.ensures_c]
        self.loops = dict(loops or {})
        self.assigns = list(assigns)
        self.assigns_fields = dict(assigns_fields or {})
        self.types = types  # list of (kind, ndim) overriding / replacing the numba signature
        self.ret = ret
        self.result_shape = result_shape
        self.raises = dict(raises or {})  # exception name -> None (always allowed)
        self.may_raise = may_raise
        self.consts = dict(consts or {})
        self.callee_alias = dict(callee_alias or {})
        self.spec_funcs = dict(spec_funcs or {})
        self.check_bounds = check_bounds
        self.div_side = div_side
        self.assumed = assumed  # contract is trusted, body not verified (listed in evidence)
        self.source = source
        self.shapes = dict(shapes or {})  # param -> list of ints/None/param-size names
        self.params = None  # filled from the AST
        self.notes = notes
        self.nan_sentinel = nan_sentinel
        self.name_stores = name_stores  # introduce a fresh constant for every compound value stored into an array
        self.variants = list(variants or [])  # [{param: python constant}]: the function is verified once per variant
        self.neg_inf_sentinel = neg_inf_sentinel  # real mode: -inf is the constant NINF, below every other value
        self.axioms = list(axioms)  # definitional axioms of spec functions (assumed at entry)
        self.assume_asserts = dict(assume_asserts or {})  # source text of a real-code assert -> reason it is NOT proved
        self.gen = gen  # name of the concrete input generator in rt/gens.py
        self.spec_src = dict(spec_src or {})  # concrete (numpy) versions of spec_funcs: 'lambda env, ...: ...'
        self.ghost_decl = dict(ghost_decl or {})  # name -> (kind, [shape exprs])
        self.ghost_after = list(ghost_after or [])  # (anchor source prefix, ghost code)
        self.abstract_fp = abstract_fp  # fp64 arithmetic as UFs + bit-precisely proved lemmas


REGISTRY = {}


def contract(name, **kw):
    c = Contract(name, **kw)
    REGISTRY[name] = c
    return c
