"""
Dimensional contracts (G2) on the real numeric kernels that carry time (T) or genome length (L).

Dimension of each quantity, read from the call sites in variational.py / rescaling.py / core.py:
    node / mutation times, epoch breaks, durations, min_branch_length ("epsilon")          T
    gamma natural parameters (shape - 1, rate)                                              (1, 1/T)
    likelihoods[:, 0] = mutation count, likelihoods[:, 1] = mutation_rate * span            (1, 1/T)
    mean T, variance T^2, E[log t] = log-shifted by T
    quantile levels, max_shape, damping / tolerance constants, indices, counts             1
The result dimension of every contract is what the *statement* of C06 requires of the function's caller
(times scale by c, rates by 1/c, shapes unchanged), not what the code happens to compute.
"""
from vt.dim import DimContract

NAT = ("cols", 0, "1", "1/T")          # one gamma in natural parameters (a row of a posterior array)
NATS = ("cols", 1, "1", "1/T")         # (n, 2) array of natural parameters
LIKS = ("cols", 1, "1", "1/T")         # (E, 2) edge likelihoods: count, mu*span

# ---------------------------------------------------------------------------------------------- approx.py
DimContract(
    "approx.approximate_gamma_mom",
    params={"mean": "T", "variance": "T^2"},
    returns=("tuple", "1", "1/T"),
    props=("C06",), gen="dim_gamma_mom",
)

DimContract(
    "approx.approximate_gamma_kl",
    params={"x": "T", "logx": "log:T"},
    returns=("tuple", "1", "1/T"),
    props=("C06",), gen="dim_gamma_kl",
    notes="hypergeo._digamma/_trigamma take and return pure numbers (assumed, A-DIM-HYPERGEO)",
)

DimContract(
    "approx.approximate_gamma_iqr",
    params={"q1": "1", "q2": "1", "x1": "T", "x2": "T", "max_shape": "1"},
    returns=("tuple", "1", "1/T"),
    props=("C06",), gen="dim_gamma_iqr",
)

# ---------------------------------------------------------------------------------------------- variational.py
DimContract(
    "variational._damp",
    params={"x": NAT, "y": NAT, "s": "1"},
    returns="1",
    props=("C06",), gen="damp",
)

DimContract(
    "variational._rescale",
    params={"x": NAT, "s": "1"},
    returns="1",
    props=("C06",), gen="rescale",
)

# ---------------------------------------------------------------------------------------------- util.py
DimContract(
    "util._constrain_ages",
    params={"nodes_time": "T", "nodes_fixed": "bool", "edges_parent": "idx", "edges_child": "idx",
            "epsilon": "T", "max_iterations": "int"},
    returns="T",
    props=("C06",), gen="constrain_ages",
)

# ---------------------------------------------------------------------------------------------- rescaling.py
DimContract(
    "rescaling._fixed_changepoints",
    params={"counts": "a", "epochs": "int"},
    returns="idx", poly=("a",),
    props=("C06", "C07"), gen="dim_fixed_changepoints",
    notes="polymorphic in the dimension of the weights: only ratios of partial sums are compared",
)

DimContract(
    "rescaling.mutational_area",
    params={"nodes_time": "T", "likelihoods": LIKS, "edges_parent": "idx", "edges_child": "idx"},
    returns=("tuple", "1/T", "1/T", "T", "idx"),
    strong={"edges_counts": "column 0 of edges_counts is divided by the edge length only on rows in edges_subset; the "
                            "other rows keep a pure count but are never read (the only reads are edges_counts[e] for e "
                            "in np.flatnonzero(edges_subset))"},
    locals={"epoch_counts": ("cols", 1, "1/T", "1/T")},
    props=("C06",), gen="dim_mutational_area",
)

DimContract(
    "rescaling.mutational_timescale",
    params={"nodes_time": "T", "likelihoods": LIKS, "nodes_fixed": "bool", "edges_parent": "idx",
            "edges_child": "idx", "max_intervals": "int"},
    returns=("tuple", "T", "T"),
    props=("C06",), gen="dim_mutational_timescale",
)

DimContract(
    "rescaling.piecewise_scale_point_estimate",
    params={"point_estimate": "T", "point_fixed": "bool", "original_breaks": "T", "rescaled_breaks": "T"},
    returns="T",
    props=("C06",), gen="piecewise_point",
)

DimContract(
    "rescaling.piecewise_scale_posterior",
    params={"posteriors": NATS, "posteriors_fixed": "bool", "original_breaks": "T", "rescaled_breaks": "T",
            "quantile_width": "1", "max_shape": "1"},
    returns=NATS,
    locals={"new_posteriors": NATS},
    consts={"__dimless_fns__": ("gammainc_inv",)},
    props=("C06",), gen="dim_piecewise_posterior",
    notes="gammainc_inv is hypergeo._gammainc_inv (pure numbers in and out, assumed A-DIM-HYPERGEO)",
)
