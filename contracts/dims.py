"""
Dimensional contracts (G2) on the real numeric kernels that carry time (T) or genome length (L).

Dimension of each quantity, read from the call sites in variational.py / rescaling.py / core.py:
    node / mutation times, epoch breaks, durations, min_branch_length ("epsilon")          T
    gamma natural parameters (shape - 1, rate)                                              (1, 1/T)
    likelihoods[:, 0] = mutation count, likelihoods[:, 1] = mutation_rate * span            (1, 1/T)
    mean T, variance T^2, E[log t] = log-shifted by T
    quantile levels, max_shape, damping / tolerance constants, indices, counts             1
The result dimension of every contract is what the *statement* of C06 requires of the function's caller
(times scale by c, rates by 1/c, shapes unchanged), not what the code happens to compute.
"""
from vt.dim import DimContract

NAT = ("cols", 0, "1", "1/T")          # one gamma in natural parameters (a row of a posterior array)
NATS = ("cols", 1, "1", "1/T")         # (n, 2) array of natural parameters
LIKS = ("cols", 1, "1", "1/T")         # (E, 2) edge likelihoods: count, mu*span

# ---------------------------------------------------------------------------------------------- approx.py
DimContract(
    "approx.approximate_gamma_mom",
    params={"mean": "T", "variance": "T^2"},
    returns=("tuple", "1", "1/T"),
    props=("C06",), gen="dim_gamma_mom",
)

DimContract(
    "approx.approximate_gamma_kl",
    params={"x": "T", "logx": "log:T"},
    returns=("tuple", "1", "1/T"),
    props=("C06",), gen="dim_gamma_kl",
    notes="hypergeo._digamma/_trigamma take and return pure numbers (assumed, A-DIM-HYPERGEO)",
)

DimContract(
    "approx.approximate_gamma_iqr",
    params={"q1": "1", "q2": "1", "x1": "T", "x2": "T", "max_shape": "1"},
    returns=("tuple", "1", "1/T"),
    props=("C06",), gen="dim_gamma_iqr",
)

# ---------------------------------------------------------------------------------------------- variational.py
DimContract(
    "variational._damp",
    params={"x": NAT, "y": NAT, "s": "1"},
    returns="1",
    props=("C06",), gen="damp",
)

DimContract(
    "variational._rescale",
    params={"x": NAT, "s": "1"},
    returns="1",
    props=("C06",), gen="rescale",
)

FACTOR3 = ("cols", 2, "1", "1/T")      # (n, 2, 2): [row, direction/kind] -> natural parameters
FACT = ("obj", {"node": FACTOR3, "edge": FACTOR3, "block": FACTOR3, "scale": "1",
                "_p": "idx", "_c": "idx", "_j": "idx", "_k": "idx"})

DimContract(
    "variational._rescale_factors",
    params={"factors": FACT}, returns="none", props=("C06",),
)

DimContract(
    "variational.ExpectationPropagation.propagate_likelihood",
    params={"edge_order": "idx", "edges_parent": "idx", "edges_child": "idx", "likelihoods": LIKS, "constraints": "T",
            "posterior": NATS, "factors": FACT, "lognorm": "taint", "max_shape": "1", "min_step": "1",
            "unphased": "bool"},
    returns="none", props=("C06",),
    notes="lognorm (per-edge log normalising constants) is declared tainted: it is written, never read by the kernel",
)

DimContract(
    "variational.ExpectationPropagation.propagate_prior",
    params={"free": "bool", "posterior": NATS, "factors": FACT, "max_shape": "1", "em_maxitt": "int",
            "em_reltol": "1"},
    returns="none", props=("C06",),
)

DimContract(
    "variational.ExpectationPropagation.propagate_mutations",
    params={"mutations_order": "idx", "mutations_posterior": NATS, "mutations_phase": "1", "mutations_edge": "idx",
            "edges_parent": "idx", "edges_child": "idx", "likelihoods": LIKS, "constraints": "T", "posterior": NATS,
            "factors": FACT, "unphased": "bool"},
    returns="none", props=("C06",),
)

# ---------------------------------------------------------------------------------------------- util.py
DimContract(
    "util._constrain_ages",
    params={"nodes_time": "T", "nodes_fixed": "bool", "edges_parent": "idx", "edges_child": "idx",
            "epsilon": "T", "max_iterations": "int"},
    returns="T",
    props=("C06",), gen="constrain_ages",
)

# ---------------------------------------------------------------------------------------------- rescaling.py
DimContract(
    "rescaling._fixed_changepoints",
    params={"counts": "a", "epochs": "int"},
    returns="idx", poly=("a",),
    props=("C06", "C07"), gen="dim_fixed_changepoints",
    notes="polymorphic in the dimension of the weights: only ratios of partial sums are compared",
)

DimContract(
    "rescaling._count_mutations",
    params={"node_is_sample": "bool", "mutations_node": "idx", "mutations_position": "L", "edges_parent": "idx",
            "edges_child": "idx", "edges_left": "L", "edges_right": "L", "indexes_insert": "idx",
            "indexes_remove": "idx", "sequence_length": "L", "size_biased": "bool"},
    returns=("tuple", ("cols", 1, "1", "L"), "idx"),
    props=("C07",), gen="dim_count_mutations", axes=("L",),
    notes="the only numeric kernel that reads genome coordinates: per-edge (mutation count, span); the caller "
          "multiplies column 1 by mutation_rate (1/(T*L)) to get the 1/T-dimensioned likelihood column",
)

TS_COORDS = ("obj", {"num_nodes": "int", "samples()": "idx", "mutations_node": "idx", "mutations_site": "idx",
                     "sites_position": "L", "edges_parent": "idx", "edges_child": "idx", "edges_left": "L",
                     "edges_right": "L", "indexes_edge_insertion_order": "idx", "indexes_edge_removal_order": "idx",
                     "sequence_length": "L"})

DimContract(
    "rescaling.count_mutations",
    params={"ts": TS_COORDS, "node_is_sample": "bool", "size_biased": "bool"},
    returns=("tuple", ("cols", 1, "1", "L"), "idx"),
    props=("C07",),
    notes="Python wrapper of _count_mutations; the tree-sequence attributes it reads are typed by the statement of "
          "C07 (coordinates L); any other attribute read is 'needs contract' (undecided), not a violation",
)

DimContract(
    "rescaling.mutational_area",
    params={"nodes_time": "T", "likelihoods": LIKS, "edges_parent": "idx", "edges_child": "idx"},
    returns=("tuple", "1/T", "1/T", "T", "idx"),
    strong={"edges_counts": "column 0 of edges_counts is divided by the edge length only on rows in edges_subset; the "
                            "other rows keep a pure count but are never read (the only reads are edges_counts[e] for e "
                            "in np.flatnonzero(edges_subset))"},
    locals={"epoch_counts": ("cols", 1, "1/T", "1/T")},
    props=("C06",), gen="dim_mutational_area",
)

DimContract(
    "rescaling.mutational_timescale",
    params={"nodes_time": "T", "likelihoods": LIKS, "nodes_fixed": "bool", "edges_parent": "idx",
            "edges_child": "idx", "max_intervals": "int"},
    returns=("tuple", "T", "T"),
    props=("C06",), gen="dim_mutational_timescale",
)

DimContract(
    "rescaling.piecewise_scale_point_estimate",
    params={"point_estimate": "T", "point_fixed": "bool", "original_breaks": "T", "rescaled_breaks": "T"},
    returns="T",
    props=("C06",), gen="piecewise_point",
)

DimContract(
    "rescaling.piecewise_scale_posterior",
    params={"posteriors": NATS, "posteriors_fixed": "bool", "original_breaks": "T", "rescaled_breaks": "T",
            "quantile_width": "1", "max_shape": "1"},
    returns=NATS,
    locals={"new_posteriors": NATS},
    consts={"__dimless_fns__": ("gammainc_inv",)},
    props=("C06",), gen="dim_piecewise_posterior",
    notes="gammainc_inv is hypergeo._gammainc_inv (pure numbers in and out, assumed A-DIM-HYPERGEO)",
)

# ---------------------------------------------------------------------------------------------- approx.py: EP updates
# Convention of approx.py, read from the docstrings ("log p(t_i, t_j) := log(t_i - t_j) * y_ij - mu_ij * (t_i - t_j)
# + log(t_i) * (a_i - 1) - b_i * t_i ..."): a_* gamma shapes (1), b_* gamma rates (1/T), y_ij mutation count (1),
# mu_ij = mutation_rate * span (1/T), t_i / t_j fixed ages (T), pars_* natural-parameter rows (1, 1/T).
# Results: moments -> E[t] (T), V[t] (T^2); projections -> natural parameters; phase probabilities pure numbers.
# The first result of the *_moments / *_projection functions is the log normalising constant; it contains
# b*log(t) terms whose behaviour under a change of units is value dependent: declared 'taint' (never compared,
# never an output of dating; C06 says nothing about it).
_PARAM_DIM = {"a_i": "1", "a_j": "1", "b_i": "1/T", "b_j": "1/T", "y_ij": "1", "mu_ij": "1/T", "t_i": "T", "t_j": "T",
              "pars_i": NAT, "pars_j": NAT, "pars_ij": NAT, "mean": "T", "variance": "T^2", "mn": "T", "va": "T^2",
              "s": "1", "r": "1/T", "a": "1", "b": "1", "c": "1", "z": "1"}
_MOM1 = ("tuple", "taint", "T", "T^2")
_MOM2 = ("tuple", "taint", "T", "T^2", "T", "T^2")
_APPROX = {
    "_valid_moments": "bool", "_valid_gamma": "bool", "_valid_hyp1f1": "bool", "_valid_hyperu": "bool",
    "_valid_hyp2f1": "bool",
    "moments": _MOM2, "rootward_moments": _MOM1, "leafward_moments": _MOM1, "unphased_moments": _MOM2,
    "twin_moments": _MOM1, "sideways_moments": _MOM1,
    "mutation_moments": ("tuple", "T", "T^2"), "mutation_rootward_moments": ("tuple", "T", "T^2"),
    "mutation_leafward_moments": ("tuple", "T", "T^2"), "mutation_unphased_moments": ("tuple", "1", "T", "T^2"),
    "mutation_twin_moments": ("tuple", "1", "T", "T^2"), "mutation_sideways_moments": ("tuple", "1", "T", "T^2"),
    "mutation_edge_moments": ("tuple", "T", "T^2"), "mutation_block_moments": ("tuple", "1", "T", "T^2"),
    "gamma_projection": ("tuple", "taint", NAT, NAT), "leafward_projection": ("tuple", "taint", NAT),
    "rootward_projection": ("tuple", "taint", NAT), "unphased_projection": ("tuple", "taint", NAT, NAT),
    "twin_projection": ("tuple", "taint", NAT), "sideways_projection": ("tuple", "taint", NAT),
    "mutation_gamma_projection": ("tuple", "1", NAT), "mutation_leafward_projection": ("tuple", "1", NAT),
    "mutation_rootward_projection": ("tuple", "1", NAT), "mutation_edge_projection": ("tuple", "1", NAT),
    "mutation_unphased_projection": ("tuple", "1", NAT), "mutation_twin_projection": ("tuple", "1", NAT),
    "mutation_sideways_projection": ("tuple", "1", NAT), "mutation_block_projection": ("tuple", "1", NAT),
}


def _approx_contracts():
    import ast as _ast
    from vt import extract
    for fname, ret in _APPROX.items():
        try:
            fn = extract.get_function("approx." + fname)
        except LookupError:
            continue  # reported as does-not-attach by the runner (the name stays in APPROX_NAMES)
        params = {}
        for a in fn.node.args.args:
            if a.arg in _PARAM_DIM:
                params[a.arg] = _PARAM_DIM[a.arg]
        DimContract("approx." + fname, params=params, returns=ret, props=("C06",),
                    gen="dim_approx" if not fname.startswith("_valid") else None)


APPROX_NAMES = ["approx." + f for f in _APPROX]
_approx_contracts()


# ---------------------------------------------------------------------------------------------- discrete.py
# The per-edge mutation likelihood of the discrete-time methods: Poisson(muts; dt * mutation_rate * span).  The
# argument of the pmf must be a pure number: dt is a time, mutation_rate is per time and per unit of genome, span a
# genome length -- so this one contract carries both C06 (T) and C07 (L) for inside_outside / maximization.
_LIK = dict(params={"muts": "1", "span": "L", "dt": "T", "mutation_rate": "1/(T*L)", "standardize": "bool"},
            returns="1", props=("C06", "C07"), gen="dim_lik", axes=("T", "L"),
            types=[("float", 0), ("float", 0), ("float", 1), ("float", 0), ("bool", 0)],
            notes="scipy.stats.poisson.pmf / logpmf take and return pure numbers (assumed)")
DimContract("discrete.Likelihoods._lik", **_LIK)
DimContract("discrete.LogLikelihoods._lik", **_LIK)

# ---------------------------------------------------------------------------------------------- demography.py
# Polymorphic: time_ago and breakpoints in unit a, the time measure in unit b -> new times in a/b.  Generations ->
# coalescent units: a = T, b = T (2 Ne);  coalescent -> generations: a = 1, b = 1/T.
DimContract(
    "demography.PopulationSizeHistory._change_time_measure",
    params={"time_ago": "a", "breakpoints": "a", "time_measure": "b"},
    returns=("tuple", "a/b", "a/b", "1/b"), poly=("a", "b"),
    props=("C06",), gen="change_time_measure", types=[("float", 1), ("float", 1), ("float", 1)],
)
