"""Contracts for tsdate/prior.py: the moment-matching transforms (C14)."""
from .base import E, contract


def LOG(eng, st, a):
    return eng.ufun("u_log")(eng.to_float(a))


# gamma_approx(mean, variance) -> (alpha, beta): the gamma with shape alpha and rate beta has mean alpha / beta and
# variance alpha / beta**2.  "Exact moment-matched transform" (C14) = both equalities, for every mean, variance > 0.
contract(
    "prior.gamma_approx", mode="real",
    types=[("float", 0), ("float", 0)], ret=("tuple", [("float", 0), ("float", 0)]),
    requires=["mean > 0", "variance > 0"],
    ensures=[
        E("C14-gamma-shape-and-rate-positive", "result[0] > 0 and result[1] > 0", ["C14"]),
        E("C14-gamma-mean-matched", "result[0] == mean * result[1]", ["C14"]),
        E("C14-gamma-variance-matched", "result[0] == variance * result[1] * result[1]", ["C14"]),
    ],
    notes="A-REAL. Mean and variance matching stated without division: alpha == mean * beta and alpha == variance * beta**2.",
)

# lognorm_approx(mean, var) -> (alpha, beta) = (mu, sigma^2) of the underlying normal.  The lognormal has
# mean exp(mu + sigma^2 / 2) and variance (exp(sigma^2) - 1) * mean^2; in the log domain (log is injective on the
# positive reals, A-MATH) matching both moments is  mu + sigma^2 / 2 == log(mean)  and  sigma^2 == log(var / mean^2 + 1).
contract(
    "prior.lognorm_approx", mode="real",
    types=[("float", 0), ("float", 0)], ret=("tuple", [("float", 0), ("float", 0)]),
    spec_funcs={"LOG": LOG},
    requires=["mean > 0", "var > 0"],
    ensures=[
        E("C14-lognormal-mean-matched-in-log-domain", "result[0] + result[1] / 2 == LOG(mean)", ["C14"]),
        E("C14-lognormal-variance-matched-in-log-domain", "result[1] == LOG(var / (mean * mean) + 1)", ["C14"]),
    ],
    notes="A-REAL; A-MATH: log is uninterpreted, the two equalities are the log-domain form of moment matching.",
)

# ConditionalCoalescentTimes.tau_expect(i, n): mean age of a node with i of n descendant samples, in units of 2N
# generations.  Specification (Kingman coalescent, Wiuf & Donnelly 1999): while j lineages remain the waiting time
# is exponential with rate j (j - 1) / 2, so the age of the MRCA of all n samples has mean
#     KM(n) = sum_{j = 2..n} 2 / (j (j - 1))      (recursive definition below),
# and a node subtending 2 <= i < n samples has mean (i - 1) / n.  The closed form 2 (1 - 1/n) the code returns for the
# root is NOT taken as the specification: it is derived from KM by an induction the verifier checks.
import z3  # noqa: E402

KM_F = z3.Function("KM", z3.IntSort(), z3.RealSort())


def KM(eng, st, n):
    return KM_F(eng.to_int(n))


contract(
    "prior.ConditionalCoalescentTimes.tau_expect", mode="real",
    types=[("int", 0), ("int", 0)], ret=("float", 0),
    spec_funcs={"KM": KM},
    spec_src={"KM": "lambda env, n: sum(2.0 / (j * (j - 1)) for j in range(2, int(n) + 1))"},
    requires=["n >= 2", "2 <= i and i <= n"],
    axioms=[
        "KM(1) == 0.0",
        "forall(j, 1, n, KM(j + 1) == KM(j) + 2.0 / ((j + 1) * j))",
    ],
    ghost_after=[("<entry>", "induct('j', 1, n + 1, 'KM(j) * j == 2.0 * (j - 1)', 'C14-mrca-mean-telescopes')")],
    ensures=[
        E("C14-root-mean-is-sum-of-expected-coalescence-waiting-times", "implies(i == n, result == KM(n))", ["C14"]),
        E("C14-nonroot-mean-is-(k-1)/n", "implies(i < n, result * n == i - 1)", ["C14"]),
        E("C14-mean-positive-and-increasing-to-the-root", "result > 0 and result <= KM(n)", ["C14"]),
    ],
    notes="A-REAL. The Kingman means ((k-1)/n below the root, the sum of expected waiting times at the root) are the "
          "specification; that the code's closed form for the root equals the sum is proved by induction.",
)
