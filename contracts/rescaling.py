"""Contracts for tsdate/rescaling.py kernels."""
from .base import E, Loop, contract

# ---------------------------------------------------------------------------------------------
# piecewise_scale_point_estimate (mode real) -- C25, C37
K, NP = "len(original_breaks)", "len(point_estimate)"
OB, RB, PE = "original_breaks", "rescaled_breaks", "point_estimate"

contract(
    "rescaling.piecewise_scale_point_estimate", mode="real", gen="piecewise_point",
    requires=[
        f"len({OB}) == len({RB})", f"len({OB}) >= 1", f"len(point_fixed) == len({PE})",
        # strictly increasing, stated for all pairs (np.searchsorted's assumed contract needs the all-pairs form;
        # callers establish it)
        f"forall(k, 0, {K}, forall(l, k + 1, {K}, {OB}[k] < {OB}[l] and {RB}[k] < {RB}[l]))",
        f"{OB}[0] == 0 and {RB}[0] == 0",
        f"forall(i, 0, {NP}, {PE}[i] >= 0)",
    ],
    ensures=[
        E("result-shape", f"len(result) == {NP}"),
        E("fixed-entries-untouched", f"forall(i, 0, {NP}, implies(point_fixed[i], result[i] == {PE}[i]))", ["C25", "C37"]),
        E("zero-maps-to-zero", f"forall(i, 0, {NP}, implies(not point_fixed[i] and {PE}[i] == 0, result[i] == 0))", ["C25", "C37"]),
        # piecewise-linear interpolation through the breakpoints (continuity is implied: both one-sided
        # formulas give rescaled[k+1] at original[k+1]); flat beyond the last breakpoint
        E("linear-between-breakpoints",
          f"forall(i, 0, {NP}, forall(k, 0, {K} - 1, implies(not point_fixed[i] and {OB}[k] <= {PE}[i] and {PE}[i] < {OB}[k + 1], "
          f"(result[i] - {RB}[k]) * ({OB}[k + 1] - {OB}[k]) == ({RB}[k + 1] - {RB}[k]) * ({PE}[i] - {OB}[k]))))", ["C25", "C37"]),
        E("flat-beyond-last-breakpoint",
          f"forall(i, 0, {NP}, implies(not point_fixed[i] and {PE}[i] >= {OB}[{K} - 1], result[i] == {RB}[{K} - 1]))", ["C25", "C37"]),
        E("within-the-interval-images",
          f"forall(i, 0, {NP}, forall(k, 0, {K} - 1, implies(not point_fixed[i] and {OB}[k] <= {PE}[i] and {PE}[i] < {OB}[k + 1], "
          f"{RB}[k] <= result[i] and result[i] < {RB}[k + 1])))", ["C25", "C37"]),
    ],
    notes="A-REAL. Order preservation (never reverses two means) is the lemma `monotone-from-interval-images` over "
          "these postconditions: an estimate in interval k maps into [rescaled[k], rescaled[k+1]) and the map is "
          "increasing inside an interval.",
)

# ---------------------------------------------------------------------------------------------
# _fixed_changepoints (mode real) -- C26
contract(
    "rescaling._fixed_changepoints", mode="real", gen="fixed_changepoints",
    requires=[
        "epochs > 0", "len(counts) >= 1",
        "forall(i, 0, len(counts), counts[i] >= 0)",
        "exists(i, 0, len(counts), counts[i] > 0)",
    ],
    ensures=[
        E("length-epochs-plus-one", "len(result) == epochs + 1", ["C26"]),
        E("first-is-zero-last-is-n", "result[0] == 0 and result[epochs] == len(counts)", ["C26"]),
        E("boundaries-non-decreasing", "forall(k, 0, epochs, result[k] <= result[k + 1])", ["C26"]),
        E("boundaries-in-range", "forall(k, 0, epochs + 1, 0 <= result[k] and result[k] <= len(counts))", ["C26"]),
    ],
    notes="A-REAL: cumulative fractions and k/epochs are compared as reals (exact ties that rounding decides are the "
          "known finding of the bounded part). The 'last index with fraction <= k/epochs' clause is stated over the "
          "code's own arrays in the bounded stand-in; here only the structural clauses are proved.",
)
